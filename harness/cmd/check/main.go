// check <property-id> [--tier quick|thorough] [--replay path]
package main

import (
	"flag"
	"fmt"
	"os"

	"verif/harness/checks"
	"verif/harness/vk"
	"verif/harness/world"
)

func main() {
	if len(os.Args) < 2 {
		fmt.Fprintln(os.Stderr, "usage: check <Cxx> [--tier quick|thorough] [--replay path]")
		os.Exit(vk.ExitInfra)
	}
	id := os.Args[1]
	fs := flag.NewFlagSet("check", flag.ExitOnError)
	tier := fs.String("tier", "", "quick|thorough")
	replay := fs.String("replay", "", "replay file")
	fs.Parse(os.Args[2:])
	world.Calibrate()
	world.FastRetries()
	if id == "selftest" {
		os.Exit(checks.Selftest())
	}
	if id == "worker" {
		os.Exit(checks.Worker(fs.Args()))
	}
	f, ok := checks.Registry[id]
	if !ok {
		fmt.Fprintf(os.Stderr, "unknown property %s\n", id)
		os.Exit(vk.ExitInfra)
	}
	c := vk.New(id, *tier)
	c.ReplayPath = *replay
	f(c)
	checks.ReportHookTraces(c)
	os.Exit(c.Finish())
}
