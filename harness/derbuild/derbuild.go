// Package derbuild is a small DER/PEM writer for CRLs that crypto/x509 cannot produce: v1 lists,
// lists without crlExtensions or without revokedCertificates, GeneralizedTime dates, unknown critical
// extensions, unsupported signature algorithms, every length-size class, and control over where element
// boundaries fall relative to the reader's buffer windows.
package derbuild

import (
	"crypto"
	"crypto/ecdsa"
	"crypto/ed25519"
	"crypto/rand"
	"crypto/rsa"
	_ "crypto/sha1"
	_ "crypto/sha256"
	_ "crypto/sha512"
	"crypto/x509/pkix"
	"encoding/asn1"
	"encoding/pem"
	"fmt"
	"math/big"
	"time"
)

// TLV encodes tag + DER length + content.
func TLV(tag byte, content []byte) []byte {
	return append(append([]byte{tag}, Len(len(content))...), content...)
}

// Len encodes a DER length.
func Len(n int) []byte {
	switch {
	case n < 0x80:
		return []byte{byte(n)}
	case n < 0x100:
		return []byte{0x81, byte(n)}
	case n < 0x10000:
		return []byte{0x82, byte(n >> 8), byte(n)}
	case n < 0x1000000:
		return []byte{0x83, byte(n >> 16), byte(n >> 8), byte(n)}
	}
	return []byte{0x84, byte(n >> 24), byte(n >> 16), byte(n >> 8), byte(n)}
}

func Seq(parts ...[]byte) []byte {
	var c []byte
	for _, p := range parts {
		c = append(c, p...)
	}
	return TLV(0x30, c)
}

func Int(v *big.Int) []byte {
	b, err := asn1.Marshal(v)
	if err != nil {
		panic(err)
	}
	return b
}

func SmallInt(v int) []byte { return Int(big.NewInt(int64(v))) }

func OID(o asn1.ObjectIdentifier) []byte {
	b, err := asn1.Marshal(o)
	if err != nil {
		panic(err)
	}
	return b
}

func UTCTime(t time.Time) []byte         { return TLV(0x17, []byte(t.UTC().Format("060102150405Z"))) }
func GeneralizedTime(t time.Time) []byte { return TLV(0x18, []byte(t.UTC().Format("20060102150405Z"))) }
func Null() []byte                       { return []byte{0x05, 0x00} }
func Bool(b bool) []byte {
	if b {
		return []byte{0x01, 0x01, 0xff}
	}
	return []byte{0x01, 0x01, 0x00}
}
func OctetString(b []byte) []byte { return TLV(0x04, b) }
func BitString(b []byte) []byte   { return TLV(0x03, append([]byte{0}, b...)) }

// Extension encodes one Extension.
func Extension(e pkix.Extension) []byte {
	parts := [][]byte{OID(e.Id)}
	if e.Critical {
		parts = append(parts, Bool(true))
	}
	parts = append(parts, OctetString(e.Value))
	return Seq(parts...)
}

func Extensions(es []pkix.Extension) []byte {
	var parts [][]byte
	for _, e := range es {
		parts = append(parts, Extension(e))
	}
	return Seq(parts...)
}

// Alg describes a signature algorithm.
type Alg struct {
	Name   string
	OID    asn1.ObjectIdentifier
	Hash   crypto.Hash
	Key    string // "rsa" | "ecdsa" | "ed25519"
	PSS    bool
	NoNull bool // ECDSA / Ed25519 identifiers carry no NULL parameter
}

var Algs = map[string]Alg{
	"sha1WithRSA":     {Name: "sha1WithRSA", OID: asn1.ObjectIdentifier{1, 2, 840, 113549, 1, 1, 5}, Hash: crypto.SHA1, Key: "rsa"},
	"sha224WithRSA":   {Name: "sha224WithRSA", OID: asn1.ObjectIdentifier{1, 2, 840, 113549, 1, 1, 14}, Hash: crypto.SHA224, Key: "rsa"},
	"sha256WithRSA":   {Name: "sha256WithRSA", OID: asn1.ObjectIdentifier{1, 2, 840, 113549, 1, 1, 11}, Hash: crypto.SHA256, Key: "rsa"},
	"sha384WithRSA":   {Name: "sha384WithRSA", OID: asn1.ObjectIdentifier{1, 2, 840, 113549, 1, 1, 12}, Hash: crypto.SHA384, Key: "rsa"},
	"sha512WithRSA":   {Name: "sha512WithRSA", OID: asn1.ObjectIdentifier{1, 2, 840, 113549, 1, 1, 13}, Hash: crypto.SHA512, Key: "rsa"},
	"ecdsaWithSHA1":   {Name: "ecdsaWithSHA1", OID: asn1.ObjectIdentifier{1, 2, 840, 10045, 4, 1}, Hash: crypto.SHA1, Key: "ecdsa", NoNull: true},
	"ecdsaWithSHA224": {Name: "ecdsaWithSHA224", OID: asn1.ObjectIdentifier{1, 2, 840, 10045, 4, 3, 1}, Hash: crypto.SHA224, Key: "ecdsa", NoNull: true},
	"ecdsaWithSHA256": {Name: "ecdsaWithSHA256", OID: asn1.ObjectIdentifier{1, 2, 840, 10045, 4, 3, 2}, Hash: crypto.SHA256, Key: "ecdsa", NoNull: true},
	"ecdsaWithSHA384": {Name: "ecdsaWithSHA384", OID: asn1.ObjectIdentifier{1, 2, 840, 10045, 4, 3, 3}, Hash: crypto.SHA384, Key: "ecdsa", NoNull: true},
	"ecdsaWithSHA512": {Name: "ecdsaWithSHA512", OID: asn1.ObjectIdentifier{1, 2, 840, 10045, 4, 3, 4}, Hash: crypto.SHA512, Key: "ecdsa", NoNull: true},
	"rsaPSS":          {Name: "rsaPSS", OID: asn1.ObjectIdentifier{1, 2, 840, 113549, 1, 1, 10}, Hash: crypto.SHA256, Key: "rsa", PSS: true},
	"ed25519":         {Name: "ed25519", OID: asn1.ObjectIdentifier{1, 3, 101, 112}, Key: "ed25519", NoNull: true},
}

func (a Alg) Identifier() []byte {
	if a.PSS {
		// RSASSA-PSS-params for SHA-256 / MGF1-SHA-256 / salt 32
		sha256oid := asn1.ObjectIdentifier{2, 16, 840, 1, 101, 3, 4, 2, 1}
		mgf1 := asn1.ObjectIdentifier{1, 2, 840, 113549, 1, 1, 8}
		hashAlg := Seq(OID(sha256oid), Null())
		params := Seq(TLV(0xa0, hashAlg), TLV(0xa1, Seq(OID(mgf1), hashAlg)), TLV(0xa2, SmallInt(32)))
		return Seq(OID(a.OID), params)
	}
	if a.NoNull {
		return Seq(OID(a.OID))
	}
	return Seq(OID(a.OID), Null())
}

type Entry struct {
	Serial  *big.Int
	Date    time.Time
	GenTime bool
	Exts    []pkix.Extension
}

// Doc is a CRL to be rendered.
type Doc struct {
	Version     int // 0: field absent (v1); 2: INTEGER 1; 3: INTEGER 2 (unknown version)
	Alg         Alg
	InnerAlg    *Alg // overrides the inner (signed) algorithm identifier
	IssuerRaw   []byte
	ThisUpdate  time.Time
	NextUpdate  *time.Time
	ListPresent bool
	Entries     []Entry
	ExtsPresent bool
	Exts        []pkix.Extension
}

type Built struct {
	DER     []byte
	TBS     []byte
	TBSOff  int            // offset of tbsCertList inside DER
	Entries []int          // offsets (inside DER) of each revokedCertificate SEQUENCE
	ExtsOff int            // offset of the [0] crlExtensions (0 if absent)
	SigOff  int            // offset of the signature BIT STRING
	AlgOff  int            // offset of the outer AlgorithmIdentifier
	Off     map[string]int // offsets of the elements of tbsCertList by name: version innerAlg issuer thisUpdate nextUpdate list
}

func entryDER(e Entry) []byte {
	date := UTCTime(e.Date)
	if e.GenTime {
		date = GeneralizedTime(e.Date)
	}
	parts := [][]byte{Int(e.Serial), date}
	if len(e.Exts) > 0 {
		parts = append(parts, Extensions(e.Exts))
	}
	return Seq(parts...)
}

// TBSBytes renders tbsCertList and the relative offsets of the entries / extensions.
func (d *Doc) tbs() (tbs []byte, entryOffs []int, extsOff int, named map[string]int) {
	named = map[string]int{}
	inner := d.Alg
	if d.InnerAlg != nil {
		inner = *d.InnerAlg
	}
	var c []byte
	if d.Version != 0 {
		named["version"] = len(c)
		c = append(c, SmallInt(d.Version-1)...)
	}
	named["innerAlg"] = len(c)
	c = append(c, inner.Identifier()...)
	named["issuer"] = len(c)
	c = append(c, d.IssuerRaw...)
	named["thisUpdate"] = len(c)
	c = append(c, UTCTime(d.ThisUpdate)...)
	if d.NextUpdate != nil {
		named["nextUpdate"] = len(c)
		c = append(c, UTCTime(*d.NextUpdate)...)
	}
	var relEntry []int
	listStart := -1
	var list []byte
	if d.ListPresent {
		for _, e := range d.Entries {
			relEntry = append(relEntry, len(list))
			list = append(list, entryDER(e)...)
		}
		listStart = len(c)
		named["list"] = len(c)
		c = append(c, TLV(0x30, list)...)
	}
	relExts := -1
	if d.ExtsPresent {
		relExts = len(c)
		c = append(c, TLV(0xa0, Extensions(d.Exts))...)
	}
	tbs = TLV(0x30, c)
	hdr := len(tbs) - len(c)
	if d.ListPresent {
		listHdr := 1 + len(Len(len(list)))
		for _, r := range relEntry {
			entryOffs = append(entryOffs, hdr+listStart+listHdr+r)
		}
	}
	if relExts >= 0 {
		extsOff = hdr + relExts
	}
	for k, v := range named {
		named[k] = v + hdr
	}
	return
}

// Sign computes the signature over tbs with the document's (outer) algorithm.
func Sign(alg Alg, key crypto.Signer, tbs []byte) ([]byte, error) {
	switch alg.Key {
	case "ed25519":
		k, ok := key.(ed25519.PrivateKey)
		if !ok {
			return nil, fmt.Errorf("ed25519 key needed")
		}
		return ed25519.Sign(k, tbs), nil
	}
	h := alg.Hash.New()
	h.Write(tbs)
	digest := h.Sum(nil)
	switch alg.Key {
	case "rsa":
		k, ok := key.(*rsa.PrivateKey)
		if !ok {
			return nil, fmt.Errorf("rsa key needed")
		}
		if alg.PSS {
			return rsa.SignPSS(rand.Reader, k, alg.Hash, digest, &rsa.PSSOptions{SaltLength: 32, Hash: alg.Hash})
		}
		return rsa.SignPKCS1v15(rand.Reader, k, alg.Hash, digest)
	case "ecdsa":
		k, ok := key.(*ecdsa.PrivateKey)
		if !ok {
			return nil, fmt.Errorf("ecdsa key needed")
		}
		return ecdsa.SignASN1(rand.Reader, k, digest)
	}
	return nil, fmt.Errorf("unknown key kind %q", alg.Key)
}

// Build renders and signs the document.
func (d *Doc) Build(key crypto.Signer) (*Built, error) {
	tbs, entryOffs, extsOff, named := d.tbs()
	sig, err := Sign(d.Alg, key, tbs)
	if err != nil {
		return nil, err
	}
	algID := d.Alg.Identifier()
	sigBS := BitString(sig)
	content := append(append(append([]byte{}, tbs...), algID...), sigBS...)
	der := TLV(0x30, content)
	hdr := len(der) - len(content)
	b := &Built{DER: der, TBS: tbs, TBSOff: hdr, AlgOff: hdr + len(tbs), SigOff: hdr + len(tbs) + len(algID)}
	b.Off = map[string]int{}
	for k, v := range named {
		b.Off[k] = hdr + v
	}
	for _, o := range entryOffs {
		b.Entries = append(b.Entries, hdr+o)
	}
	if extsOff > 0 {
		b.ExtsOff = hdr + extsOff
	}
	return b, nil
}

// PEM renders DER as 64-column PEM with LF or CRLF line ends.
func PEM(der []byte, crlf bool) []byte {
	b := pem.EncodeToMemory(&pem.Block{Type: "X509 CRL", Bytes: der})
	if !crlf {
		return b
	}
	out := make([]byte, 0, len(b)+len(b)/64+2)
	for _, c := range b {
		if c == '\n' {
			out = append(out, '\r')
		}
		out = append(out, c)
	}
	return out
}

// RDN builds an issuer name; pad adds an OU of the given length (alignment control).
func RDN(cn string, pad int) []byte {
	n := pkix.Name{CommonName: cn, Organization: []string{"verif"}}
	if pad > 0 {
		b := make([]byte, pad)
		for i := range b {
			b[i] = 'p'
		}
		n.OrganizationalUnit = []string{string(b)}
	}
	der, err := asn1.Marshal(n.ToRDNSequence())
	if err != nil {
		panic(err)
	}
	return der
}
