package checks

import (
	"crypto/x509"
	"crypto/x509/pkix"
	"encoding/asn1"
	"errors"
	"fmt"
	"math/big"
	"math/rand"
	"os"
	"os/exec"
	"path/filepath"
	"time"

	"github.com/gr33nbl00d/caddy-revocation-validator/crl/crlstore"
	"go.uber.org/zap"

	"verif/harness/derbuild"
	"verif/harness/origin"
	"verif/harness/pki"
	"verif/harness/vk"
	"verif/harness/world"
)

// C09 — fail closed: a storage failure during lookup is never reported as "not revoked".
//
// Part 1 (store level): CrlStore.tla with the fault actions enabled (CloseUnder, Corrupt); the
// complete graph is walked on the real backends, predicate: the specification says "error" for a
// lookup and the real store answers "not revoked" (or anything but an error).
// Part 2 (validator level): the same faults injected underneath a provisioned validator, observed
// through VerifyClientCertificate: the handshake must be denied.
func C09(c *vk.Ctx) {
	keys := []string{"k1", "k2"}
	rng := rand.New(rand.NewSource(c.Seed))
	var states, trans int64
	walks := 0
	for _, disk := range []bool{true, false} {
		g, res := exportStoreGraph(c, keys, disk, true, 8)
		states += res.Distinct
		trans += int64(len(g.Edges))
		backend := "memory"
		if disk {
			backend = "disk"
		}
		tour := g.Tour(120, rng)
		budget := c.Pick(60, 100000)
		for i, w := range tour {
			if i >= budget || c.Violations() > 6 {
				break
			}
			runStoreWalk(c, "C09", []string{backend}, keys, w, int(c.Seed)+i)
			walks++
			if i == 0 {
				c.Sample(map[string]any{"backend": backend, "first_ops": opsOf(w, 10), "len": len(w)})
			}
		}
	}
	c.Set("states", states)
	c.Set("transitions", trans)
	// part 2
	walks += c09Validator(c, rng)
	walks += c09DamagedOpen(c, rng)
	walks += c09TableBitSweep(c)
	walks += midSwapFault(c, "movedAside")
	c.Set("traces_validated_against_impl", int64(walks))
	c.Set("spec", "CrlStore.tla with Faulty = TRUE (CloseUnder, Corrupt(k)): invariant FailClosed; Revocation.tla verdict composition (any lookup error => handshake rejected)")
	c.Set("rule", "store level: one case = one edge of the fault-enabled store graph executed on the real backend, all lookups compared; validator level: one case = (backend, fault class, listed/unlisted certificate, strict/lenient) with the fault injected underneath a provisioned validator; violation iff a fault was injected, the specification says 'error', and the real answer is 'not revoked' / the handshake is accepted")
	c.Assume("lookups that start after Cleanup returned are lifecycle misuse and are not demanded to error; in-flight lookups are")
	c.Assume("record corruption is injected through the exported store handles (LevelDbStore.Db, MapStore.Map); block-level corruption of .ldb files is exercised in the thorough tier only")
}

type faultCase struct {
	Backend string `json:"backend"`
	Fault   string `json:"fault"`
	Cert    string `json:"cert"`
	Strict  bool   `json:"strict"`
	Others  bool   `json:"others"` // a second, healthy CRL is in force next to the failing one
}

// c09Validator injects lookup-time faults underneath a real validator.
func c09Validator(c *vk.Ctx, rng *rand.Rand) int {
	n := 0
	for _, backend := range []string{"disk", "memory"} {
		faults := []string{"corrupt-record", "damaged-record", "swap-failed"}
		if backend == "disk" {
			faults = append(faults, "closed-underneath")
		}
		for _, fault := range faults {
			for _, cert := range []string{"c1", "c2"} { // c1 listed, c2 not listed
				for _, strict := range []bool{false, true} {
					for _, others := range []bool{false, true} {
						fc := faultCase{backend, fault, cert, strict, others}
						c09One(c, fc, rng)
						n++
					}
				}
			}
		}
	}
	return n
}

var errInjected = errors.New("verif: injected store failure")

type faultyStore struct {
	crlstore.CRLStore
	armed *bool
}

func (s *faultyStore) Update(n crlstore.CRLStore) error {
	if *s.armed {
		// what a failing swap does first: the old store is closed, then a step fails
		s.CRLStore.Close()
		return errInjected
	}
	return s.CRLStore.Update(n)
}

func c09One(c *vk.Ctx, fc faultCase, rng *rand.Rand) {
	// the configured location U lists c2 (abstract serial 2); c1 is not listed anywhere and its CDP serves garbage
	cfg := HubCfg{Mode: "crl_only", Sig: "verify", Strict: fc.Strict, Fetch: "actively", Disk: fc.Backend == "disk", TrustA: true, Conf: "url", Ocsp: "noaia"}
	shape := RandomShape(rng)
	h, err := newHubWorld(cfg, shape, c.Seed*31+int64(rng.Intn(1000)))
	if err != nil {
		c.Infra("world: %v", err)
	}
	defer h.destroy()
	h.publish("U", hubDoc{Signer: "A", Keys: []int{2}, Q: "valid"})
	if fc.Others {
		h.publish("D", hubDoc{Signer: "A", Keys: []int{}, Q: "valid"})
	} else {
		h.publish("D", hubDoc{Q: "garbage"})
	}
	armed := false
	if err := h.w.Provision(); err != nil {
		c.Infra("provision: %v", err)
	}
	repo := h.w.V.VerifCRLChecker().VerifRepository()
	r0 := h.w.HandshakeTimeout(h.chains["c2"], 30*time.Second)
	if r0.Verdict != "revoked" {
		c.Drift("c09-setup-not-revoked")
		return
	}
	ids := repo.VerifIdentifiers()
	if len(ids) != 1 {
		c.Infra("expected one repository entry, got %d", len(ids))
	}
	st := repo.VerifStore(ids[0])
	if fc.Others {
		// c1 names the distribution point D: its handshake brings a second CRL into force
		if r1 := h.w.HandshakeTimeout(h.chains["c1"], 30*time.Second); r1.Verdict != "accept" || len(repo.VerifIdentifiers()) != 2 {
			c.Drift("c09-setup-second-crl")
			return
		}
	}
	switch fc.Fault {
	case "closed-underneath":
		st.(*crlstore.LevelDbStore).Db.Close()
	case "corrupt-record":
		if err := corruptAllEntries(st, h.leaves["c2"].Cert.SerialNumber, false); err != nil {
			c.Infra("corrupt: %v", err)
		}
	case "damaged-record":
		// one bit of the stored record flipped inside its serial: the value still decodes, but it is not what was stored
		if err := corruptAllEntries(st, h.leaves["c2"].Cert.SerialNumber, true); err != nil {
			c.Infra("damage: %v", err)
		}
	case "swap-failed":
		// the next swap of the live store fails after its first step (old store closed)
		repo.VerifWrapStore(ids[0], func(inner crlstore.CRLStore) crlstore.CRLStore { return &faultyStore{CRLStore: inner, armed: &armed} })
		armed = true
		h.publish("U", hubDoc{Signer: "A", Keys: []int{1, 2}, Q: "valid"})
		h.w.RefreshAll()
		armed = false
	}
	listed := fc.Cert == "c2"
	r := h.w.HandshakeTimeout(h.chains[fc.Cert], 30*time.Second)
	if fc.Others {
		// the order in which the CRLs are consulted is not fixed: repeat, every answer counts
		for i := 0; i < 24 && r.Verdict != "accept" && r.Verdict != "panic" && r.Verdict != "hang"; i++ {
			r = h.w.HandshakeTimeout(h.chains[fc.Cert], 30*time.Second)
		}
	}
	c.Eval(fmt.Sprintf("%+v", fc))
	rep := map[string]any{"case": fc, "shape": shape, "result": r}
	sig := fmt.Sprintf("validator:%s:%s:%s", fc.Backend, fc.Fault, map[bool]string{true: "listed", false: "unlisted"}[listed])
	if fc.Others {
		sig += ":second-crl-healthy"
	}
	switch fc.Fault {
	case "closed-underneath":
		// every lookup in that store fails: listed or not, the handshake must be denied
		if r.Verdict == "accept" {
			c.Violation(sig, fmt.Sprintf("the CRL database was closed underneath the lookup and the handshake of %s was accepted (strict=%v)", fc.Cert, fc.Strict), rep)
		}
	case "corrupt-record", "damaged-record":
		if listed && r.Verdict == "accept" {
			c.Violation(sig, "the record stored for the listed certificate is corrupted ("+fc.Fault+") and the handshake was accepted", rep)
		}
	case "swap-failed":
		// either the complete previous list still answers (C08) or the lookup errors; the listed certificate is never accepted
		if listed && r.Verdict == "accept" {
			c.Violation(sig, fmt.Sprintf("after a failed store swap the certificate listed by the previous CRL was accepted (strict=%v): the CRL silently dropped out of force", fc.Strict), rep)
		}
	}
	if r.Verdict == "panic" {
		c.Violation("validator:"+fc.Backend+":"+fc.Fault+":panic", "lookup after a storage fault panicked: "+r.Panic, rep)
	}
	if r.Verdict == "hang" {
		h.poisoned = true
		c.Drift("c09-hang")
	}
}

// corruptAllEntries overwrites the record of the given serial with an undecodable value, or (decodable) with the same record
// whose serial has one bit flipped.
func corruptAllEntries(st crlstore.CRLStore, serial *big.Int, decodable bool) error {
	bad := func(val []byte) []byte {
		if !decodable {
			return []byte{0x30, 0x03, 0x02}
		}
		rc := new(pkix.RevokedCertificate)
		if _, err := asn1.Unmarshal(val, rc); err != nil {
			return []byte{0x30, 0x03, 0x02}
		}
		rc.SerialNumber = new(big.Int).Xor(rc.SerialNumber, big.NewInt(1))
		out, err := asn1.Marshal(*rc)
		if err != nil {
			return []byte{0x30, 0x03, 0x02}
		}
		return out
	}
	match := func(val []byte) bool {
		rc := new(pkix.RevokedCertificate)
		if _, err := asn1.Unmarshal(val, rc); err != nil {
			return false
		}
		return rc.SerialNumber != nil && rc.SerialNumber.Cmp(serial) == 0
	}
	switch s := st.(type) {
	case *crlstore.LevelDbStore:
		it := s.Db.NewIterator(nil, nil)
		defer it.Release()
		for it.Next() {
			if match(it.Value()) {
				return s.Db.Put(append([]byte(nil), it.Key()...), bad(append([]byte(nil), it.Value()...)), nil)
			}
		}
	case *crlstore.MapStore:
		for k, v := range s.Map {
			if match(v) {
				s.Map[k] = bad(v)
				return nil
			}
		}
	}
	return fmt.Errorf("record for serial %v not found in %T", serial, st)
}

// c09DamagedOpen: a large CDP CRL is stored on disk (several table files), the instance is cleaned up, then - for every table file
// of the store - a copy of work_dir loses that file and a new validator (strict) is provisioned on it. Certificates listed in the
// CRL are presented: each handshake is denied (revoked, or an error because the store does not open), never accepted. This is
// CrlStore.tla's OpenDamaged seen through the validator: what is left of a damaged database never answers "not revoked".
func c09DamagedOpen(c *vk.Ctx, rng *rand.Rand) int {
	n := c.Pick(260000, 600000)
	org := origin.New()
	defer org.Close()
	ca := pki.NewCA(pki.CAOpts{Name: "Damaged Store CA", Serial: 960})
	now := time.Now().Add(-time.Minute).UTC().Truncate(time.Second)
	nu := now.Add(24 * time.Hour)
	doc := &derbuild.Doc{Version: 2, Alg: derbuild.Algs["ecdsaWithSHA256"], IssuerRaw: ca.Cert.RawSubject, ThisUpdate: now, NextUpdate: &nu, ListPresent: true, ExtsPresent: true}
	base := new(big.Int).Lsh(big.NewInt(0x61), 72)
	doc.Entries = make([]derbuild.Entry, n)
	for i := range doc.Entries {
		doc.Entries[i] = derbuild.Entry{Serial: new(big.Int).Add(base, big.NewInt(int64(i)*7919)), Date: now}
	}
	b, err := doc.Build(ca.Key)
	if err != nil {
		c.Infra("build large crl: %v", err)
	}
	org.SetBody("/damaged.crl", b.DER)
	const probes = 24
	var chains [][][]*x509.Certificate
	for i := 0; i < probes; i++ {
		idx := (i*n)/probes + rng.Intn(n/probes)
		leaf := ca.Leaf(pki.LeafOpts{CN: fmt.Sprintf("listed %d", idx), Serial: doc.Entries[idx].Serial, CDP: []string{org.URL + "/damaged.crl"}})
		chains = append(chains, pki.Chain(leaf.Cert, ca))
	}
	w, err := world.New(world.Cfg{Mode: "crl_only", Storage: "disk", Sig: "none", Fetch: "fetch_actively", CdpStrict: true, Interval: "1h"})
	if err != nil {
		c.Infra("world: %v", err)
	}
	defer w.Destroy()
	if err := w.Provision(); err != nil {
		c.Infra("provision: %v", err)
	}
	if r := w.HandshakeTimeout(chains[0], 120*time.Second); r.Verdict != "revoked" {
		c.Drift("damaged-open-setup:" + r.Verdict)
		return 0
	}
	w.Cleanup()
	org.SetBody("/damaged.crl", []byte("gone")) // nothing can be fetched again
	var tables []string
	filepath.Walk(w.WorkDir, func(p string, info os.FileInfo, err error) error {
		if err == nil && !info.IsDir() && filepath.Ext(p) == ".ldb" {
			tables = append(tables, p)
		}
		return nil
	})
	c.Set("damaged_open_tables", int64(len(tables)))
	cases := 0
	// damage kinds per table file: the file is gone; or one bit of it is flipped at an offset (spread over the file + seeded)
	type damage struct {
		table  string
		offset int64 // -1: the file is removed
	}
	var damages []damage
	for _, table := range tables {
		damages = append(damages, damage{table, -1})
		if fi, err := os.Stat(table); err == nil && fi.Size() > 64 {
			// one bit in every 97th byte of a tenth of the file, for every tenth: whichever block holds the record of a probe
			// is damaged in exactly one of the cases (a single flipped bit would have to land on the record of one of 24 probes
			// among 260 000)
			for j := 0; j < 10; j++ {
				damages = append(damages, damage{table, fi.Size() * int64(j) / 10})
			}
		}
	}
	for ti, dm := range damages {
		table := dm.table
		if c.Violations() > 6 {
			break
		}
		sandbox, _ := os.MkdirTemp("", "verif.damaged.")
		img := filepath.Join(sandbox, "work")
		if err := exec.Command("cp", "-r", w.WorkDir, img).Run(); err != nil {
			c.Infra("copy work_dir: %v", err)
		}
		rel, _ := filepath.Rel(w.WorkDir, table)
		what := "table-file-missing-at-open"
		if dm.offset < 0 {
			os.Remove(filepath.Join(img, rel))
		} else {
			what = "bits-flipped-in-table-file"
			if f, err := os.OpenFile(filepath.Join(img, rel), os.O_RDWR, 0); err == nil {
				fi, _ := f.Stat()
				b := make([]byte, 1)
				for off := dm.offset + int64(rng.Intn(97)); off < dm.offset+fi.Size()/10 && off < fi.Size(); off += 97 {
					f.ReadAt(b, off)
					b[0] ^= 1 << uint(rng.Intn(8))
					f.WriteAt(b, off)
				}
				f.Close()
			}
		}
		w2 := &world.World{Sandbox: sandbox, WorkDir: img, Cfg: world.Cfg{Mode: "crl_only", Storage: "disk", Sig: "none", Fetch: "fetch_actively", CdpStrict: true, Interval: "1h"}}
		perr := w2.Provision()
		accepted := []int{}
		verdicts := map[string]int{}
		if perr == nil {
			for i, ch := range chains {
				r := w2.HandshakeTimeout(ch, 60*time.Second)
				verdicts[r.Verdict]++
				if r.Verdict == "accept" {
					accepted = append(accepted, i)
				}
			}
			w2.Cleanup()
		}
		cases++
		c.Eval(fmt.Sprintf("damaged-open|%d/%d|%s|%d", ti, len(damages), filepath.Base(table), dm.offset))
		if os.Getenv("VERIF_DEBUG") != "" {
			fmt.Fprintf(os.Stderr, "DAMAGED %s %s off=%d provision=%v verdicts=%v\n", what, filepath.Base(table), dm.offset, perr, verdicts)
		}
		if len(accepted) > 0 {
			c.Violation("validator:disk:"+what+":listed-accepted",
				fmt.Sprintf("the store of a CRL with %d entries (%d table files) was damaged while the validator was down (%s %s, offset %d); after the restart %d of %d certificates that the CRL lists were accepted (strict mode, nothing can be fetched): %v", n, len(tables), what, filepath.Base(table), dm.offset, len(accepted), probes, verdicts),
				map[string]any{"entries": n, "tables": len(tables), "file": filepath.Base(table), "offset": dm.offset, "verdicts": verdicts})
		}
		os.RemoveAll(sandbox)
	}
	return cases
}

// c09TableBitSweep: store level, exhaustive over byte positions: a small store whose records sit in a table file (after a reopen
// the journal has been turned into one) is closed; one bit of every byte of that file is flipped in turn on a copy; the store is
// opened again and the stored keys are looked up. Not opening, an error, or the stored entry are all fine; "not revoked" for a
// stored entry is the damage turned into an answer (CrlStore.tla: OpenDamaged / Corrupt, FailClosed).
func c09TableBitSweep(c *vk.Ctx) int {
	keys := []string{"k1", "k2"}
	sc := newStoreConc(int(c.Seed))
	d, err := newStoreDrv("disk", sc)
	if err != nil {
		c.Infra("store: %v", err)
	}
	defer d.close()
	for _, op := range [][]any{{"start", "v1"}, {"locs", "v1"}, {"insert", "k1", "v1"}, {"insert", "k2", "v2"}, {"reopen"}, {"reopen"}} {
		if err := d.apply(op); err != nil {
			c.Infra("table sweep setup %v: %v", op, err)
		}
	}
	d.st.Close()
	var tables []string
	filepath.Walk(d.dir, func(p string, info os.FileInfo, err error) error {
		if err == nil && !info.IsDir() && filepath.Ext(p) == ".ldb" {
			tables = append(tables, p)
		}
		return nil
	})
	if len(tables) == 0 {
		c.Drift("table-sweep-no-table-file")
		return 0
	}
	n := 0
	for _, table := range tables {
		raw, _ := os.ReadFile(table)
		step := 1
		if len(raw) > 1500 && !c.Thorough() {
			step = len(raw) / 1500
		}
		for off := 0; off < len(raw) && c.Violations() <= 6; off += step {
			img, _ := os.MkdirTemp("", "verif.sweep.")
			exec.Command("cp", "-r", filepath.Join(d.dir, d.id), filepath.Join(img, d.id)).Run()
			mut := append([]byte{}, raw...)
			mut[off] ^= 1 << uint(off%8)
			os.WriteFile(filepath.Join(img, d.id, filepath.Base(table)), mut, 0o644)
			f2, err := crlstore.CreateStoreFactory(crlstore.LevelDB, img, zap.NewNop())
			if err == nil {
				if st, err := f2.CreateStore(d.id, false); err == nil {
					o := (&storeDrv{backend: "disk", factory: f2, dir: img, id: d.id, st: st, sc: sc}).observe(keys)
					for _, k := range keys {
						if o.Look[k] == "notrevoked" {
							c.Violation("store:disk:bit-flipped-in-table-file:stored-entry-not-revoked",
								fmt.Sprintf("one bit of byte %d of the table file %s was flipped while the store was closed; after opening it again the lookup of the stored entry %s answers 'not revoked' (no error)", off, filepath.Base(table), k),
								map[string]any{"offset": off, "bit": off % 8, "file_len": len(raw), "key": k})
						}
					}
					st.Close()
				}
			}
			n++
			c.Eval(fmt.Sprintf("table-sweep|%s|%d", filepath.Base(table), off))
			os.RemoveAll(img)
		}
	}
	return n
}
