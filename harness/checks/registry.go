package checks

import "verif/harness/vk"

// Registry maps property ids to their decision procedures.
var Registry = map[string]func(*vk.Ctx){
	"C18": C18,
}

// Worker runs a child-process scenario (crash runs, memory runs); filled in by the checks that need one.
var workers = map[string]func(args []string) int{}

func Worker(args []string) int {
	if len(args) == 0 {
		return 2
	}
	if f, ok := workers[args[0]]; ok {
		return f(args[1:])
	}
	return 2
}

func init() {
	Registry["C01"] = C01
	Registry["C10"] = C10
	Registry["C11"] = C11
	Registry["C16"] = C16
	Registry["C03"] = C03
	Registry["C09"] = C09
	Registry["C02"] = C02
	Registry["C05"] = C05
	Registry["C14"] = C14
	Registry["C06"] = C06
	Registry["C07"] = C07
	Registry["C04"] = C04
	Registry["C17"] = C17
	Registry["C19"] = C19
	Registry["C15"] = C15
	Registry["C08"] = C08
	Registry["C12"] = C12
	Registry["C20"] = C20
}

func init() { Registry["C13"] = C13 }

var c13Concurrent = func(c *vk.Ctx) {}
