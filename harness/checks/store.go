package checks

import (
	"bytes"
	"crypto/x509/pkix"
	"encoding/asn1"
	"encoding/json"
	"fmt"
	"math/big"
	"math/rand"
	"os"
	"path/filepath"
	"reflect"
	"time"

	"github.com/gr33nbl00d/caddy-revocation-validator/core"
	"github.com/gr33nbl00d/caddy-revocation-validator/crl/crlreader"
	"github.com/gr33nbl00d/caddy-revocation-validator/crl/crlstore"
	"github.com/syndtr/goleveldb/leveldb"
	"go.uber.org/zap"

	"verif/harness/graph"
	"verif/harness/pki"
	"verif/harness/tlcrun"
	"verif/harness/vk"
)

// ---------------------------------------------------------------------------------------------
// Concretisation of CrlStore.tla's abstract values
// ---------------------------------------------------------------------------------------------

type storeConc struct {
	variant  int
	issuers  []pkix.RDNSequence
	keyIss   map[string]int
	keySer   map[string]*big.Int
	signers  map[string]*core.CertificateChainEntry
	metas    map[string]*crlreader.CRLMetaInfo
	exts     map[string]*crlreader.ExtendedCRLMetaInfo
	locs     map[string]*core.CRLLocations
	describe string
}

var (
	storeCAOnce [2]*pki.CA
)

func storeCAs() (*pki.CA, *pki.CA) {
	if storeCAOnce[0] == nil {
		storeCAOnce[0] = pki.NewCA(pki.CAOpts{Name: "Store CA A"})
		storeCAOnce[1] = pki.NewCA(pki.CAOpts{Name: "Störe CÄ B — ünï", Alg: "rsa", RSAIndex: 0})
	}
	return storeCAOnce[0], storeCAOnce[1]
}

func rdn(cn string, extra ...string) pkix.RDNSequence {
	n := pkix.Name{CommonName: cn, Organization: extra}
	return n.ToRDNSequence()
}

func newStoreConc(variant int) *storeConc {
	a, b := storeCAs()
	sc := &storeConc{variant: variant, keyIss: map[string]int{}, keySer: map[string]*big.Int{},
		signers: map[string]*core.CertificateChainEntry{}, metas: map[string]*crlreader.CRLMetaInfo{},
		exts: map[string]*crlreader.ExtendedCRLMetaInfo{}, locs: map[string]*core.CRLLocations{}}
	sc.issuers = []pkix.RDNSequence{rdn("Issuer A", "Org"), rdn("Issuer B ÄÖ 日本", "Org, with = comma")}
	wide, _ := new(big.Int).SetString("00f1e2d3c4b5a69788796a5b4c3d2e1f00112233", 16) // 20 bytes, leading 00 stripped => 19.x bytes, high bit set
	wide20, _ := new(big.Int).SetString("7fe2d3c4b5a69788796a5b4c3d2e1f0011223344", 16)
	switch variant % 6 {
	case 0:
		sc.describe = "same issuer, adjacent serials; sibling issuer same serial"
		sc.setKey("k1", 0, big.NewInt(7))
		sc.setKey("k2", 0, big.NewInt(8))
		sc.setKey("k3", 1, big.NewInt(7))
	case 1:
		sc.describe = "different issuers sharing one serial; 20-byte serial"
		sc.setKey("k1", 0, big.NewInt(7))
		sc.setKey("k2", 1, big.NewInt(7))
		sc.setKey("k3", 0, wide20)
	case 2:
		sc.describe = "wide serials off by one (high bit set)"
		sc.setKey("k1", 0, wide)
		sc.setKey("k2", 0, new(big.Int).Sub(wide, big.NewInt(1)))
		sc.setKey("k3", 1, wide)
	case 3:
		sc.describe = "decimal-prefix serials 1 / 12 / 123"
		sc.setKey("k1", 0, big.NewInt(1))
		sc.setKey("k2", 0, big.NewInt(12))
		sc.setKey("k3", 0, big.NewInt(123))
	case 5:
		sc.describe = "sign variants: 5 / -5 under one issuer, 5 under another"
		sc.setKey("k1", 0, big.NewInt(5))
		sc.setKey("k2", 0, big.NewInt(-5))
		sc.setKey("k3", 1, big.NewInt(5))
	case 4:
		sc.describe = "serial 0, 255/256 boundary"
		sc.setKey("k1", 0, big.NewInt(0))
		sc.setKey("k2", 0, big.NewInt(255))
		sc.setKey("k3", 0, big.NewInt(256))
	}
	sc.signers["v1"] = &core.CertificateChainEntry{RawCertificate: a.Cert.Raw, Certificate: a.Cert}
	sc.signers["v2"] = &core.CertificateChainEntry{RawCertificate: b.Cert.Raw, Certificate: b.Cert}
	t0 := time.Date(2024, 3, 1, 12, 0, 0, 0, time.UTC)
	sc.metas["v1"] = &crlreader.CRLMetaInfo{Issuer: sc.issuers[0], ThisUpdate: t0, NextUpdate: t0.Add(48 * time.Hour)}
	sc.metas["v2"] = &crlreader.CRLMetaInfo{Issuer: sc.issuers[1], ThisUpdate: t0.Add(time.Hour)} // zero NextUpdate (absent in the CRL)
	if variant%2 == 1 {
		sc.metas["v2"].ThisUpdate = time.Date(2049, 12, 31, 23, 59, 59, 0, time.UTC)
	}
	sc.exts["v1"] = &crlreader.ExtendedCRLMetaInfo{CRLNumber: big.NewInt(5)}
	switch variant % 3 {
	case 0:
		sc.exts["v2"] = &crlreader.ExtendedCRLMetaInfo{CRLNumber: nil}
	case 1:
		sc.exts["v2"] = &crlreader.ExtendedCRLMetaInfo{CRLNumber: new(big.Int).Lsh(big.NewInt(1), 150)}
	case 2:
		sc.exts["v2"] = &crlreader.ExtendedCRLMetaInfo{CRLNumber: big.NewInt(0)}
	}
	sc.locs["v1"] = &core.CRLLocations{CRLDistributionPoints: []string{"http://cdp.example/a.crl", "ldap://x/y?z"}}
	switch variant % 3 {
	case 0:
		sc.locs["v2"] = &core.CRLLocations{CRLUrl: "https://crl.example/ünï?x=1&y=2"}
	case 1:
		sc.locs["v2"] = &core.CRLLocations{CRLFile: "/tmp/päth with space/ca.crl"}
	case 2:
		sc.locs["v2"] = &core.CRLLocations{CRLDistributionPoints: []string{}}
	}
	return sc
}

func (sc *storeConc) setKey(k string, iss int, ser *big.Int) {
	sc.keyIss[k] = iss
	sc.keySer[k] = ser
}

// entry payload for key k and variant v; each (k, v) has a unique revocation time
func (sc *storeConc) entry(k, v string) *crlreader.CRLEntry {
	idx := map[string]int{"k1": 1, "k2": 2, "k3": 3}[k]
	t := time.Date(2023, 5, idx, 10, 0, 0, 0, time.UTC)
	rc := &pkix.RevokedCertificate{SerialNumber: sc.keySer[k], RevocationTime: t}
	if v == "v2" {
		rc.RevocationTime = time.Date(2031, 7, idx, 23, 59, 59, 0, time.UTC)
		reason, _ := asn1.Marshal(asn1.Enumerated(1))
		inval, _ := asn1.Marshal(time.Date(2020, 1, 1, 0, 0, 0, 0, time.UTC))
		rc.Extensions = []pkix.Extension{
			{Id: asn1.ObjectIdentifier{2, 5, 29, 21}, Value: reason},
			{Id: asn1.ObjectIdentifier{2, 5, 29, 24}, Value: inval},
			{Id: asn1.ObjectIdentifier{1, 3, 6, 1, 4, 1, 99999, 1}, Critical: false, Value: []byte{0x04, 0x03, 1, 2, 3}},
		}
	}
	iss := sc.issuers[sc.keyIss[k]]
	return &crlreader.CRLEntry{Issuer: &iss, RevokedCertificate: rc}
}

// ---------------------------------------------------------------------------------------------
// Real store driver
// ---------------------------------------------------------------------------------------------

type storeDrv struct {
	backend string
	factory crlstore.Factory
	dir     string
	id      string
	st      crlstore.CRLStore
	sc      *storeConc
}

func newStoreDrv(backend string, sc *storeConc) (*storeDrv, error) {
	d := &storeDrv{backend: backend, sc: sc, id: "c0ffee00"}
	var err error
	if backend == "disk" {
		d.dir, err = os.MkdirTemp("", "verif.store.")
		if err != nil {
			return nil, err
		}
		d.factory, err = crlstore.CreateStoreFactory(crlstore.LevelDB, d.dir, zap.NewNop())
	} else {
		d.factory, err = crlstore.CreateStoreFactory(crlstore.Map, "", zap.NewNop())
	}
	if err != nil {
		return nil, err
	}
	d.st, err = d.factory.CreateStore(d.id, false)
	return d, err
}

func (d *storeDrv) close() {
	func() {
		defer func() { recover() }()
		if d.st != nil {
			if l, ok := d.st.(*crlstore.LevelDbStore); ok {
				l.Db.Close()
			}
		}
	}()
	if d.dir != "" {
		os.RemoveAll(d.dir)
	}
}

// populate a store with abstract content (used for Replace)
func (d *storeDrv) populate(st crlstore.CRLStore, content map[string]any) error {
	get := func(f string) string { s, _ := content[f].(string); return s }
	if v := get("meta"); v != "absent" && v != "error" {
		if err := st.StartUpdateCrl(d.sc.metas[v]); err != nil {
			return err
		}
	}
	if v := get("ext"); v != "absent" {
		if err := st.UpdateExtendedMetaInfo(d.sc.exts[v]); err != nil {
			return err
		}
	}
	if v := get("signer"); v != "absent" {
		if err := st.UpdateSignatureCertificate(d.sc.signers[v]); err != nil {
			return err
		}
	}
	if v := get("locs"); v != "absent" {
		if err := st.UpdateCRLLocations(d.sc.locs[v]); err != nil {
			return err
		}
	}
	look, _ := content["look"].(map[string]any)
	for k, vv := range look {
		v, _ := vv.(string)
		if v != "notrevoked" {
			if err := st.InsertRevokedCert(d.sc.entry(k, v)); err != nil {
				return err
			}
		}
	}
	return nil
}

// apply one operation of the specification; returns an error only when the operation itself fails
func (d *storeDrv) apply(op []any) (err error) {
	defer func() {
		if r := recover(); r != nil {
			err = fmt.Errorf("panic: %v", r)
		}
	}()
	name := op[0].(string)
	switch name {
	case "start":
		return d.st.StartUpdateCrl(d.sc.metas[op[1].(string)])
	case "ext":
		return d.st.UpdateExtendedMetaInfo(d.sc.exts[op[1].(string)])
	case "signer":
		return d.st.UpdateSignatureCertificate(d.sc.signers[op[1].(string)])
	case "locs":
		return d.st.UpdateCRLLocations(d.sc.locs[op[1].(string)])
	case "insert":
		return d.st.InsertRevokedCert(d.sc.entry(op[1].(string), op[2].(string)))
	case "replace":
		ns, err := d.factory.CreateStore(d.id, true)
		if err != nil {
			return err
		}
		if err := d.populate(ns, op[1].(map[string]any)); err != nil {
			return err
		}
		return d.st.Update(ns)
	case "reopen":
		if d.backend != "disk" {
			return nil
		}
		d.st.Close()
		ns, err := d.factory.CreateStore(d.id, false)
		if err != nil {
			return err
		}
		d.st = ns
		return nil
	case "closeunder":
		l := d.st.(*crlstore.LevelDbStore)
		return l.Db.Close()
	case "opendamaged":
		// the store is closed, its MANIFEST is overwritten with noise, then it is opened again (which is expected to fail: the handle
		// stays the closed one and every getter reports an error)
		d.st.Close()
		ms, _ := filepath.Glob(filepath.Join(d.dir, d.id, "MANIFEST-*"))
		if len(ms) == 0 {
			return fmt.Errorf("no MANIFEST under %s", filepath.Join(d.dir, d.id))
		}
		for _, m := range ms {
			os.WriteFile(m, bytes.Repeat([]byte{0xde, 0xad, 0xbe, 0xef}, 64), 0o644)
		}
		if ns, err := d.factory.CreateStore(d.id, false); err == nil {
			d.st = ns
		}
		return nil
	case "corrupt":
		return d.corrupt(op[1].(string))
	}
	return fmt.Errorf("unknown op %v", name)
}

// corrupt overwrites the stored record of key k with an undecodable value. The record is found by
// its content (unique revocation time + serial), not by re-deriving the key scheme of the code.
func (d *storeDrv) corrupt(k string) error {
	match := func(val []byte) bool {
		rc := new(pkix.RevokedCertificate)
		if _, err := asn1.Unmarshal(val, rc); err != nil {
			return false
		}
		for _, v := range []string{"v1", "v2"} {
			e := d.sc.entry(k, v).RevokedCertificate
			if rc.SerialNumber != nil && rc.SerialNumber.Cmp(e.SerialNumber) == 0 && rc.RevocationTime.Equal(e.RevocationTime) {
				return true
			}
		}
		return false
	}
	junk := func(val []byte) []byte {
		switch d.sc.variant % 3 {
		case 0:
			return val[:len(val)/2] // truncated record
		case 1:
			return []byte{0xde, 0xad, 0xbe, 0xef}
		default:
			return []byte{}
		}
	}
	switch s := d.st.(type) {
	case *crlstore.LevelDbStore:
		it := s.Db.NewIterator(nil, nil)
		defer it.Release()
		for it.Next() {
			if match(it.Value()) {
				key := append([]byte(nil), it.Key()...)
				return s.Db.Put(key, junk(append([]byte(nil), it.Value()...)), nil)
			}
		}
		return fmt.Errorf("record of %s not found in leveldb", k)
	case *crlstore.MapStore:
		for key, val := range s.Map {
			if match(val) {
				s.Map[key] = junk(val)
				return nil
			}
		}
		return fmt.Errorf("record of %s not found in map", k)
	}
	return fmt.Errorf("unknown store type %T", d.st)
}

type storeObs struct {
	Meta, Ext, Signer, Locs string
	Look                    map[string]string
}

// observe maps every getter's real answer to the abstract value it equals ("v1"/"v2"), "absent" (error
// returned), or "other:<detail>" when it equals nothing that was ever written.
func (d *storeDrv) observe(keys []string) (o storeObs) {
	o.Look = map[string]string{}
	safe := func(f func() string) (s string) {
		defer func() {
			if r := recover(); r != nil {
				s = fmt.Sprintf("panic:%v", r)
			}
		}()
		return f()
	}
	o.Meta = safe(func() string {
		m, err := d.st.GetCRLMetaInfo()
		if err != nil {
			return "absent"
		}
		for _, v := range []string{"v1", "v2"} {
			w := d.sc.metas[v]
			if m.Issuer.String() == w.Issuer.String() && reflect.DeepEqual(rdnValues(m.Issuer), rdnValues(w.Issuer)) && m.ThisUpdate.Equal(w.ThisUpdate) &&
				(m.NextUpdate.Equal(w.NextUpdate) || (m.NextUpdate.IsZero() && w.NextUpdate.IsZero())) {
				return v
			}
		}
		return fmt.Sprintf("other:%v/%v/%v", m.Issuer.String(), m.ThisUpdate, m.NextUpdate)
	})
	o.Ext = safe(func() string {
		m, err := d.st.GetCRLExtMetaInfo()
		if err != nil {
			return "absent"
		}
		for _, v := range []string{"v1", "v2"} {
			w := d.sc.exts[v]
			if (m.CRLNumber == nil && w.CRLNumber == nil) || (m.CRLNumber != nil && w.CRLNumber != nil && m.CRLNumber.Cmp(w.CRLNumber) == 0) {
				return v
			}
		}
		return fmt.Sprintf("other:%v", m.CRLNumber)
	})
	o.Signer = safe(func() string {
		m, err := d.st.GetCRLSignatureCert()
		if err != nil {
			return "absent"
		}
		for _, v := range []string{"v1", "v2"} {
			if bytes.Equal(m.RawCertificate, d.sc.signers[v].RawCertificate) && m.Certificate != nil && bytes.Equal(m.Certificate.Raw, d.sc.signers[v].RawCertificate) {
				return v
			}
		}
		return "other"
	})
	o.Locs = safe(func() string {
		m, err := d.st.GetCRLLocations()
		if err != nil {
			return "absent"
		}
		for _, v := range []string{"v1", "v2"} {
			w := d.sc.locs[v]
			if m.CRLUrl == w.CRLUrl && m.CRLFile == w.CRLFile && len(m.CRLDistributionPoints) == len(w.CRLDistributionPoints) {
				same := true
				for i := range m.CRLDistributionPoints {
					same = same && m.CRLDistributionPoints[i] == w.CRLDistributionPoints[i]
				}
				if same {
					return v
				}
			}
		}
		return fmt.Sprintf("other:%+v", *m)
	})
	for _, k := range keys {
		k := k
		o.Look[k] = safe(func() string {
			iss := d.sc.issuers[d.sc.keyIss[k]]
			st, err := d.st.GetCertRevocationStatus(&iss, d.sc.keySer[k])
			if err != nil {
				return "error"
			}
			if st == nil {
				return "other:nil status"
			}
			if !st.Revoked {
				return "notrevoked"
			}
			if st.CRLRevokedCertEntry == nil {
				return "other:revoked without entry"
			}
			for _, v := range []string{"v1", "v2"} {
				w := d.sc.entry(k, v).RevokedCertificate
				g := st.CRLRevokedCertEntry
				if g.SerialNumber != nil && g.SerialNumber.Cmp(w.SerialNumber) == 0 && g.RevocationTime.Equal(w.RevocationTime) && extEqual(g.Extensions, w.Extensions) {
					return v
				}
			}
			return fmt.Sprintf("other:%v@%v", st.CRLRevokedCertEntry.SerialNumber, st.CRLRevokedCertEntry.RevocationTime)
		})
	}
	return o
}

func rdnValues(r pkix.RDNSequence) []string {
	var out []string
	for _, set := range r {
		for _, atv := range set {
			out = append(out, fmt.Sprintf("%v=%v", atv.Type, atv.Value))
		}
	}
	return out
}

func extEqual(a, b []pkix.Extension) bool {
	if len(a) != len(b) {
		return false
	}
	for i := range a {
		if !a[i].Id.Equal(b[i].Id) || a[i].Critical != b[i].Critical || !bytes.Equal(a[i].Value, b[i].Value) {
			return false
		}
	}
	return true
}

type storeExpect struct {
	Meta   string            `json:"meta"`
	Ext    string            `json:"ext"`
	Signer string            `json:"signer"`
	Locs   string            `json:"locs"`
	Look   map[string]string `json:"look"`
}

// getter "absent"/"error" both mean: the getter reports an error
func getterMatches(real, exp string) bool {
	if exp == "absent" || exp == "error" {
		return real == "absent"
	}
	return real == exp
}

// exportStoreGraph runs TLC on CrlStore.tla and returns the labelled transition graph.
func exportStoreGraph(c *vk.Ctx, keys []string, disk, faulty bool, workers int) (*graph.Graph, tlcrun.Result) {
	ks := ""
	for i, k := range keys {
		if i > 0 {
			ks += ", "
		}
		ks += fmt.Sprintf("%q", k)
	}
	cfg := fmt.Sprintf("SPECIFICATION Spec\nCONSTANTS\n Keys = {%s}\n Vals = {\"v1\", \"v2\"}\n Disk = %s\n Faulty = %s\n Export = TRUE\nINVARIANTS TypeOK LookupExact FailClosed\nPROPERTIES ReplaceWhole Frame\nCHECK_DEADLOCK FALSE\n",
		ks, tlaBool(disk), tlaBool(faulty))
	g := graph.New()
	var perr error
	res := tlcrun.Run(tlcrun.Options{SpecDir: vk.SpecDir(), Module: "CrlStore", Config: cfg, Workers: workers,
		OnTagged: func(tag string, p json.RawMessage) {
			if tag == "EDGE" {
				if err := g.AddPayload(p); err != nil {
					perr = err
				}
			}
		}})
	if res.InfraErr != nil {
		c.Infra("tlc CrlStore: %v", res.InfraErr)
	}
	if !res.OK {
		c.Infra("CrlStore.tla does not satisfy its properties (specification problem, not a verdict about the code):\n%s", res.Violation)
	}
	if perr != nil {
		c.Infra("edge payload: %v", perr)
	}
	fresh := map[string]any{"meta": "absent", "ext": "absent", "signer": "absent", "locs": "absent", "open": true, "bad": []any{}}
	ents := map[string]any{}
	for _, k := range keys {
		ents[k] = "absent"
	}
	fresh["ents"] = ents
	fb, _ := json.Marshal(fresh)
	g.Finish(graph.Canon(fb))
	if len(g.Out[g.Init]) == 0 {
		c.Infra("initial state not found in exported graph")
	}
	return g, res
}

func tlaBool(b bool) string {
	if b {
		return "TRUE"
	}
	return "FALSE"
}

type storeStep struct {
	Op     json.RawMessage `json:"op"`
	Expect json.RawMessage `json:"expect"`
}

// runStoreWalk replays one walk on the given backends, comparing every getter after every op.
// prop is "C18" (full equality + backend agreement) or "C09" (only: fault => error, never notrevoked).
func runStoreWalk(c *vk.Ctx, prop string, backends []string, keys []string, walk []*graph.Edge, variant int) {
	sc := newStoreConc(variant)
	drvs := make([]*storeDrv, 0, 2)
	for _, b := range backends {
		d, err := newStoreDrv(b, sc)
		if err != nil {
			c.Infra("create %s store: %v", b, err)
		}
		drvs = append(drvs, d)
	}
	defer func() {
		for _, d := range drvs {
			d.close()
		}
	}()
	var hist []storeStep
	for i, e := range walk {
		var op []any
		json.Unmarshal(e.Op, &op)
		var exp storeExpect
		json.Unmarshal(e.Expect, &exp)
		hist = append(hist, storeStep{e.Op, e.Expect})
		opName := op[0].(string)
		obs := make([]storeObs, len(drvs))
		for di, d := range drvs {
			if err := d.apply(op); err != nil {
				if opName == "corrupt" || opName == "closeunder" {
					c.Infra("fault injection %v failed on %s: %v", op, d.backend, err)
				}
				if prop == "C18" {
					c.Violation(fmt.Sprintf("store:%s:op-%s-fails", d.backend, opName), fmt.Sprintf("operation %v returned %v after %d steps (variant %d: %s)", op, err, i, variant, sc.describe),
						map[string]any{"backend": d.backend, "variant": variant, "steps": hist})
					return
				}
				c.Drift("op-error")
				return
			}
			obs[di] = d.observe(keys)
		}
		c.Eval(fmt.Sprintf("%s|%s", e.From, e.Op))
		for di, d := range drvs {
			o := obs[di]
			rep := map[string]any{"backend": d.backend, "variant": variant, "variant_desc": sc.describe, "steps": hist, "observed": o}
			if prop == "C18" {
				for _, f := range [][3]string{{"meta", o.Meta, exp.Meta}, {"ext", o.Ext, exp.Ext}, {"signer", o.Signer, exp.Signer}, {"locs", o.Locs, exp.Locs}} {
					if !getterMatches(f[1], f[2]) {
						c.Violation(fmt.Sprintf("store:%s:%s-after-%s", d.backend, f[0], opName),
							fmt.Sprintf("%s reads back %q, specification says %q after %v (step %d)", f[0], f[1], f[2], op, i), rep)
					}
				}
				for _, k := range keys {
					if o.Look[k] != exp.Look[k] {
						c.Violation(fmt.Sprintf("store:%s:lookup-after-%s", d.backend, opName),
							fmt.Sprintf("lookup(%s) answers %q, specification says %q after %v (step %d)", k, o.Look[k], exp.Look[k], op, i), rep)
					}
				}
			} else { // C09: directional
				for _, k := range keys {
					if exp.Look[k] == "error" && o.Look[k] != "error" {
						fault := "corrupt-record"
						var st map[string]any
						json.Unmarshal([]byte(e.To), &st)
						if open, _ := st["open"].(bool); !open {
							fault = "closed"
						}
						if opName == "opendamaged" {
							// a store that repairs itself and answers with what was stored has determined the status: only an answer that
							// differs from the stored one (above all "not revoked" for a stored entry) is the fault turned into an answer
							ents, _ := st["ents"].(map[string]any)
							stored, _ := ents[k].(string)
							if o.Look[k] == stored || (stored == "absent" && o.Look[k] == "notrevoked") {
								continue
							}
							fault = "damaged-at-open"
						}
						c.Violation(fmt.Sprintf("store:%s:%s", d.backend, fault),
							fmt.Sprintf("lookup(%s) with store fault %q answered %q instead of an error", k, fault, o.Look[k]), rep)
					}
				}
			}
		}
		if prop == "C18" && len(drvs) == 2 && !reflect.DeepEqual(obs[0], obs[1]) {
			c.Violation("store:backends-disagree-after-"+opName, fmt.Sprintf("memory and disk observations differ after %v: %+v vs %+v", op, obs[0], obs[1]),
				map[string]any{"variant": variant, "steps": hist})
		}
		if c.Violations() > 8 {
			return
		}
	}
}

// C18 — both backends implement the abstract map of CrlStore.tla.
func C18(c *vk.Ctx) {
	keys := []string{"k1", "k2"}
	g, res := exportStoreGraph(c, keys, true, false, 8)
	c.Set("states", res.Distinct)
	c.Set("transitions", int64(len(g.Edges)))
	c.Set("tlc_generated", res.Generated)
	c.Set("exhaustive", true)
	c.Set("spec", "CrlStore.tla (Keys=2, Vals=2, Disk, Prepared=4): invariants TypeOK LookupExact FailClosed, properties ReplaceWhole Frame; CrlStores.tla (2 stores of one base path, 2 temporary stores alive): Isolation, StagedStable")
	rng := rand.New(rand.NewSource(c.Seed))
	both := []string{"memory", "disk"}
	walks := 0
	// 1. covering tour: every edge of the graph at least once, on both backends
	for i, w := range g.Tour(400, rng) {
		runStoreWalk(c, "C18", both, keys, w, int(c.Seed)+i)
		walks++
		if i == 0 {
			c.Sample(map[string]any{"kind": "tour-walk", "first_ops": opsOf(w, 8), "len": len(w)})
		}
	}
	// 2. all operation sequences up to length L from the fresh store
	L := c.Pick(2, 3)
	g.AllPaths(L, func(p []*graph.Edge) {
		if c.Violations() > 8 {
			return
		}
		if len(p) == L {
			cp := append([]*graph.Edge(nil), p...)
			runStoreWalk(c, "C18", both, keys, cp, int(c.Seed)+len(cp)+walks)
			walks++
		}
	})
	// 3. seeded random walks with rotating value shapes
	n := c.Pick(40, 1500)
	for i := 0; i < n && c.Violations() <= 8; i++ {
		w := g.RandomWalk(40, rng)
		runStoreWalk(c, "C18", both, keys, w, int(c.Seed)+i)
		walks++
		if i == 0 {
			c.Sample(map[string]any{"kind": "random-walk", "first_ops": opsOf(w, 8), "len": len(w)})
		}
	}
	// 4. several stores of one base path with temporary stores that live across other stores' replacements (CrlStores.tla)
	walks += c18Stores(c, rng)
	c.Set("traces_validated_against_impl", int64(walks))
	c.Set("rule", "a case is one (state, operation) edge of the exported CrlStore graph executed on both real backends with all getters compared to the edge's expect; distinct = distinct edges; walks: covering tour + all sequences of length L + seeded random walks with 5 value-shape variants")
	c.Assume("value shapes inside a variant (wide/negative/prefix serials, non-ASCII names, zero NextUpdate, nil/0/2^150 CRL number, entry extensions) are sampled by seed, not enumerated")
	c.Assume("IsEmpty is not part of the observations: the backends deliberately differ on it (metadata-only map store)")
}

func opsOf(w []*graph.Edge, n int) []json.RawMessage {
	var out []json.RawMessage
	for i, e := range w {
		if i >= n {
			break
		}
		out = append(out, e.Op)
	}
	return out
}

var _ = leveldb.ErrNotFound
