package checks

import (
	"bytes"
	"crypto/x509"
	"crypto/x509/pkix"
	"encoding/asn1"
	"encoding/json"
	"fmt"
	"math/big"
	"math/rand"
	"os"
	"runtime"
	"runtime/debug"
	"sort"
	"strings"
	"time"

	"github.com/gr33nbl00d/caddy-revocation-validator/core"

	"verif/harness/derbuild"
	"verif/harness/origin"
	"verif/harness/pki"
	"verif/harness/vk"
	"verif/harness/world"
)

// elementOffset: where the element consumed at control state s starts in the built document (-1: not present).
func elementOffset(b *derbuild.Built, d rdDoc, s string) int {
	get := func(k string) int {
		if v, ok := b.Off[k]; ok {
			return v
		}
		return -1
	}
	switch s {
	case "Outer":
		return 0
	case "Tbs":
		return b.TBSOff
	case "PeekVer":
		if v := get("version"); v >= 0 {
			return v
		}
		return get("innerAlg")
	case "InnerAlg":
		return get("innerAlg")
	case "Issuer":
		return get("issuer")
	case "This":
		return get("thisUpdate")
	case "PeekNext":
		if v := get("nextUpdate"); v >= 0 {
			return v
		}
		return elementOffset(b, d, "PeekList")
	case "PeekList":
		if v := get("list"); v >= 0 {
			return v
		}
		return elementOffset(b, d, "PeekExt")
	case "PeekEntry":
		if len(b.Entries) > 0 {
			return b.Entries[len(b.Entries)-1]
		}
		return elementOffset(b, d, "PeekExt")
	case "PeekExt":
		if b.ExtsOff > 0 {
			return b.ExtsOff
		}
		return b.AlgOff
	case "OuterAlg":
		return b.AlgOff
	case "Sig":
		return b.SigOff
	}
	return -1
}

// derHeader returns (headerLen, contentLen) of the TLV at off.
func derHeader(der []byte, off int) (int, int) {
	if off+1 >= len(der) {
		return 0, 0
	}
	l := int(der[off+1])
	if l < 0x80 {
		return 2, l
	}
	n := l & 0x7f
	v := 0
	for i := 0; i < n && off+2+i < len(der); i++ {
		v = v<<8 | int(der[off+2+i])
	}
	return 2 + n, v
}

// applyFault mutates der at the element starting at off according to the fault class.
func applyFault(der []byte, off int, fault string, rng *rand.Rand) []byte {
	hdr, clen := derHeader(der, off)
	replaceLen := func(newLen []byte) []byte {
		out := append([]byte{}, der[:off+1]...)
		out = append(out, newLen...)
		return append(out, der[off+hdr:]...)
	}
	switch fault {
	case "eof":
		cut := off + rng.Intn(hdr+1)
		if cut > len(der) {
			cut = len(der)
		}
		return append([]byte{}, der[:cut]...)
	case "wrongTag":
		out := append([]byte{}, der...)
		out[off] = []byte{0x04, 0x02, 0x31, 0x17, 0xa3, 0x0c, 0x05, 0x1f}[rng.Intn(8)]
		if out[off] == der[off] {
			out[off] ^= 0x08
		}
		return out
	case "lenBeyondData":
		return replaceLen([]byte{0x84, 0x3f, 0xff, 0xff, 0xf0}) // ~1 GiB claimed
	case "lenBeyondInt":
		return replaceLen([]byte{0x88, 0x7f, 0xff, 0xff, 0xff, 0xff, 0xff, 0xff, 0xf0}) // >= 2^62
	case "lenIndefinite":
		return replaceLen([]byte{0x80})
	case "lenOversize":
		return replaceLen(append([]byte{0x8f}, bytes.Repeat([]byte{0xff}, 15)...))
	case "lenOverCap":
		return replaceLen([]byte{0x83, 0x01, 0x86, 0xa0}) // 100 000 > the 80 KiB structure cap, not backed by data
	case "contentUndecodable":
		out := append([]byte{}, der...)
		for i := 0; i < clen && off+hdr+i < len(out); i++ {
			out[off+hdr+i] = byte(rng.Intn(256))
		}
		return out
	}
	return der
}

// fixEnclosing re-encodes the headers of the outer SEQUENCE and of tbsCertList after a mutation inside tbsCertList
// changed the size of the document.
func fixEnclosing(b *derbuild.Built, mut []byte, off int) []byte {
	delta := len(mut) - len(b.DER)
	if delta == 0 || delta < -8 || delta > 20 || off <= b.TBSOff || off >= b.AlgOff || len(mut) < b.AlgOff+delta {
		return mut
	}
	tbsHdr, tbsLen := derHeader(b.DER, b.TBSOff)
	if tbsLen+delta < 0 || b.TBSOff+tbsHdr+tbsLen+delta > len(mut) {
		return mut
	}
	newTbsContent := mut[b.TBSOff+tbsHdr : b.TBSOff+tbsHdr+tbsLen+delta]
	rest := mut[b.TBSOff+tbsHdr+tbsLen+delta:]
	newTbs := derbuild.TLV(0x30, newTbsContent)
	return derbuild.TLV(0x30, append(append([]byte{}, newTbs...), rest...))
}

type hostileOutcome struct {
	Panic   string
	Err     string
	Alloc   uint64
	Timeout bool
}

// feedReader gives bytes to the real reader under a watchdog and measures what it allocated.
func feedReader(path string) hostileOutcome {
	var out hostileOutcome
	done := make(chan struct{})
	go func() {
		defer close(done)
		var m0, m1 runtime.MemStats
		runtime.ReadMemStats(&m0)
		r := readWithRealReader(path)
		runtime.ReadMemStats(&m1)
		out.Panic, out.Err = r.Panic, r.Err
		out.Alloc = m1.TotalAlloc - m0.TotalAlloc
	}()
	select {
	case <-done:
	case <-time.After(20 * time.Second):
		out.Timeout = true
	}
	return out
}

func allocBudget(inputLen int) uint64 { return 8<<20 + 32*uint64(inputLen) }

func judgeHostile(c *vk.Ctx, sigPrefix, what string, input []byte, o hostileOutcome, rep map[string]any) {
	rep["input_len"] = len(input)
	if len(input) <= 4096 {
		rep["input_hex"] = fmt.Sprintf("%x", input)
	}
	if o.Timeout {
		c.Violation(sigPrefix+":no-termination", what+": reading did not terminate within 20 s", rep)
		c.Finish()
		os.Exit(vk.ExitViol) // the stuck goroutine cannot be stopped
	}
	if o.Panic != "" {
		c.Violation(sigPrefix+":panic", what+": reading panicked: "+o.Panic, rep)
	}
	if o.Alloc > allocBudget(len(input)) {
		c.Violation(sigPrefix+":huge-allocation", fmt.Sprintf("%s: %d bytes of input made the reader allocate %d bytes (budget %d)", what, len(input), o.Alloc, allocBudget(len(input))), rep)
	}
}

// C07 — parser totality on hostile bytes.
func C07(c *vk.Ctx) {
	cases, res := exportReaderDocs(c, 1, true)
	c.Set("states", res.Distinct)
	c.Set("transitions", res.Generated)
	rng := rand.New(rand.NewSource(c.Seed))
	dir, _ := os.MkdirTemp("", "verif.hostile.")
	defer os.RemoveAll(dir)
	n := 0
	// 1. every (control state, fault) pair of the model, on documents chosen so that the state is reached
	type pair struct{ s, f string }
	seen := map[pair]int{}
	var hostile [][]byte // the faulty documents of part 1, fed a second time through the whole intake path (part 5)
	perPair := c.Pick(2, 12)
	rng.Shuffle(len(cases), func(i, j int) { cases[i], cases[j] = cases[j], cases[i] })
	for _, rc := range cases {
		p := pair{rc.FaultAt, rc.Fault}
		if seen[p] >= perPair || c.Violations() > 12 {
			continue
		}
		sh := readerShapes(c, rng, n)
		sh.Rep = 1 + rng.Intn(3)
		b, err := buildAligned(rc.Doc, sh)
		if err != nil {
			continue
		}
		off := elementOffset(b, rc.Doc, rc.FaultAt)
		if off < 0 {
			continue
		}
		seen[p]++
		mut := applyFault(b.DER, off, rc.Fault, rng)
		if n%2 == 0 {
			// keep the enclosing lengths consistent so that the fault is met by the streaming pass itself and
			// not already by the pre-pass that locates the signature algorithm
			mut = fixEnclosing(b, mut, off)
		}
		body := encode(mut, sh.Enc)
		path := writeCRL(dir, body)
		o := feedReader(path)
		n++
		if len(hostile) < c.Pick(160, 3000) {
			hostile = append(hostile, body)
		}
		c.Eval(fmt.Sprintf("fault|%s|%s|%s|%s", rc.FaultAt, rc.Fault, sh.Enc, docClass(rc.Doc)))
		judgeHostile(c, fmt.Sprintf("reader:%s@%s", rc.Fault, rc.FaultAt), fmt.Sprintf("fault %s at control state %s (%s, %s)", rc.Fault, rc.FaultAt, docClass(rc.Doc), sh.Enc), body, o,
			map[string]any{"doc": rc.Doc, "fault": rc.Fault, "fault_at": rc.FaultAt, "shape": sh, "offset": off})
		if n == 1 {
			c.Sample(map[string]any{"doc": rc.Doc, "fault": rc.Fault, "fault_at": rc.FaultAt, "enc": sh.Enc, "result_err": o.Err})
		}
	}
	c.Set("state_fault_pairs_covered", int64(len(seen)))
	// 2. every truncation of valid CRLs
	n += c07Truncations(c, rng, dir)
	// 2b. structure-aware mutations of every TLV at every nesting depth (also inside extension values)
	n += c07Deep(c, rng, dir)
	// 3. random bytes and random edits, PEM framing faults
	n += c07Random(c, rng, dir)
	// 4. attacker-influenced structures reaching the chain matcher (AKI values, directory names)
	n += c07SubParsers(c, rng)
	// 5. the same documents arriving where they arrive in production: at a refresh, while another CRL is in force
	n += c07Intake(c, cases, hostile, rng)
	c.Set("traces_validated_against_impl", int64(n))
	c.Set("spec", "CrlReader.tla with Faulty = TRUE: from every control state every fault class (eof, wrongTag, lenBeyondData, lenBeyondInt, lenIndefinite, lenOversize, lenOverCap, contentUndecodable) leads to Rejected with a bounded allocation; invariants NoPanic, Total, AllocBounded, QuietAfterReject")
	c.Set("rule", "a case is a byte string fed to the real reader under a 20 s watchdog with recover() and a TotalAlloc delta: (1) each (control state, fault) pair of the model applied at the structural position of that state in a valid document (DER and PEM), (2) every truncation of valid CRLs, (3) seeded random bytes / random edits / PEM armour faults, (4) mutated AKI values and directory names through FindCertificateIssuerCandidates, (5) refreshes of a configured location through the real loader, reader, persisting processor and store of both backends: every (class of the CRL in force) x (class of the document that arrives) over version x crlExtensions kind, and the faulty documents of (1) arriving over a CRL in force of rotating class; violation iff panic, no termination, or allocation above 8 MiB + 32 x input length")
	c.Assume("memory safety is the Go runtime's; what is decided is panic-freedom, termination and allocation volume")
}

// c07Intake: the reader is not alone with the bytes. In production a document arrives at a refresh: the loader downloads it, the
// reader streams it into the persisting processor and a staging store, and what it replaces is a CRL of some other shape (with or
// without a cRLNumber, v1 or v2, with or without extensions). Whatever arrives over whatever is in force, the pass returns.
func c07Intake(c *vk.Ctx, cases []rdCase, hostile [][]byte, rng *rand.Rand) int {
	type class struct{ ver, exts string }
	byClass := map[class][]rdDoc{}
	seenDoc := map[string]bool{}
	for _, rc := range cases {
		k, _ := json.Marshal(rc.Doc)
		if seenDoc[string(k)] {
			continue
		}
		seenDoc[string(k)] = true
		cl := class{rc.Doc.Ver, rc.Doc.Exts}
		byClass[cl] = append(byClass[cl], rc.Doc)
	}
	var classes []class
	for cl := range byClass {
		classes = append(classes, cl)
	}
	sort.Slice(classes, func(i, j int) bool { return classes[i].ver+"|"+classes[i].exts < classes[j].ver+"|"+classes[j].exts })
	render := func(cl class, i int) []byte {
		ds := byClass[cl]
		d := ds[rng.Intn(len(ds))]
		sh := readerShapes(c, rng, i)
		sh.Rep = 1 + rng.Intn(3)
		sh.Huge = ""
		b, err := buildAligned(d, sh)
		if err != nil {
			return nil
		}
		return encode(b.DER, sh.Enc)
	}
	n := 0
	for _, disk := range []bool{false, true} {
		org := origin.New()
		path := "/hostile/list.crl"
		var first []byte
		for _, cl := range classes {
			if cl.ver != "v3" && cl.exts == "number" {
				first = render(cl, 0)
			}
		}
		if first == nil {
			org.Close()
			c.Infra("C07 intake: no numbered document class in the export")
		}
		org.SetBody(path, first)
		w, err := world.New(world.Cfg{Mode: "crl_only", Storage: backendName(disk), Sig: "none", Fetch: "fetch_actively", Interval: "1h", CRLUrls: []string{org.URL + path}})
		if err != nil {
			c.Infra("world: %v", err)
		}
		if err := w.Provision(); err != nil {
			c.Infra("C07 intake: provision with a valid configured CRL: %v", err)
		}
		refresh := func(body []byte, sig, what string, rep map[string]any) bool {
			org.SetBody(path, body)
			done := make(chan string, 1)
			go func() {
				defer func() {
					if p := recover(); p != nil {
						done <- fmt.Sprintf("%v\n%s", p, debug.Stack())
						return
					}
					done <- ""
				}()
				w.RefreshAll()
			}()
			n++
			rep["backend"] = backendName(disk)
			rep["input_len"] = len(body)
			if len(body) <= 4096 {
				rep["input_hex"] = fmt.Sprintf("%x", body)
			}
			select {
			case p := <-done:
				if p != "" {
					c.Violation("intake:"+sig+":panic", what+": the refresh pass panicked (in production the pass runs on its own goroutine: the process dies): "+p, rep)
					return false
				}
			case <-time.After(60 * time.Second):
				c.Violation("intake:"+sig+":no-termination", what+": the refresh pass did not return within 60 s", rep)
				c.Finish()
				os.Exit(vk.ExitViol)
			}
			return true
		}
		ok := true
		// (in force, arriving) over the classes; only a document the reader accepts can be in force
		for _, a := range classes {
			if a.ver == "v3" || a.exts == "crit" {
				continue
			}
			for _, b := range classes {
				if !ok || c.Violations() > 12 {
					break
				}
				ba, bb := render(a, n), render(b, n+1)
				if ba == nil || bb == nil {
					continue
				}
				rep := map[string]any{"in_force": a, "arriving": b}
				c.Eval(fmt.Sprintf("intake|%s|%v|%v", backendName(disk), a, b))
				ok = refresh(ba, fmt.Sprintf("inforce=%s/%s", a.ver, a.exts), fmt.Sprintf("a valid CRL of class %v arrives at a refresh", a), rep) &&
					refresh(bb, fmt.Sprintf("inforce=%s/%s:arriving=%s/%s", a.ver, a.exts, b.ver, b.exts), fmt.Sprintf("a CRL of class %v arrives at a refresh while one of class %v is in force", b, a), rep)
			}
		}
		// the faulty documents of part 1 over a CRL in force whose class rotates
		var accepted []class
		for _, a := range classes {
			if a.ver != "v3" && a.exts != "crit" {
				accepted = append(accepted, a)
			}
		}
		for i, body := range hostile {
			if !ok || c.Violations() > 12 {
				break
			}
			a := accepted[(i/8)%len(accepted)]
			if i%8 == 0 {
				if ba := render(a, n); ba != nil {
					ok = refresh(ba, fmt.Sprintf("inforce=%s/%s", a.ver, a.exts), fmt.Sprintf("a valid CRL of class %v arrives at a refresh", a), map[string]any{"in_force": a})
				}
			}
			if ok {
				c.Eval(fmt.Sprintf("intake-fault|%s|%d", backendName(disk), i))
				ok = refresh(body, fmt.Sprintf("inforce=%s/%s:arriving=faulty", a.ver, a.exts), fmt.Sprintf("a faulty document arrives at a refresh while a CRL of class %v is in force", a), map[string]any{"in_force": a, "hostile_index": i})
			}
		}
		func() {
			defer func() { recover() }()
			w.Destroy()
		}()
		// ... and what a hostile document leaves behind for the NEXT operation: under "verify" a list named by a certificate's
		// distribution point is in force; a refresh brings a well-formed list that cannot be verified (the CA rolled its key over),
		// the next refresh brings hostile bytes, then the certificate is presented again. Nothing of that may take the handshake down.
		ca := pki.NewCA(pki.CAOpts{Name: "Hostile Intake CA", Serial: 770})
		rolled := pki.NewCA(pki.CAOpts{Name: "Hostile Intake CA", Serial: 771})
		path2 := "/hostile/cdp.crl"
		leaf := ca.Leaf(pki.LeafOpts{CN: "bystander", Serial: big.NewInt(772), CDP: []string{org.URL + path2}})
		chain := pki.Chain(leaf.Cert, ca)
		w2, err := world.New(world.Cfg{Mode: "crl_only", Storage: backendName(disk), Sig: "verify", Fetch: "fetch_actively", Interval: "1h"})
		if err != nil {
			c.Infra("world: %v", err)
		}
		if err := w2.Provision(); err != nil {
			c.Infra("C07 intake: provision: %v", err)
		}
		pass := func() string {
			done := make(chan string, 1)
			go func() {
				defer func() {
					if p := recover(); p != nil {
						done <- fmt.Sprintf("%v\n%s", p, debug.Stack())
						return
					}
					done <- ""
				}()
				w2.RefreshAll()
			}()
			select {
			case p := <-done:
				return p
			case <-time.After(60 * time.Second):
				return "no termination within 60 s"
			}
		}
		for i, body := range hostile {
			if i >= c.Pick(40, 400) || c.Violations() > 12 {
				break
			}
			org.SetBody(path2, ca.SimpleCRL(int64(10+3*i), 990010))
			first := w2.HandshakeTimeout(chain, 60*time.Second)
			p0 := pass()
			org.SetBody(path2, rolled.SimpleCRL(int64(11+3*i), 990011))
			p1 := pass()
			org.SetBody(path2, body)
			p2 := pass()
			after := w2.HandshakeTimeout(chain, 60*time.Second)
			n++
			c.Eval(fmt.Sprintf("intake-aftermath|%s|%d", backendName(disk), i))
			rep := map[string]any{"backend": backendName(disk), "hostile_index": i, "input_len": len(body), "handshake_before": first, "handshake_after": after}
			if len(body) <= 4096 {
				rep["input_hex"] = fmt.Sprintf("%x", body)
			}
			for _, p := range []string{p0, p1, p2} {
				if p != "" {
					c.Violation("intake:aftermath:pass-panic", "a refresh pass of the sequence good list / unverifiable list / hostile bytes panicked or did not end: "+p, rep)
				}
			}
			if after.Verdict == "panic" || after.Verdict == "hang" {
				c.Violation("intake:aftermath:handshake-"+after.Verdict, "after a refresh to a well-formed but unverifiable list and a refresh to hostile bytes, the next handshake that names the location ended with "+after.Verdict+": "+after.Panic, rep)
			}
		}
		func() {
			defer func() { recover() }()
			w2.Destroy()
		}()
		org.Close()
	}
	return n
}

func validSamples(rng *rand.Rand) [][]byte {
	ca := pki.NewCA(pki.CAOpts{Name: "Hostile CA", Serial: 50})
	caR := pki.NewCA(pki.CAOpts{Name: "Hostile CA RSA", Alg: "rsa", RSAIndex: 0, Serial: 51})
	a := ca.SimpleCRL(3, 10, 11, 12)
	b := BuildCRL(CRLSpec{Signer: caR, Listed: nil, Number: 9}, Shape{Size: "s5", Pos: "first", Width: "w20", Ext: "multi", Enc: "der"})
	d := rdDoc{Ver: "absent", Next: false}
	d.List.Present = true
	d.List.Es = []rdEntry{{Ext: false, Gen: true}}
	v1, _ := buildAligned(d, rdShape{Alg: "ecdsaWithSHA256", Enc: "der", Rep: 2, Width: "w9"})
	return [][]byte{a, b, v1.DER}
}

func c07Truncations(c *vk.Ctx, rng *rand.Rand, dir string) int {
	n := 0
	for si, s := range validSamples(rng) {
		bodies := [][]byte{s}
		if si == 0 || c.Thorough() {
			bodies = append(bodies, derbuild.PEM(s, false), derbuild.PEM(s, true))
		}
		for bi, body := range bodies {
			step := 1
			if !c.Thorough() && bi > 0 {
				step = 3
			}
			for cut := 0; cut < len(body); cut += step {
				if c.Violations() > 12 {
					return n
				}
				in := body[:cut]
				o := feedReader(writeCRL(dir, in))
				n++
				c.Eval(fmt.Sprintf("trunc|%d|%d|%d", si, bi, cut))
				judgeHostile(c, fmt.Sprintf("reader:truncation:enc=%d", bi), fmt.Sprintf("valid CRL truncated after %d of %d bytes", cut, len(body)), in, o, map[string]any{"sample": si, "cut": cut})
			}
		}
	}
	return n
}

func c07Deep(c *vk.Ctx, rng *rand.Rand, dir string) int {
	n := 0
	for si, s := range validSamples(rng) {
		muts := deepMutations(s)
		for mi, m := range muts {
			if c.Violations() > 12 {
				return n
			}
			if !c.Thorough() && si > 0 && mi%3 != int(c.Seed)%3 {
				continue
			}
			body := m
			if mi%5 == 4 {
				body = derbuild.PEM(m, mi%2 == 0)
			}
			o := feedReader(writeCRL(dir, body))
			n++
			c.Eval(fmt.Sprintf("deep|%d|%d", si, mi))
			judgeHostile(c, fmt.Sprintf("reader:deep-mutation:kind=%d", mi%6), "structure-aware mutation of one TLV inside a valid CRL (enclosing lengths kept consistent)", body, o, map[string]any{"sample": si, "mutation": mi})
		}
	}
	return n
}

func c07Random(c *vk.Ctx, rng *rand.Rand, dir string) int {
	n := 0
	samples := validSamples(rng)
	total := c.Pick(1500, 100000)
	for i := 0; i < total && c.Violations() <= 12; i++ {
		var in []byte
		kind := i % 6
		switch kind {
		case 0: // pure random
			in = make([]byte, rng.Intn(600))
			rng.Read(in)
		case 1: // random with a plausible header
			in = make([]byte, 4+rng.Intn(300))
			rng.Read(in)
			in[0] = 0x30
			in[1] = 0x80 | byte(rng.Intn(16))
		case 2, 3: // random in-place edits of a valid CRL
			in = append([]byte{}, samples[rng.Intn(len(samples))]...)
			for k := 0; k < 1+rng.Intn(4); k++ {
				in[rng.Intn(len(in))] = byte(rng.Intn(256))
			}
		case 4: // length-field edits: pick a byte that follows a constructed tag
			in = append([]byte{}, samples[rng.Intn(len(samples))]...)
			for tries := 0; tries < 50; tries++ {
				p := rng.Intn(len(in) - 1)
				if in[p] == 0x30 || in[p] == 0x31 || in[p] == 0xa0 || in[p] == 0x03 || in[p] == 0x17 || in[p] == 0x02 {
					in[p+1] = []byte{0x80, 0x81, 0x84, 0x88, 0x8f, 0xff, 0x7f, 0x00}[rng.Intn(8)]
					break
				}
			}
		case 5: // PEM framing faults
			p := derbuild.PEM(samples[rng.Intn(len(samples))], rng.Intn(2) == 0)
			switch rng.Intn(6) {
			case 0:
				p = bytes.Replace(p, []byte("-----END X509 CRL-----"), nil, 1)
			case 1:
				p = bytes.ReplaceAll(p, []byte("\n"), nil) // one long line, no newline
			case 2:
				p = bytes.TrimRight(p, "\r\n") // missing final newline
			case 3:
				p = append([]byte("-----BEGIN X509 CRL-----\n"), bytes.Repeat([]byte("A"), 5000)...) // very long line
			case 4:
				p = []byte("-----BEGIN X509 CRL-----\n")
			case 5:
				p[30+rng.Intn(len(p)-40)] = '!'
			}
			in = p
		}
		o := feedReader(writeCRL(dir, in))
		n++
		c.Eval(fmt.Sprintf("rand|%d|%d", kind, i))
		judgeHostile(c, fmt.Sprintf("reader:random:kind=%d", kind), "seeded random / mutated input", in, o, map[string]any{"kind": kind, "i": i})
	}
	// PEM framing, line by line: every line of an armoured sample (LF and CRLF) x every line-level edit. What a line may look like
	// is attacker-chosen just as the bytes inside it.
	for si, smp := range samples {
		if si > 1 && !c.Thorough() {
			break
		}
		for _, crlf := range []bool{false, true} {
			p := derbuild.PEM(smp, crlf)
			nl := "\n"
			if crlf {
				nl = "\r\n"
			}
			lines := strings.Split(strings.TrimSuffix(string(p), nl), nl)
			edits := []func(l string) []string{
				func(l string) []string { return []string{l, ""} },                      // an empty line after it
				func(l string) []string { return []string{"", l} },                      // ... before it
				func(l string) []string { return []string{l, " "} },                     // a line of one blank
				func(l string) []string { return []string{l + " "} },                    // trailing blank
				func(l string) []string { return []string{l[:len(l)/2], l[len(l)/2:]} }, // split in two
				func(l string) []string { return []string{l + l} },                      // doubled (longer than 64)
				func(l string) []string { return []string{l, "\r"} },                    // a bare carriage return
				func(l string) []string { return nil },                                  // dropped
			}
			step := 1
			if !c.Thorough() && len(lines) > 12 {
				step = len(lines) / 12
			}
			for li := 0; li < len(lines); li += step {
				for ei, ed := range edits {
					var out []string
					out = append(out, lines[:li]...)
					out = append(out, ed(lines[li])...)
					out = append(out, lines[li+1:]...)
					// the edited file once with the sample's line end and once with LF only (mixed line ends)
					for _, sep := range []string{nl, "\n"} {
						in := []byte(strings.Join(out, sep) + sep)
						o := feedReader(writeCRL(dir, in))
						n++
						c.Eval(fmt.Sprintf("pemline|%d|%v|%d|%d|%q", si, crlf, li, ei, sep))
						judgeHostile(c, fmt.Sprintf("reader:pem-line-edit:%d", ei), "PEM armour with an edited line", in, o, map[string]any{"line": li, "edit": ei, "crlf": crlf})
					}
				}
			}
		}
	}
	// empty file
	o := feedReader(writeCRL(dir, nil))
	judgeHostile(c, "reader:empty-file", "empty file", nil, o, map[string]any{})
	return n + 1
}

// c07SubParsers: AKI extension values and directory names of a CRL are attacker-influenced and are parsed
// by the chain matcher when the signature is verified.
func c07SubParsers(c *vk.Ctx, rng *rand.Rand) int {
	ca := pki.NewCA(pki.CAOpts{Name: "Matcher CA", Serial: 60})
	chains := core.NewCertificateChains([][]*x509.Certificate{{ca.Cert}}, nil)
	issuer := pkix.Name{CommonName: "Matcher CA", Organization: []string{"verif"}}.ToRDNSequence()
	// a well-formed AKI with issuer+serial and one with keyId
	dirName, _ := asn1.Marshal(issuer)
	gn := derbuild.TLV(0xa4, dirName)
	akiFull := derbuild.Seq(derbuild.TLV(0x80, ca.Cert.SubjectKeyId), derbuild.TLV(0xa1, gn), derbuild.TLV(0x82, ca.Cert.SerialNumber.Bytes()))
	akiIssuerSerial := derbuild.Seq(derbuild.TLV(0xa1, gn), derbuild.TLV(0x82, ca.Cert.SerialNumber.Bytes()))
	akiKey := derbuild.Seq(derbuild.TLV(0x80, ca.Cert.SubjectKeyId))
	bases := [][]byte{akiFull, akiIssuerSerial, akiKey}
	n := 0
	total := c.Pick(1500, 60000)
	for i := 0; i < total && c.Violations() <= 12; i++ {
		val := append([]byte{}, bases[i%3]...)
		switch i % 5 {
		case 0:
		case 1, 2:
			for k := 0; k < 1+rng.Intn(3); k++ {
				val[rng.Intn(len(val))] = byte(rng.Intn(256))
			}
		case 3:
			val = val[:rng.Intn(len(val))]
		case 4:
			p := rng.Intn(len(val) - 1)
			val[p+1] = []byte{0x80, 0x84, 0x88, 0x8f, 0xff}[rng.Intn(5)]
		}
		exts := []pkix.Extension{{Id: akiOID, Value: val}}
		var out hostileOutcome
		done := make(chan struct{})
		go func() {
			defer close(done)
			defer func() {
				if r := recover(); r != nil {
					out.Panic = fmt.Sprint(r)
				}
			}()
			var m0, m1 runtime.MemStats
			runtime.ReadMemStats(&m0)
			_, err := core.FindCertificateIssuerCandidates(&issuer, &exts, x509.ECDSA, chains)
			runtime.ReadMemStats(&m1)
			out.Alloc = m1.TotalAlloc - m0.TotalAlloc
			if err != nil {
				out.Err = err.Error()
			}
		}()
		select {
		case <-done:
		case <-time.After(20 * time.Second):
			out.Timeout = true
		}
		n++
		c.Eval(fmt.Sprintf("aki|%d|%d", i%5, i))
		judgeHostile(c, fmt.Sprintf("matcher:aki:kind=%d", i%5), "mutated authorityKeyIdentifier value given to the issuer-candidate search", val, out, map[string]any{"i": i})
	}
	return n
}
