package checks

import (
	"crypto/x509"
	"fmt"
	"math/big"
	"math/rand"
	"os"
	"path/filepath"
	"runtime"
	"runtime/pprof"
	"strings"
	"time"

	"github.com/gr33nbl00d/caddy-revocation-validator/crl"

	"verif/harness/origin"
	"verif/harness/pki"
	"verif/harness/vk"
	"verif/harness/world"
)

// c20Locations: whatever characters a distribution-point URL or file name contains, everything stays inside work_dir,
// distinct locations never share a store, and one location maps to the same store across restarts.
func c20Locations(c *vk.Ctx, rng *rand.Rand) int {
	org := origin.New()
	defer org.Close()
	ca := pki.NewCA(pki.CAOpts{Name: "Location CA", Serial: 601})
	crlBytes := ca.SimpleCRL(1, 77)
	long := strings.Repeat("a", 1800)
	paths := []string{
		"/plain.crl",
		"/../../../../tmp/verif-escape.crl",
		"/..%2f..%2f..%2fverif-escape2.crl",
		"/%2e%2e/%2e%2e/x.crl",
		"/" + long + ".crl",
		"/ünïcödé/列表.crl",
		"/crl_looks_like_tmp",
		"/a/b/../c.crl",
		"/a/c.crl",
		"/with space and ?query=../../x&y=%00",
		"/back\\slash\\..\\x.crl",
		// one path, three resources (a CA that publishes partitions or deltas under one path)
		"/partitioned.crl",
		"/partitioned.crl?Partition=1",
		"/partitioned.crl?Partition=2",
		"/Partitioned.crl",
	}
	// two spellings that are equal after URL normalisation (scheme case)
	equalPairs := [][2]string{{org.URL + "/same.crl", strings.Replace(org.URL, "http://", "HTTP://", 1) + "/same.crl"}}
	n := 0
	for _, disk := range []bool{true, false} {
		w, err := world.New(world.Cfg{Mode: "crl_only", Storage: backendName(disk), Sig: "none", Fetch: "fetch_actively", Interval: "1h"})
		if err != nil {
			c.Infra("world: %v", err)
		}
		// foreign files whose names resemble the temp pattern without matching it must survive the startup sweep
		foreign := []string{"crl_keep.txt", "mycrl_1_tmp", "crl_x_tmp.bak", "notes"}
		for _, f := range foreign {
			os.WriteFile(filepath.Join(w.WorkDir, f), []byte("keep me"), 0o644)
		}
		os.Mkdir(filepath.Join(w.WorkDir, "foreign_dir"), 0o755)
		os.WriteFile(filepath.Join(w.WorkDir, "foreign_dir", "crl_inner_tmp"), []byte("nested: not the validator's"), 0o644)
		if err := w.Provision(); err != nil {
			c.Infra("provision: %v", err)
		}
		for _, f := range append(foreign, "foreign_dir/crl_inner_tmp") {
			if _, err := os.Stat(filepath.Join(w.WorkDir, f)); err != nil {
				c.Violation("startup-sweep-deletes-foreign-file:"+f, "a file in work_dir that does not match the temp pattern was removed at startup: "+f, map[string]any{"file": f, "backend": backendName(disk)})
			}
		}
		var serial int64 = 100
		handshake := func(url ...string) {
			serial++
			leaf := ca.Leaf(pki.LeafOpts{CN: "loc leaf", Serial: big.NewInt(serial), CDP: url})
			w.HandshakeTimeout(pki.Chain(leaf.Cert, ca), 30*time.Second)
		}
		// a location may be a SET of URLs (one distribution point with several names, or several distribution points): every
		// certificate that names the same set means the same location, at every handshake and after every restart
		sets := [][]string{
			{org.URL + "/set/a.crl", org.URL + "/set/b.crl"},
			{org.URL + "/set/c.crl", org.URL + "/set/d.crl", org.URL + "/set/e.crl", org.URL + "/set/f.crl"},
			{"ldap://directory.example/cn=Location%20CA?certificateRevocationList;binary", org.URL + "/set/g.crl", org.URL + "/set/h.crl", org.URL + "/set/i.crl", org.URL + "/set/j.crl"},
		}
		for _, l := range "abcdefghij" {
			org.SetBody("/set/"+string(l)+".crl", crlBytes)
		}
		for range 4 {
			for _, set := range sets {
				handshake(set...)
				n++
			}
		}
		for _, p := range paths {
			org.SetBody(p, crlBytes)
			org.SetBody(strings.SplitN(p, "?", 2)[0], crlBytes)
			handshake(org.URL + p)
			n++
			c.Eval("loc|" + backendName(disk) + "|" + p[:minInt(len(p), 30)])
		}
		for _, pr := range equalPairs {
			org.SetBody("/same.crl", crlBytes)
			handshake(pr[0])
			handshake(pr[1])
			n += 2
		}
		rep := map[string]any{"backend": backendName(disk), "paths": len(paths)}
		l := w.Listing()
		allowedOther := map[string]bool{"foreign_dir": true}
		for _, f := range foreign {
			allowedOther[f] = true
		}
		for _, o := range l.Other {
			if !allowedOther[o] {
				c.Violation("location-string-escapes-identifier-scheme", fmt.Sprintf("work_dir contains %q after taking in hostile location strings", o), rep)
			}
		}
		if out := w.SandboxOutside(nil); len(out) > 0 {
			c.Violation("file-outside-work-dir", fmt.Sprintf("created next to work_dir: %v", out), rep)
		}
		for _, esc := range []string{"/tmp/verif-escape.crl", "/tmp/verif-escape2.crl", "/verif-escape2.crl"} {
			if _, err := os.Stat(esc); err == nil {
				c.Violation("file-outside-work-dir", "created "+esc, rep)
			}
		}
		states := w.EntryStates()
		wantDistinct := len(paths) + len(equalPairs) + len(sets) // every path is a distinct location; an equal pair is one location; a set of URLs is one location
		if len(states) != wantDistinct {
			c.Violation(fmt.Sprintf("%s:distinct-locations-share-a-store-or-equal-locations-do-not", backendName(disk)),
				fmt.Sprintf("%d distinct locations (%d pairs that are equal after normalisation, %d sets of URLs named by four certificates each) produced %d stores", len(paths), len(equalPairs), len(sets), len(states)), rep)
		}
		if disk {
			before := append([]string{}, l.Stores...)
			if err := w.Restart(); err != nil {
				c.Infra("restart: %v", err)
			}
			for _, p := range paths {
				handshake(org.URL + p)
			}
			for _, pr := range equalPairs {
				handshake(pr[1])
			}
			for range 4 {
				for _, set := range sets {
					handshake(set...)
				}
			}
			after := w.Listing().Stores
			if fmt.Sprint(before) != fmt.Sprint(after) {
				c.Violation("disk:location-maps-to-different-store-after-restart", fmt.Sprintf("store directories before restart %d, after %d", len(before), len(after)), rep)
			}
			if t := w.Listing().Temps; len(t) > 0 {
				c.Violation("disk:temporary-artefacts-remain:after=location-intake", fmt.Sprintf("%v", t), rep)
			}
		}
		w.Destroy()
	}
	return n
}

// c20FailedSwapLeftover: "after every load, successful or not, no temporary artefacts remain" - also after a first load that fails
// at its very last step because the storage layer cannot put the staged store in place (here: the entry's directory has vanished
// from work_dir, a real fault, nothing injected).
func c20FailedSwapLeftover(c *vk.Ctx) int {
	rw, err := newRepoWorld(true, "verify", false, c.Seed*23)
	if err != nil {
		c.Infra("repo world: %v", err)
	}
	defer rw.close()
	rw.serve("garbage", nil)
	rw.w.HandshakeTimeout(rw.chains["driver"], 60*time.Second) // the entry and its directory exist now, nothing is loaded
	ents, _ := os.ReadDir(rw.w.WorkDir)
	for _, e := range ents {
		if e.IsDir() {
			os.RemoveAll(filepath.Join(rw.w.WorkDir, e.Name()))
		}
	}
	rw.serve("good", []string{"x"})
	r := rw.w.HandshakeTimeout(rw.chains["driver"], 120*time.Second)
	l := rw.w.Listing()
	c.Eval("failed-swap-leftover|disk")
	if len(l.Temps) > 0 {
		c.Violation("disk:temporary-artefacts-remain:after=first-load-whose-swap-failed", fmt.Sprintf("the first load failed when its staged store was to be moved in (the entry's directory had vanished); afterwards work_dir still contains %v", l.Temps),
			map[string]any{"handshake": r, "listing": l})
	}
	return 1
}

func minInt(a, b int) int {
	if a < b {
		return a
	}
	return b
}

// c20Lifecycle: Cleanup releases the work_dir, database handles and background activity; cycles can repeat indefinitely.
func c20Lifecycle(c *vk.Ctx) int {
	org := origin.New()
	defer org.Close()
	ca := pki.NewCA(pki.CAOpts{Name: "Lifecycle CA", Serial: 602})
	org.SetBody("/l.crl", ca.SimpleCRL(1, 5))
	leaf := ca.Leaf(pki.LeafOpts{CN: "l", Serial: big.NewInt(5), CDP: []string{org.URL + "/l.crl"}})
	chain := [][]*x509.Certificate{{leaf.Cert, ca.Cert}}
	n := 0
	for _, disk := range []bool{true, false} {
		w, err := world.New(world.Cfg{Mode: "crl_only", Storage: backendName(disk), Sig: "none", Fetch: "fetch_actively", Interval: "1h", CRLUrls: []string{org.URL + "/l.crl"}})
		if err != nil {
			c.Infra("world: %v", err)
		}
		w.Hooks = world.NewHooks()
		w.Hooks.Install()
		cycles := c.Pick(15, 60)
		// the same directory spelt in the ways a configuration may spell it
		spellings := []string{"", w.WorkDir + string(os.PathSeparator), w.WorkDir + string(os.PathSeparator) + ".", filepath.Dir(w.WorkDir) + string(os.PathSeparator) + string(os.PathSeparator) + filepath.Base(w.WorkDir)}
		if cwd, err := os.Getwd(); err == nil {
			if rel, err := filepath.Rel(cwd, w.WorkDir); err == nil {
				spellings = append(spellings, rel)
			}
		}
		runtime.GC()
		time.Sleep(20 * time.Millisecond)
		g0 := runtime.NumGoroutine()
		rep := map[string]any{"backend": backendName(disk), "cycles": cycles}
		for i := 0; i < cycles; i++ {
			w.WorkDirAs = spellings[(i/3)%len(spellings)]
			if err := w.Provision(); err != nil {
				c.Violation(fmt.Sprintf("%s:provision-fails-in-cycle", backendName(disk)), fmt.Sprintf("cycle %d (work_dir spelt %q): Provision after a Cleanup failed: %v", i, w.ConfiguredWorkDir(), err), rep)
				break
			}
			if r := w.Handshake(chain); r.Verdict != "revoked" {
				c.Drift("lifecycle-verdict")
			}
			if err := w.Cleanup(); err != nil {
				c.Violation(fmt.Sprintf("%s:cleanup-fails", backendName(disk)), err.Error(), rep)
				break
			}
			if crl.VerifWorkDirRegistered(w.ConfiguredWorkDir()) {
				c.Violation("work-dir-still-registered-after-cleanup", "Cleanup returned but the work_dir is still registered as in use", rep)
				break
			}
			n++
			c.Eval(fmt.Sprintf("cycle|%v|%d", disk, i))
		}
		w.WorkDirAs = ""
		// a Provision that fails half way (the configured CRL is unusable) followed by the Cleanup Caddy performs must release
		// everything as well: the next Provision on the same work_dir has to succeed
		for i := 0; i < 3; i++ {
			org.SetBody("/l.crl", []byte("<html>502 bad gateway</html>"))
			if err := w.Provision(); err == nil {
				c.Drift("lifecycle-provision-did-not-fail")
				w.Cleanup()
			}
			if crl.VerifWorkDirRegistered(w.WorkDir) {
				c.Violation("work-dir-still-registered-after-failed-provision", "Provision failed, Cleanup ran, but the work_dir is still registered as in use", rep)
				break
			}
			org.SetBody("/l.crl", ca.SimpleCRL(int64(i+2), 5))
			if err := w.Provision(); err != nil {
				c.Violation(fmt.Sprintf("%s:provision-fails-after-failed-provision-and-cleanup", backendName(disk)),
					fmt.Sprintf("after a failed Provision and the Cleanup that follows it, a new Provision on the same work_dir fails: %v", err), rep)
				break
			}
			if r := w.Handshake(chain); r.Verdict != "revoked" {
				c.Drift("lifecycle-verdict")
			}
			w.Cleanup()
			n++
			c.Eval(fmt.Sprintf("failcycle|%v|%d", disk, i))
		}
		time.Sleep(1300 * time.Millisecond) // goleveldb's pool-drain goroutine lingers for up to one second after Close
		runtime.GC()
		g1 := runtime.NumGoroutine()
		rep["goroutines_before"], rep["goroutines_after"] = g0, g1
		if g1 > g0+3 && os.Getenv("VERIF_DEBUG") != "" {
			pprof.Lookup("goroutine").WriteTo(os.Stderr, 1)
		}
		if g1 > g0+3 {
			c.Violation("background-activity-survives-cleanup", fmt.Sprintf("%d provision/cleanup cycles left %d goroutines (before: %d): the update ticker goroutine of every instance keeps running", cycles, g1, g0), rep)
		}
		world.Uninstall()
		w.Destroy()
	}
	return n
}
