package checks

import (
	"crypto/x509"
	"crypto/x509/pkix"
	"fmt"
	"math/big"
	"os"
	"os/exec"
	"path/filepath"
	"sort"
	"strings"
	"sync"
	"time"

	"github.com/gr33nbl00d/caddy-revocation-validator/core"
	"github.com/gr33nbl00d/caddy-revocation-validator/crl/crlreader"
	"github.com/gr33nbl00d/caddy-revocation-validator/crl/crlstore"

	"verif/harness/origin"
	"verif/harness/pki"
	"verif/harness/world"
)

// ---------------------------------------------------------------------------------------------
// A repository world with a loader that can be stepped from hook to hook (gated schedule replay)
// ---------------------------------------------------------------------------------------------

// gateSites are the hook sites at which the loader / refresher can be parked, in program order.
var gateSites = map[string]bool{
	"repo.load.tmp": true, "repo.load.fetched": true, "repo.load.parsed": true, "repo.load.accepting": true, "repo.load.accepted": true,
	"repo.refresh.tmp": true, "repo.refresh.info": true, "repo.refresh.fetched": true, "repo.refresh.staged": true, "repo.refresh.parsed": true,
	"repo.refresh.swapping": true, "repo.swap.locked": true, "repo.swap.unlocking": true, "repo.refresh.swapped": true,
	"ldb.update.closedOld": true, "ldb.update.closedNew": true, "ldb.update.movedAside": true, "ldb.update.movedIn": true, "ldb.update.removedOld": true, "ldb.update.reopened": true,
	"map.update.replaced": true,
	// not a hook: the origin parks here after half of the body went out (the loader is inside its transfer)
	"origin.midbody": true,
}

// sites at which the loader holds the entry write lock (lookups must block)
func holdsWriteLock(site string, first bool) bool {
	if first {
		return true // loadActively holds the lock for the whole first load
	}
	switch site {
	case "repo.swap.locked", "repo.swap.unlocking", "ldb.update.closedOld", "ldb.update.closedNew", "ldb.update.movedAside", "ldb.update.movedIn", "ldb.update.removedOld", "ldb.update.reopened", "map.update.replaced":
		return true
	}
	return false
}

type stepper struct {
	mu      sync.Mutex
	active  bool          // gating enabled
	parked  chan string   // loader -> harness: "I am parked at site"
	resume  chan struct{} // harness -> loader: go on
	loaderG int64
	skip    map[string]bool
}

func newStepper() *stepper {
	return &stepper{parked: make(chan string), resume: make(chan struct{})}
}

// handler is installed as the verif hook handler. Only the goroutine of the loader run is gated.
func (s *stepper) handler(site string, kv ...any) {
	if !gateSites[site] {
		return
	}
	s.mu.Lock()
	active := s.active
	s.mu.Unlock()
	if !active {
		return
	}
	s.parked <- site
	<-s.resume
}

type probeResult struct {
	Cert    string
	Verdict string
	Err     string
	Blocked bool
}

type repoWorld struct {
	disk   bool
	org    *origin.Server
	ca     *pki.CA
	evil   *pki.CA
	w      *world.World
	step   *stepper
	driver *pki.Leaf            // has the CDP: its handshake triggers first loads
	probes map[string]*pki.Leaf // "x" old-only, "y" new-only, "z" common: no CDP, pure lookups
	chains map[string][][]*x509.Certificate
	number int64
	filler int
	fault  *storeFault
}

const pathRepo = "/repo/list.crl"

// storeFault injects failures into temporary (staging) stores.
type storeFault struct {
	mu          sync.Mutex
	failCreate  bool
	failInsertN int // fail the n-th insert (1-based); 0 = never
	inserts     int
	failUpdate  bool // the live store refuses the next swap before anything is moved
	failSigner  bool // the staging store refuses the signer record (the last write that fills it)
	// monitor of the live store: lookups inside it, and a gate that keeps them inside
	inside    int
	holdReads chan struct{} // non-nil: lookups wait inside the store until it is closed
	swapping  bool
	overlaps  []string // lookups and a swap inside the live store at the same time
}

func (f *storeFault) hold() {
	f.mu.Lock()
	f.holdReads = make(chan struct{})
	f.mu.Unlock()
}

func (f *storeFault) release() {
	f.mu.Lock()
	if f.holdReads != nil {
		close(f.holdReads)
		f.holdReads = nil
	}
	f.mu.Unlock()
}

func (f *storeFault) insideNow() int {
	f.mu.Lock()
	defer f.mu.Unlock()
	return f.inside
}

type faultFactory struct {
	inner crlstore.Factory
	f     *storeFault
}

type faultStore struct {
	crlstore.CRLStore
	f *storeFault
}

func (ff faultFactory) CreateStore(id string, temporary bool) (crlstore.CRLStore, error) {
	if temporary {
		ff.f.mu.Lock()
		fail := ff.f.failCreate
		ff.f.inserts = 0
		ff.f.mu.Unlock()
		if fail {
			return nil, fmt.Errorf("verif: injected staging store create error")
		}
	}
	s, err := ff.inner.CreateStore(id, temporary)
	if err != nil {
		return s, err
	}
	if !temporary {
		return &liveUnwrap{s, ff.f}, nil // the live store must accept wrapped staging stores in Update
	}
	return &faultStore{CRLStore: s, f: ff.f}, nil
}

func (s *faultStore) InsertRevokedCert(e *crlreader.CRLEntry) error {
	s.f.mu.Lock()
	s.f.inserts++
	fail := s.f.failInsertN > 0 && s.f.inserts == s.f.failInsertN
	s.f.mu.Unlock()
	if fail {
		return fmt.Errorf("verif: injected insert error at entry %d", s.f.failInsertN)
	}
	return s.CRLStore.InsertRevokedCert(e)
}

func (s *faultStore) UpdateSignatureCertificate(e *core.CertificateChainEntry) error {
	s.f.mu.Lock()
	fail := s.f.failSigner
	s.f.failSigner = false
	s.f.mu.Unlock()
	if fail {
		return fmt.Errorf("verif: injected error when the signer record is written")
	}
	return s.CRLStore.UpdateSignatureCertificate(e)
}

// Update must hand the unwrapped store to the real implementation (it type-asserts its argument).
func (s *faultStore) Update(n crlstore.CRLStore) error { return s.CRLStore.Update(unwrapStore(n)) }

func unwrapStore(s crlstore.CRLStore) crlstore.CRLStore {
	for {
		switch v := s.(type) {
		case *faultStore:
			s = v.CRLStore
		case *faultyStore:
			s = v.CRLStore
		case *liveUnwrap:
			s = v.CRLStore
		default:
			return s
		}
	}
}

// liveUnwrap makes the live store's Update accept wrapped staging stores.
type liveUnwrap struct {
	crlstore.CRLStore
	f *storeFault
}

func (l *liveUnwrap) Update(n crlstore.CRLStore) error {
	l.f.mu.Lock()
	if l.f.failUpdate {
		l.f.failUpdate = false
		l.f.mu.Unlock()
		return fmt.Errorf("verif: injected swap error (nothing was moved)")
	}
	l.f.swapping = true
	if l.f.inside > 0 {
		l.f.overlaps = append(l.f.overlaps, fmt.Sprintf("swap began with %d lookups inside the store", l.f.inside))
	}
	l.f.mu.Unlock()
	defer func() {
		l.f.mu.Lock()
		l.f.swapping = false
		l.f.mu.Unlock()
	}()
	return l.CRLStore.Update(unwrapStore(n))
}

func (l *liveUnwrap) GetCertRevocationStatus(issuer *pkix.RDNSequence, serial *big.Int) (*core.RevocationStatus, error) {
	l.f.mu.Lock()
	l.f.inside++
	if l.f.swapping {
		l.f.overlaps = append(l.f.overlaps, "lookup entered the store during a swap")
	}
	gate := l.f.holdReads
	l.f.mu.Unlock()
	if gate != nil {
		<-gate
	}
	defer func() {
		l.f.mu.Lock()
		l.f.inside--
		l.f.mu.Unlock()
	}()
	return l.CRLStore.GetCertRevocationStatus(issuer, serial)
}

func newRepoWorld(disk bool, sig string, strict bool, seed int64) (*repoWorld, error) {
	rw := &repoWorld{disk: disk, org: origin.New(), probes: map[string]*pki.Leaf{}, chains: map[string][][]*x509.Certificate{}, step: newStepper(), fault: &storeFault{}, filler: 40}
	rw.ca = pki.NewCA(pki.CAOpts{Name: "Repo CA", Serial: 401})
	rw.evil = pki.NewCA(pki.CAOpts{Name: "Repo CA", Serial: 402}) // same name, other key: bad signature
	rw.driver = rw.ca.Leaf(pki.LeafOpts{CN: "driver", Serial: big.NewInt(9000), CDP: []string{rw.org.URL + pathRepo}})
	rw.chains["driver"] = pki.Chain(rw.driver.Cert, rw.ca)
	for i, n := range []string{"x", "y", "z"} {
		rw.probes[n] = rw.ca.Leaf(pki.LeafOpts{CN: "probe " + n, Serial: big.NewInt(int64(7001 + i))})
		rw.chains[n] = pki.Chain(rw.probes[n].Cert, rw.ca)
	}
	storage := "memory"
	if disk {
		storage = "disk"
	}
	w, err := world.New(world.Cfg{Mode: "crl_only", Storage: storage, Sig: sig, Fetch: "fetch_actively", CdpStrict: strict, Interval: "1h"})
	if err != nil {
		return nil, err
	}
	rw.w = w
	world.SetHandler(rw.step.handler)
	if err := w.Provision(); err != nil {
		return nil, err
	}
	time.Sleep(10 * time.Millisecond)
	repo := w.V.VerifCRLChecker().VerifRepository()
	repo.Factory = faultFactory{inner: repo.Factory, f: rw.fault}
	return rw, nil
}

func (rw *repoWorld) close() {
	rw.step.mu.Lock()
	rw.step.active = false
	rw.step.mu.Unlock()
	world.SetHandler(nil)
	if rw.w != nil {
		func() {
			defer func() { recover() }()
			rw.w.Destroy()
		}()
	}
	rw.org.Close()
}

// build renders the next CRL of the CA (or of the forger): keys ⊆ {x, y, z} are listed.
func (rw *repoWorld) build(kind string, keys []string) []byte {
	rw.number++
	var listed []*big.Int
	for _, k := range keys {
		listed = append(listed, rw.probes[k].Cert.SerialNumber)
	}
	signer := rw.ca
	if kind == "badsig" {
		signer = rw.evil
	}
	var avoid []*big.Int
	for _, p := range rw.probes {
		in := false
		for _, l := range listed {
			if l.Cmp(p.Cert.SerialNumber) == 0 {
				in = true
			}
		}
		if !in {
			avoid = append(avoid, p.Cert.SerialNumber)
		}
	}
	sh := Shape{Size: "s300", Pos: "last", Width: "w1", Ext: "none", Enc: "der"}
	number := rw.number
	if kind == "badsig" {
		number += 100000 // a forged list claims a number far ahead: being rejected, it must leave nothing behind that outdates the next genuine one
	}
	return BuildCRL(CRLSpec{Signer: signer, Listed: listed, Avoid: avoid, Number: number}, sh)
}

// serve publishes a CRL: kind good|badsig|garbage|trunc|down ; keys ⊆ {x, y, z}.
func (rw *repoWorld) serve(kind string, keys []string) {
	body := rw.build(kind, keys)
	// every transfer that completes stops half way at the stepper's gate "origin.midbody" (the specification's pc "fetching")
	gated := func(b []byte) origin.Behaviour {
		return origin.Behaviour{Kind: "gated", Body: b, Gate: func() { rw.step.handler("origin.midbody") }}
	}
	switch kind {
	case "garbage":
		rw.org.Set(pathRepo, gated([]byte("<html>503 service unavailable</html>")))
	case "trunc":
		rw.org.Set(pathRepo, gated(body[:len(body)*2/3]))
	case "down":
		rw.org.Set(pathRepo, origin.Behaviour{Kind: "hangup", Body: body[:10]})
	default:
		rw.org.Set(pathRepo, gated(body))
	}
}

// probe runs the three lookups concurrently; a lookup that does not return within wait is reported as blocked
// (its final result is delivered through the returned channel once it completes).
func (rw *repoWorld) probe(wait time.Duration) (map[string]probeResult, chan probeResult) {
	late := make(chan probeResult, 3)
	res := map[string]probeResult{}
	type item struct {
		name string
		ch   chan world.Result
	}
	var items []item
	for _, n := range []string{"x", "y", "z"} {
		ch := make(chan world.Result, 1)
		n := n
		go func() { ch <- rw.w.Handshake(rw.chains[n]) }()
		items = append(items, item{n, ch})
	}
	deadline := time.After(wait)
	for _, it := range items {
		select {
		case r := <-it.ch:
			res[it.name] = probeResult{Cert: it.name, Verdict: r.Verdict, Err: r.Err}
		case <-deadline:
			res[it.name] = probeResult{Cert: it.name, Blocked: true}
			it := it
			go func() {
				r := <-it.ch
				late <- probeResult{Cert: it.name, Verdict: r.Verdict, Err: r.Err}
			}()
			// the deadline channel fired once; give the remaining probes no further time
			deadline = time.After(0)
		}
	}
	return res, late
}

// listed: which of x, y, z a set of probe results says are revoked; ok=false when some probe errored / blocked.
func listedOf(res map[string]probeResult) (string, bool) {
	var ks []string
	for _, n := range []string{"x", "y", "z"} {
		r := res[n]
		if r.Blocked || (r.Verdict != "accept" && r.Verdict != "revoked") {
			return "", false
		}
		if r.Verdict == "revoked" {
			ks = append(ks, n)
		}
	}
	sort.Strings(ks)
	return strings.Join(ks, ""), true
}

// run starts fn (a handshake of the driver or a refresh pass) in a goroutine with gating enabled and
// returns a function that advances it to the next gate ("" when the run has finished).
func (rw *repoWorld) run(fn func()) (next func() string) {
	done := make(chan struct{})
	rw.step.mu.Lock()
	rw.step.active = true
	rw.step.mu.Unlock()
	go func() {
		defer close(done)
		fn()
	}()
	first := true
	return func() string {
		if !first {
			select {
			case rw.step.resume <- struct{}{}:
			case <-done:
				rw.step.mu.Lock()
				rw.step.active = false
				rw.step.mu.Unlock()
				return ""
			}
		}
		first = false
		select {
		case site := <-rw.step.parked:
			return site
		case <-done:
			rw.step.mu.Lock()
			rw.step.active = false
			rw.step.mu.Unlock()
			return ""
		case <-time.After(60 * time.Second):
			return "TIMEOUT"
		}
	}
}

// snapshot copies work_dir (crash image).
func (rw *repoWorld) snapshot(dst string) error {
	return exec.Command("cp", "-r", rw.w.WorkDir, dst).Run()
}

func listDirNames(dir string) []string {
	ents, _ := os.ReadDir(dir)
	var out []string
	for _, e := range ents {
		out = append(out, e.Name())
	}
	sort.Strings(out)
	return out
}

var _ = filepath.Join

// newRepoWorldOnImage provisions a fresh validator (disk, verify, strict) whose work_dir is the given crash image.
// It shares the origin and the PKI of parent (the location identifier depends on the CDP URL); the origin serves garbage.
func newRepoWorldOnImage(parent *repoWorld, image string) (*repoWorld, error) {
	rw := &repoWorld{disk: true, org: parent.org, ca: parent.ca, probes: parent.probes, chains: map[string][][]*x509.Certificate{}, step: parent.step, fault: &storeFault{}}
	for n, p := range parent.probes {
		// the same serials, but naming the distribution point: after a restart a location is only known again once a certificate names it
		l := rw.ca.Leaf(pki.LeafOpts{CN: "cdp probe " + n, Serial: p.Cert.SerialNumber, CDP: []string{parent.org.URL + pathRepo}})
		rw.chains["cdp-"+n] = pki.Chain(l.Cert, rw.ca)
	}
	parent.org.SetBody(pathRepo, []byte("<html>503 service unavailable</html>"))
	w, err := world.New(world.Cfg{Mode: "crl_only", Storage: "disk", Sig: parent.w.Cfg.Sig, Fetch: "fetch_actively", CdpStrict: true, Interval: "1h"})
	if err != nil {
		return nil, err
	}
	os.RemoveAll(w.WorkDir)
	if err := os.Rename(image, w.WorkDir); err != nil {
		return nil, err
	}
	rw.w = w
	if err := w.Provision(); err != nil {
		return nil, err
	}
	return rw, nil
}
