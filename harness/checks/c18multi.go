package checks

import (
	"encoding/json"
	"fmt"
	"math/rand"
	"os"
	"reflect"

	"github.com/gr33nbl00d/caddy-revocation-validator/crl/crlstore"
	"go.uber.org/zap"

	"verif/harness/graph"
	"verif/harness/tlcrun"
	"verif/harness/vk"
)

// ---------------------------------------------------------------------------------------------
// CrlStores.tla: several stores of one base path and temporary stores with a life time of their own
// ---------------------------------------------------------------------------------------------

type multiExpect struct {
	Main   map[string]storeExpect     `json:"main"`
	Staged map[string]json.RawMessage `json:"staged"` // "none" or a storeExpect
}

func exportStoresGraph(c *vk.Ctx, keys []string) (*graph.Graph, tlcrun.Result) {
	ks := ""
	for i, k := range keys {
		if i > 0 {
			ks += ", "
		}
		ks += fmt.Sprintf("%q", k)
	}
	cfg := fmt.Sprintf("SPECIFICATION Spec\nCONSTANTS\n Ids = {\"a\", \"b\"}\n Slots = {\"s1\", \"s2\"}\n Keys = {%s}\n Export = TRUE\nINVARIANTS TypeOK\nPROPERTIES Isolation StagedStable\nCHECK_DEADLOCK FALSE\n", ks)
	g := graph.New()
	var perr error
	res := tlcrun.Run(tlcrun.Options{SpecDir: vk.SpecDir(), Module: "CrlStores", Config: cfg, Workers: 4,
		OnTagged: func(tag string, p json.RawMessage) {
			if tag == "EDGE" {
				if err := g.AddPayload(p); err != nil {
					perr = err
				}
			}
		}})
	if res.InfraErr != nil {
		c.Infra("tlc CrlStores: %v", res.InfraErr)
	}
	if !res.OK {
		c.Infra("CrlStores.tla does not satisfy its properties (specification problem, not a verdict about the code):\n%s", res.Violation)
	}
	if perr != nil {
		c.Infra("edge payload: %v", perr)
	}
	// the initial state is the only one in which nothing is staged and every main store is fresh
	init := ""
	for s, raw := range g.State {
		var st struct {
			Main   map[string]map[string]any `json:"main"`
			Staged map[string]map[string]any `json:"staged"`
		}
		json.Unmarshal(raw, &st)
		ok := true
		for _, m := range st.Main {
			if m["meta"] != "absent" || m["locs"] != "absent" {
				ok = false
			}
		}
		for _, m := range st.Staged {
			if m["meta"] != "none" {
				ok = false
			}
		}
		if ok {
			init = s
		}
	}
	g.Finish(init)
	if init == "" || len(g.Out[g.Init]) == 0 {
		c.Infra("initial state not found in the exported CrlStores graph")
	}
	return g, res
}

// multiDrv: the stores of one base path on one backend.
type multiDrv struct {
	backend string
	dir     string
	factory crlstore.Factory
	sc      *storeConc
	ids     map[string]string // abstract id -> identifier
	main    map[string]crlstore.CRLStore
	staged  map[string]crlstore.CRLStore
}

func newMultiDrv(backend string, sc *storeConc) (*multiDrv, error) {
	d := &multiDrv{backend: backend, sc: sc, main: map[string]crlstore.CRLStore{}, staged: map[string]crlstore.CRLStore{},
		ids: map[string]string{"a": "00aa11bb22cc33dd", "b": "00aa11bb22cc33de"}}
	var err error
	if backend == "disk" {
		if d.dir, err = os.MkdirTemp("", "verif.stores."); err != nil {
			return nil, err
		}
		d.factory, err = crlstore.CreateStoreFactory(crlstore.LevelDB, d.dir, zap.NewNop())
	} else {
		d.factory, err = crlstore.CreateStoreFactory(crlstore.Map, "", zap.NewNop())
	}
	if err != nil {
		return nil, err
	}
	for a, id := range d.ids {
		if d.main[a], err = d.factory.CreateStore(id, false); err != nil {
			return nil, err
		}
	}
	return d, nil
}

func (d *multiDrv) close() {
	for _, st := range d.main {
		func() { defer func() { recover() }(); st.Close() }()
	}
	for _, st := range d.staged {
		func() { defer func() { recover() }(); st.Close() }()
	}
	if d.dir != "" {
		os.RemoveAll(d.dir)
	}
}

func (d *multiDrv) obsOf(st crlstore.CRLStore, keys []string) storeObs {
	return (&storeDrv{backend: d.backend, factory: d.factory, dir: d.dir, st: st, sc: d.sc}).observe(keys)
}

func (d *multiDrv) apply(op []any) (err error) {
	defer func() {
		if r := recover(); r != nil {
			err = fmt.Errorf("panic: %v", r)
		}
	}()
	switch op[0].(string) {
	case "stage":
		sl, id := op[1].(string), d.ids[op[2].(string)]
		ns, err := d.factory.CreateStore(id, true)
		if err != nil {
			return err
		}
		d.staged[sl] = ns
		return (&storeDrv{sc: d.sc}).populate(ns, op[3].(map[string]any))
	case "replace":
		a, sl := op[1].(string), op[2].(string)
		ns := d.staged[sl]
		delete(d.staged, sl)
		return d.main[a].Update(ns)
	case "discard":
		sl := op[1].(string)
		ns := d.staged[sl]
		delete(d.staged, sl)
		ns.Close()
		return ns.Delete()
	case "reopen":
		if d.backend != "disk" {
			return nil
		}
		a := op[1].(string)
		d.main[a].Close()
		ns, err := d.factory.CreateStore(d.ids[a], false)
		if err != nil {
			return err
		}
		d.main[a] = ns
		return nil
	}
	return fmt.Errorf("unknown op %v", op[0])
}

func runStoresWalk(c *vk.Ctx, keys []string, walk []*graph.Edge, variant int) {
	sc := newStoreConc(variant)
	var drvs []*multiDrv
	for _, b := range []string{"memory", "disk"} {
		d, err := newMultiDrv(b, sc)
		if err != nil {
			c.Infra("create %s stores: %v", b, err)
		}
		drvs = append(drvs, d)
	}
	defer func() {
		for _, d := range drvs {
			d.close()
		}
	}()
	var hist []storeStep
	for i, e := range walk {
		var op []any
		json.Unmarshal(e.Op, &op)
		var exp multiExpect
		json.Unmarshal(e.Expect, &exp)
		hist = append(hist, storeStep{e.Op, e.Expect})
		opName := op[0].(string)
		type allObs struct {
			Main, Staged map[string]storeObs
		}
		obs := make([]allObs, len(drvs))
		for di, d := range drvs {
			if err := d.apply(op); err != nil {
				c.Violation(fmt.Sprintf("stores:%s:op-%s-fails", d.backend, opName), fmt.Sprintf("operation %v returned %v after %d steps with %d temporary stores alive (variant %d: %s)", op, err, i, len(d.staged), variant, sc.describe),
					map[string]any{"backend": d.backend, "variant": variant, "steps": hist})
				return
			}
			o := allObs{Main: map[string]storeObs{}, Staged: map[string]storeObs{}}
			for a, st := range d.main {
				o.Main[a] = d.obsOf(st, keys)
			}
			for sl, st := range d.staged {
				o.Staged[sl] = d.obsOf(st, keys)
			}
			obs[di] = o
		}
		c.Eval(fmt.Sprintf("stores|%s|%s", e.From, e.Op))
		for di, d := range drvs {
			rep := map[string]any{"backend": d.backend, "variant": variant, "variant_desc": sc.describe, "steps": hist, "observed": obs[di]}
			cmp := func(which string, o storeObs, x storeExpect) {
				for _, f := range [][3]string{{"meta", o.Meta, x.Meta}, {"ext", o.Ext, x.Ext}, {"signer", o.Signer, x.Signer}, {"locs", o.Locs, x.Locs}} {
					if !getterMatches(f[1], f[2]) {
						c.Violation(fmt.Sprintf("stores:%s:%s-of-%s-after-%s", d.backend, f[0], which[:1], opName),
							fmt.Sprintf("%s of %s reads back %q, specification says %q after %v (step %d)", f[0], which, f[1], f[2], op, i), rep)
					}
				}
				for _, k := range keys {
					if o.Look[k] != x.Look[k] {
						c.Violation(fmt.Sprintf("stores:%s:lookup-in-%s-after-%s", d.backend, which[:1], opName),
							fmt.Sprintf("lookup(%s) in %s answers %q, specification says %q after %v (step %d)", k, which, o.Look[k], x.Look[k], op, i), rep)
					}
				}
			}
			for a, x := range exp.Main {
				cmp("main store "+a, obs[di].Main[a], x)
			}
			for sl, raw := range exp.Staged {
				var x storeExpect
				if json.Unmarshal(raw, &x) != nil || x.Look == nil {
					continue // "none": slot free
				}
				if o, ok := obs[di].Staged[sl]; ok {
					cmp("temporary store "+sl, o, x)
				}
			}
		}
		if !reflect.DeepEqual(obs[0], obs[1]) {
			c.Violation("stores:backends-disagree-after-"+opName, fmt.Sprintf("memory and disk observations differ after %v", op), map[string]any{"variant": variant, "steps": hist, "memory": obs[0], "disk": obs[1]})
		}
		if c.Violations() > 8 {
			return
		}
	}
}

// c18Stores replays the CrlStores graph: covering tour + seeded walks on both backends.
func c18Stores(c *vk.Ctx, rng *rand.Rand) int {
	keys := []string{"k1", "k2"}
	g, res := exportStoresGraph(c, keys)
	c.Add("states", res.Distinct)
	c.Add("transitions", int64(len(g.Edges)))
	walks := 0
	for i, w := range g.Tour(60, rng) {
		if c.Violations() > 8 {
			break
		}
		runStoresWalk(c, keys, w, int(c.Seed)+i)
		walks++
		if i == 0 {
			c.Sample(map[string]any{"kind": "stores-tour-walk", "first_ops": opsOf(w, 8), "len": len(w)})
		}
	}
	n := c.Pick(20, 600)
	for i := 0; i < n && c.Violations() <= 8; i++ {
		runStoresWalk(c, keys, g.RandomWalk(40, rng), int(c.Seed)+i)
		walks++
	}
	return walks
}
