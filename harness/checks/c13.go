package checks

import (
	"fmt"

	"verif/harness/tlcrun"
	"verif/harness/vk"
)

// predC13 flags calls that never return (deadlock) or crash the process.
func predC13(c *vk.Ctx, o *hubObs) {
	if o.Op[0] != "handshake" {
		return
	}
	if o.Verdict == "hang" {
		c.Violation(fmt.Sprintf("deadlock:handshake-never-returns:after=%s:sig=%s", lastIntake(o), o.Cfg.Sig),
			fmt.Sprintf("VerifyClientCertificate(%s) did not return within the 30 s watchdog; cfg=%s", o.Exp.Cert, o.Cfg), hubReplay(o))
	}
	if o.Verdict == "panic" {
		c.Violation("crash:handshake-panics", fmt.Sprintf("VerifyClientCertificate(%s) panicked: %s; cfg=%s", o.Exp.Cert, o.Err, o.Cfg), hubReplay(o))
	}
}

func runEntryLocks(c *vk.Ctx) tlcrun.Result {
	res := tlcrun.Run(tlcrun.Options{SpecDir: vk.SpecDir(), Module: "EntryLocks", Config: "MC_EntryLocks.cfg", Workers: 2})
	if res.InfraErr != nil {
		c.Infra("tlc EntryLocks: %v", res.InfraErr)
	}
	if !res.OK {
		c.Infra("EntryLocks.tla violates NoDeadlock/Lockset (specification problem):\n%s", res.Violation)
	}
	return res
}

// C13 — concurrency safety (grown in later rounds: gated schedules under -race, stress with trace validation).
func C13(c *vk.Ctx) {
	res := runEntryLocks(c)
	c.Add("states", res.Distinct)
	c.Add("transitions", res.Generated)
	// sequential part: every call returns on every explored history, including the state
	// "last refresh failed signature verification"
	cfgs := []HubCfg{
		{Mode: "crl_only", Sig: "verify", Strict: false, Fetch: "actively", Disk: false, TrustA: false, Conf: "none", Ocsp: "noaia"},
		{Mode: "crl_only", Sig: "verify", Strict: true, Fetch: "background", Disk: true, TrustA: true, Conf: "url", Ocsp: "noaia"},
	}
	hubCampaign(c, cfgs, c.Pick(700, 8000), allDownEdges, 60, predC13)
	c13Concurrent(c)
	c.Add("traces_validated_against_impl", int64(queuedBehindFailingLoad(c, []string{"then-good"})))
	c.Set("spec", "EntryLocks.tla (NoDeadlock as an invariant over the wait-for relation, Lockset) + CrlRepo.tla (lock discipline) + Revocation.tla histories")
	c.Set("rule", "sequential part: every edge of the Revocation graph of two configurations is executed with a 30 s watchdog per call (the longest legitimate retry loop is 5 s); concurrent part: see c13Concurrent")
}
