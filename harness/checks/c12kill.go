package checks

import (
	"crypto/x509"
	"fmt"
	"math/big"
	"math/rand"
	"os"
	"os/exec"
	"path/filepath"
	"strconv"
	"syscall"
	"time"

	"verif/harness/origin"
	"verif/harness/pki"
	"verif/harness/vk"
	"verif/harness/world"
)

// workerC12Kill: args = workDir cdpURL caPEMPath leafSerial. Provisions a disk validator on workDir and keeps
// loading / refreshing the CRL at cdpURL until it is killed.
func workerC12Kill(args []string) int {
	if len(args) < 2 {
		return 2
	}
	workDir, certFile := args[0], args[1]
	pemBytes, err := os.ReadFile(certFile)
	if err != nil {
		return 2
	}
	chain, err := parseChainPEM(pemBytes)
	if err != nil {
		return 2
	}
	sig := "verify"
	if len(args) >= 3 {
		sig = args[2]
	}
	w := &world.World{Sandbox: filepath.Dir(workDir), WorkDir: workDir, Cfg: world.Cfg{Mode: "crl_only", Storage: "disk", Sig: sig, Fetch: "fetch_actively", Interval: "1h"}}
	if err := w.Provision(); err != nil {
		fmt.Fprintln(os.Stderr, "provision:", err)
		return 3
	}
	fmt.Println("READY")
	for {
		w.Handshake(chain) // first load when needed
		w.RefreshAll()     // then refresh after refresh
	}
}

func init() { workers["c12kill"] = workerC12Kill }

func parseChainPEM(b []byte) ([][]*x509.Certificate, error) {
	var certs []*x509.Certificate
	for {
		var blk *pemBlock
		blk, b = pemDecode(b)
		if blk == nil {
			break
		}
		c, err := x509.ParseCertificate(blk.Bytes)
		if err != nil {
			return nil, err
		}
		certs = append(certs, c)
	}
	if len(certs) < 2 {
		return nil, fmt.Errorf("need leaf and ca")
	}
	return [][]*x509.Certificate{certs}, nil
}

// c12Kill: a child process loading / refreshing a large CRL is SIGKILLed at seeded random instants; a fresh validator on
// the same work_dir (origin serving garbage, strict on) may treat the location as loaded only with one of the complete
// lists that were ever served.
func c12Kill(c *vk.Ctx, rng *rand.Rand) int {
	self, err := os.Executable()
	if err != nil {
		c.Infra("executable: %v", err)
	}
	org := origin.New()
	defer org.Close()
	ca := pki.NewCA(pki.CAOpts{Name: "Kill CA", Serial: 901})
	serial := func(n string) *big.Int { return big.NewInt(map[string]int64{"x": 7001, "y": 7002, "z": 7003}[n]) }
	// the origin alternates between two complete lists on every request: {x,z} and {y,z}, 30 000 fillers each
	big1 := BuildCRL(CRLSpec{Signer: ca, Listed: []*big.Int{serial("x"), serial("z")}, Avoid: []*big.Int{serial("y")}, Number: 1}, Shape{Size: "big", Pos: "last", Width: "w1", Ext: "none", Enc: "der"})
	big2 := BuildCRL(CRLSpec{Signer: ca, Listed: []*big.Int{serial("y"), serial("z")}, Avoid: []*big.Int{serial("x")}, Number: 2}, Shape{Size: "big", Pos: "first", Width: "w1", Ext: "none", Enc: "pem"})
	n := 0
	org.Set("/kill.crl", origin.Behaviour{Kind: "func", Func: func([]byte) (int, []byte) {
		n++
		if n%2 == 1 {
			return 200, big1
		}
		return 200, big2
	}})
	cdp := org.URL + "/kill.crl"
	leaves := map[string][][]*x509.Certificate{}
	for _, name := range []string{"x", "y", "z"} {
		l := ca.Leaf(pki.LeafOpts{CN: "kill " + name, Serial: serial(name), CDP: []string{cdp}})
		leaves[name] = pki.Chain(l.Cert, ca)
	}
	rounds := c.Pick(0, 60)
	done := 0
	for i := 0; i < rounds && c.Violations() <= 8; i++ {
		sandbox, _ := os.MkdirTemp("", "verif.kill.")
		workDir := filepath.Join(sandbox, "work")
		os.Mkdir(workDir, 0o755)
		certFile := filepath.Join(sandbox, "chain.pem")
		os.WriteFile(certFile, append(pki.PEMCert(leaves["x"][0][0]), pki.PEMCert(ca.Cert)...), 0o644)
		sig := []string{"verify", "none", "verify_log"}[i%3]
		cmd := exec.Command(self, "worker", "c12kill", workDir, certFile, sig)
		cmd.Stdout, cmd.Stderr = nil, nil
		if err := cmd.Start(); err != nil {
			c.Infra("start kill worker: %v", err)
		}
		delay := time.Duration(150+rng.Intn(2500)) * time.Millisecond
		time.Sleep(delay)
		cmd.Process.Signal(syscall.SIGKILL)
		cmd.Wait()
		// restart on the same work_dir: nothing can be fetched, strict on
		org.Set("/kill.crl", origin.Behaviour{Kind: "body", Body: []byte("gone")})
		w := &world.World{Sandbox: sandbox, WorkDir: workDir, Cfg: world.Cfg{Mode: "crl_only", Storage: "disk", Sig: sig, Fetch: "fetch_actively", CdpStrict: true, Interval: "1h"}}
		if err := w.Provision(); err != nil {
			c.Violation("provision-fails-after-kill", "a validator cannot be provisioned on the work_dir of a killed process: "+err.Error(), map[string]any{"delay_ms": delay.Milliseconds()})
		} else {
			res := map[string]probeResult{}
			for _, name := range []string{"x", "y", "z"} {
				r := w.HandshakeTimeout(leaves[name], 30*time.Second)
				res[name] = probeResult{Cert: name, Verdict: r.Verdict, Err: r.Err}
			}
			got, ok := listedOf(res)
			c.Eval("kill|" + strconv.Itoa(i))
			done++
			if ok && got != "xz" && got != "yz" {
				c.Violation("loaded-after-kill-with-partial-data", fmt.Sprintf("killed after %v; the restarted validator treats the location as loaded with revoked={%s}; the complete lists are {xz} and {yz}", delay, got),
					map[string]any{"delay_ms": delay.Milliseconds(), "after_restart": res, "signature_validation_mode": sig})
			}
			l := w.Listing()
			if len(l.Temps) > 0 {
				c.Violation("temporary-artefacts-survive-startup:after-kill", fmt.Sprintf("%v", l.Temps), map[string]any{"delay_ms": delay.Milliseconds()})
			}
			var left []string
			for _, n := range l.Other {
				if _, ok := restingNames.Load(n); !ok {
					left = append(left, n)
				}
			}
			if len(left) > 0 {
				c.Violation("leftover-of-interrupted-run-survives-startup:after-kill", fmt.Sprintf("%v", left), map[string]any{"delay_ms": delay.Milliseconds()})
			}
			w.Cleanup()
		}
		org.Set("/kill.crl", origin.Behaviour{Kind: "func", Func: func([]byte) (int, []byte) {
			n++
			if n%2 == 1 {
				return 200, big1
			}
			return 200, big2
		}})
		os.RemoveAll(sandbox)
	}
	return done
}
