package checks

import (
	"crypto/x509"
	"encoding/asn1"
	"encoding/json"
	"fmt"
	"math/big"
	"math/rand"
	"os"
	"path/filepath"
	"sort"
	"strings"
	"sync/atomic"
	"time"

	"golang.org/x/crypto/ocsp"

	"verif/harness/graph"
	"verif/harness/origin"
	"verif/harness/pki"
	"verif/harness/tlcrun"
	"verif/harness/vk"
	"verif/harness/world"
)

// HubCfg is the configuration record `Cfg` of Revocation.tla.
type HubCfg struct {
	Mode   string `json:"mode"`
	Sig    string `json:"sig"`
	Strict bool   `json:"strict"`
	Fetch  string `json:"fetch"`
	Disk   bool   `json:"disk"`
	TrustA bool   `json:"trustA"`
	Conf   string `json:"conf"`
	Ocsp   string `json:"ocsp"`
	Aia    bool   `json:"aia"`
}

func (h HubCfg) TLA() string {
	return fmt.Sprintf(`[mode |-> %q, sig |-> %q, strict |-> %s, fetch |-> %q, disk |-> %s, trustA |-> %s, conf |-> %q, ocsp |-> %q, aia |-> %s]`,
		h.Mode, h.Sig, tlaBool(h.Strict), h.Fetch, tlaBool(h.Disk), tlaBool(h.TrustA), h.Conf, h.Ocsp, tlaBool(h.Aia))
}

func (h HubCfg) CrlOn() bool {
	return h.Mode == "unset" || h.Mode == "prefer_ocsp" || h.Mode == "prefer_crl" || h.Mode == "crl_only"
}
func (h HubCfg) OcspOn() bool {
	return h.Mode == "unset" || h.Mode == "prefer_ocsp" || h.Mode == "prefer_crl" || h.Mode == "ocsp_only"
}

func (h HubCfg) String() string {
	b, _ := json.Marshal(h)
	return string(b)
}

const hubProps = "INVARIANTS TypeOK Refines Complete VerifyNeverInForce ProvisionLoads\nPROPERTIES Sound Precise StrictGate LenientNeverDenies LenientRefreshWorks ModePromise ProvisionAcceptsAcceptable\n"

// exportHubGraph model-checks Revocation.tla for one configuration (all listed properties) and
// returns the complete labelled transition graph of that configuration.
func exportHubGraph(c *vk.Ctx, cfg HubCfg, dev []string) (*graph.Graph, tlcrun.Result) {
	gs, res := exportHubGraphs(c, []HubCfg{cfg}, dev, 0)
	return gs[0], res
}

// exportHubFamily explores a set of configurations between which a restart may switch (a reload with other policy options)
// and returns ONE graph; its initial state is the fresh state of cfgs[0].
func exportHubFamily(c *vk.Ctx, cfgs []HubCfg) (*graph.Graph, tlcrun.Result) {
	var recs []string
	for _, cfg := range cfgs {
		recs = append(recs, cfg.TLA())
	}
	mc := fmt.Sprintf("---- MODULE MCRev ----\nEXTENDS Revocation\nCfgVal == {%s}\nDevVal == {}\n====\n", strings.Join(recs, ",\n  "))
	cfgText := "SPECIFICATION Spec\nCONSTANTS\n Dev <- DevVal\n CfgSpace <- CfgVal\n MaxSteps = 0\n Export = TRUE\n" + hubProps + "CHECK_DEADLOCK FALSE\nVIEW View\n"
	g := graph.New()
	var perr error
	res := tlcrun.Run(tlcrun.Options{SpecDir: vk.SpecDir(), Module: "MCRev", Config: cfgText, Workers: 4,
		Files: map[string][]byte{"MCRev.tla": []byte(mc)},
		OnTagged: func(tag string, p json.RawMessage) {
			if tag == "EDGE" {
				if err := g.AddPayload(p); err != nil {
					perr = err
				}
			}
		}})
	if res.InfraErr != nil {
		c.Infra("tlc Revocation (family): %v", res.InfraErr)
	}
	if !res.OK {
		c.Infra("Revocation.tla violates its properties (specification problem, not a verdict about the code):\n%s", res.Violation)
	}
	if perr != nil {
		c.Infra("edge payload: %v", perr)
	}
	g.Finish("")
	for s, raw := range g.State {
		var st struct {
			Cfg    HubCfg `json:"cfg"`
			Phase  string `json:"phase"`
			Resp   string `json:"resp"`
			Ocache string `json:"ocache"`
			Ent    map[string]struct {
				Meta bool  `json:"meta"`
				Locs bool  `json:"locs"`
				Keys []any `json:"keys"`
			} `json:"ent"`
		}
		json.Unmarshal(raw, &st)
		if st.Cfg.String() == cfgs[0].String() && st.Phase == "new" && initialResp(st.Cfg, st.Resp) && st.Ocache == "none" && !st.Ent["D"].Meta && !st.Ent["U"].Meta && !st.Ent["D"].Locs && !st.Ent["U"].Locs && len(st.Ent["D"].Keys) == 0 && len(st.Ent["U"].Keys) == 0 {
			g.Init = s
		}
	}
	if g.Init == "" {
		c.Infra("initial state not found in exported Revocation family graph")
	}
	hubGraphs = []*graph.Graph{g}
	return g, res
}

// initialResp: is r the responder behaviour of the specification's initial state of cfg?
func initialResp(cfg HubCfg, r string) bool {
	if cfg.Ocsp == "dyn" || cfg.Ocsp == "dyncache" {
		return r == "good"
	}
	return r == cfg.Ocsp
}

// hubGraphs: the graphs of the latest export (looked up by state when a walk leaves the model, see hubAfterDivergence).
var hubGraphs []*graph.Graph

// exportHubGraphs explores several configurations in one TLC run (cfg is chosen in Init) and splits the
// exported edges by configuration. maxSteps = 0 explores the complete graphs.
func exportHubGraphs(c *vk.Ctx, cfgs []HubCfg, dev []string, maxSteps int) ([]*graph.Graph, tlcrun.Result) {
	devs := "{}"
	if len(dev) > 0 {
		q := make([]string, len(dev))
		for i, d := range dev {
			q[i] = fmt.Sprintf("%q", d)
		}
		devs = "{" + strings.Join(q, ", ") + "}"
	}
	var recs []string
	index := map[string]int{}
	for i, cfg := range cfgs {
		recs = append(recs, cfg.TLA())
		index[cfg.String()] = i
	}
	mc := fmt.Sprintf("---- MODULE MCRev ----\nEXTENDS Revocation\nCfgVal == {%s}\nDevVal == %s\n====\n", strings.Join(recs, ",\n  "), devs)
	cfgText := fmt.Sprintf("SPECIFICATION Spec\nCONSTANTS\n Dev <- DevVal\n CfgSpace <- CfgVal\n MaxSteps = %d\n Export = TRUE\n", maxSteps) + hubProps + "CHECK_DEADLOCK FALSE\nVIEW View\n"
	gs := make([]*graph.Graph, len(cfgs))
	for i := range gs {
		gs[i] = graph.New()
	}
	var perr error
	res := tlcrun.Run(tlcrun.Options{SpecDir: vk.SpecDir(), Module: "MCRev", Config: cfgText, Workers: 4,
		Files: map[string][]byte{"MCRev.tla": []byte(mc)},
		OnTagged: func(tag string, p json.RawMessage) {
			if tag != "EDGE" {
				return
			}
			var hdr struct {
				From struct {
					Cfg HubCfg `json:"cfg"`
				} `json:"from"`
			}
			if err := json.Unmarshal(p, &hdr); err != nil {
				perr = err
				return
			}
			i, ok := index[hdr.From.Cfg.String()]
			if !ok {
				perr = fmt.Errorf("edge for unknown cfg %s", hdr.From.Cfg)
				return
			}
			if err := gs[i].AddPayload(p); err != nil {
				perr = err
			}
		}})
	if res.InfraErr != nil {
		c.Infra("tlc Revocation: %v", res.InfraErr)
	}
	if !res.OK {
		c.Infra("Revocation.tla violates its properties (specification problem, not a verdict about the code):\n%s", res.Violation)
	}
	if perr != nil {
		c.Infra("edge payload: %v", perr)
	}
	for i, g := range gs {
		g.Finish("")
		// the initial state: phase new, nothing known, nothing stored
		for s, raw := range g.State {
			var st struct {
				Cfg    HubCfg `json:"cfg"`
				Phase  string `json:"phase"`
				Resp   string `json:"resp"`
				Ocache string `json:"ocache"`
				Ent    map[string]struct {
					Meta bool  `json:"meta"`
					Locs bool  `json:"locs"`
					Keys []any `json:"keys"`
				} `json:"ent"`
			}
			json.Unmarshal(raw, &st)
			// (a restart may switch to another configuration of CfgSpace: its fresh state is a leaf of this graph, not its start)
			if st.Cfg.String() == cfgs[i].String() && st.Phase == "new" && initialResp(st.Cfg, st.Resp) && st.Ocache == "none" && !st.Ent["D"].Meta && !st.Ent["U"].Meta && !st.Ent["D"].Locs && !st.Ent["U"].Locs && len(st.Ent["D"].Keys) == 0 && len(st.Ent["U"].Keys) == 0 {
				g.Init = s
			}
		}
		if g.Init == "" || len(g.Out[g.Init]) == 0 {
			c.Infra("initial state not found in exported Revocation graph of %s", cfgs[i])
		}
	}
	hubGraphs = gs
	return gs, res
}

// ---------------------------------------------------------------------------------------------
// concrete world of one hub walk
// ---------------------------------------------------------------------------------------------

type hubDoc struct {
	Signer string `json:"signer"`
	Keys   []int  `json:"keys"`
	Q      string `json:"q"`
}

type hubExpect struct {
	Kind    string          `json:"kind"`
	Cert    string          `json:"cert"`
	Verdict string          `json:"verdict"`
	Alt     string          `json:"alt"` // the verdict if the OCSP cache entry were absent ("any": not determined by the model)
	Cause   string          `json:"cause"`
	Intake  string          `json:"intake"`
	OK      bool            `json:"ok"`
	Loaded  map[string]bool `json:"loaded"`
	Fetch   map[string]int  `json:"fetch"`
	Listed  map[string]bool `json:"listed"`
	Inforce map[string]bool `json:"inforce"`
}

type hubWorld struct {
	cfg          HubCfg
	shape        Shape
	rng          *rand.Rand
	w            *world.World
	hooks        *world.HookState
	org          *origin.Server
	cas          map[string]*pki.CA
	leaves       map[string]*pki.Leaf
	chains       map[string][][]*x509.Certificate
	uFile        string
	idOf         map[string]string // "D"/"U" -> repository identifier (learnt by observation)
	number       int64
	garbageN     int // documents of kind garbage published so far (every second one is an error page with an error status)
	lastDoc      map[string]hubDoc
	sawRej       bool // some fetched document was rejected earlier in this walk
	poisoned     bool // a call never returned: the validator holds locks forever, do not touch it again
	chainVariant string
	nameVariant  string // how the issuers are named: "plain" | "order" | "dc" | "twoou" (see newHubWorld)
	cdpVariant   string // how c1 names its distribution-point set: "single" | "ldap-first" | "mirror" (see newHubWorld)
	ocspHits     int
	pathD, pathU string
	sameBytes    bool                 // see publish
	lastValid    map[string]servedDoc // location -> the parseable document it serves right now, with its bytes
}

type servedDoc struct {
	doc  hubDoc
	body []byte
}

const pathOCSP = "/ocsp"

// locationSpellings: how the two abstract locations D (distribution point of c1) and U (configured) are spelt. They are different
// resources in every variant; in the last two they differ only in the letter case of the path or only in the query, which
// a location identity that is coarser than the URL itself would confuse.
var locationSpellings = [][2]string{
	{"/cdp/d.crl", "/conf/u.crl"},
	{"/crl/Hub-CA-n1.crl", "/crl/hub-ca-n1.crl"},
	{"/crl/hub-ca-n1.crl?Partition=Delta", "/crl/hub-ca-n1.crl?partition=delta"},
}

func newHubWorld(cfg HubCfg, shape Shape, seed int64) (*hubWorld, error) {
	h := &hubWorld{cfg: cfg, shape: shape, rng: rand.New(rand.NewSource(seed)), cas: map[string]*pki.CA{}, leaves: map[string]*pki.Leaf{},
		chains: map[string][][]*x509.Certificate{}, idOf: map[string]string{}, lastDoc: map[string]hubDoc{}}
	h.org = origin.New()
	// every concretisation dimension is drawn independently from a generator of its own (walk seeds of one campaign are
	// consecutive numbers: seed/k%n patterns made dimensions move together and left whole configurations with one variant)
	dim := rand.New(rand.NewSource(seed*0x9E3779B9 + 77))
	pick := func(n int) int { return dim.Intn(n) }
	h.sameBytes = pick(2) == 0
	h.lastValid = map[string]servedDoc{}
	sp := locationSpellings[pick(len(locationSpellings))]
	h.pathD, h.pathU = sp[0], sp[1]
	alg := "ecdsa"
	if pick(3) == 0 {
		alg = "rsa"
	}
	// How the issuers are NAMED. n1 (A and its sibling S) and n2 (B) are different names in every variant; in three of four
	// worlds they differ only in the ORDER of the attributes, in attribute types crypto/x509's pkix.Name does not know
	// (domainComponent, emailAddress), or in two single-valued OU RDNs against one multi-valued RDN: a name handling that goes
	// through a lossy normal form would confuse them or fail to find A's own entries.
	h.nameVariant = []string{"plain", "order", "dc", "twoou"}[pick(4)]
	a := func(oid asn1.ObjectIdentifier, v string) []pki.Attr { return []pki.Attr{{OID: oid, Value: v}} }
	var rawA, rawB []byte
	switch h.nameVariant {
	case "order":
		rawA = pki.RawName(a(pki.OidCN, "Hub CA n1"), a(pki.OidOU, "pki"), a(pki.OidO, "verif"), a(pki.OidC, "DE"))
		rawB = pki.RawName(a(pki.OidC, "DE"), a(pki.OidO, "verif"), a(pki.OidOU, "pki"), a(pki.OidCN, "Hub CA n1"))
	case "dc":
		rawA = pki.RawName(a(pki.OidDC, "example"), a(pki.OidDC, "verif"), a(pki.OidO, "verif"), a(pki.OidCN, "Hub CA n1"), a(pki.OidEmail, "ca@verif.example"))
		rawB = pki.RawName(a(pki.OidO, "verif"), a(pki.OidCN, "Hub CA n1"))
	case "twoou":
		rawA = pki.RawName(a(pki.OidO, "verif"), a(pki.OidOU, "east"), a(pki.OidOU, "west"), a(pki.OidCN, "Hub CA n1"))
		rawB = pki.RawName(a(pki.OidO, "verif"), []pki.Attr{{OID: pki.OidOU, Value: "east"}, {OID: pki.OidOU, Value: "west"}}, a(pki.OidCN, "Hub CA n1"))
	}
	nameB := "Hub CA n2"
	if rawB != nil {
		nameB = "Hub CA n1"
	}
	var rootA *pki.CA
	h.chainVariant = []string{"flat", "inter", "two"}[pick(3)]
	if h.chainVariant == "inter" {
		// the issuer of the leaves is an intermediate; the chain is leaf, intermediate, root
		rootA = pki.NewCA(pki.CAOpts{Name: "Hub Root above n1", Serial: 100})
		h.cas["A"] = pki.NewCA(pki.CAOpts{Name: "Hub CA n1", Alg: alg, RSAIndex: 0, Serial: 101, Parent: rootA, RawName: rawA})
	} else {
		h.cas["A"] = pki.NewCA(pki.CAOpts{Name: "Hub CA n1", Alg: alg, RSAIndex: 0, Serial: 101, RawName: rawA})
	}
	sOpts := pki.CAOpts{Name: "Hub CA n1", Alg: alg, RSAIndex: 1, Serial: 102, RawName: rawA}
	if pick(2) == 0 {
		sOpts.SKI = h.cas["A"].Cert.SubjectKeyId // sibling that also claims A's key identifier
	}
	h.cas["S"] = pki.NewCA(sOpts)
	h.cas["B"] = pki.NewCA(pki.CAOpts{Name: nameB, Serial: 103, RawName: rawB})
	var ocspURLs []string
	switch cfg.Ocsp {
	case "good", "revoked", "dyn", "dyncache":
		ocspURLs = []string{h.org.URL + pathOCSP}
	case "down":
		ocspURLs = []string{origin.ClosedPortURL() + pathOCSP}
	}
	// The model's location D is c1's distribution-point SET. It is one http URL, or that URL behind an ldap URL (unsupported
	// scheme, to be skipped), or behind a mirror that refuses every connection (to be given up for the next one): the set is
	// usable exactly when its http URL is, so the model does not change.
	h.cdpVariant = []string{"single", "ldap-first", "single", "mirror"}[pick(4)]
	cdp := []string{h.org.URL + h.pathD}
	switch h.cdpVariant {
	case "ldap-first":
		cdp = []string{"ldap://directory.example/cn=Hub%20CA%20n1,o=verif?certificateRevocationList;binary", cdp[0]}
	case "mirror":
		cdp = []string{origin.ClosedPortURL() + "/mirror/hub-ca-n1.crl", cdp[0]}
	}
	h.leaves["c1"] = h.cas["A"].Leaf(pki.LeafOpts{CN: "c1", Serial: shape.Serial(1), CDP: cdp, OCSP: ocspURLs, NoKeyUsage: pick(2) == 1})
	// "E": the end-entity signing CRLs with its own key (issuer name = its subject, AKI = its key identifier)
	h.cas["E"] = &pki.CA{Name: "c1", Key: h.leaves["c1"].Key, Cert: h.leaves["c1"].Cert, Alg: "ecdsa"}
	h.leaves["c2"] = h.cas["A"].Leaf(pki.LeafOpts{CN: "c2", Serial: shape.Serial(2)})
	// c3 names a distribution-point set without any usable member (the model's class "ldap"): an unsupported scheme, an http URL
	// that does not parse (crypto/x509 does not validate CDP URIs), or both
	unusable := [][]string{
		{"ldap://directory.example/cn=crl,o=verif?certificateRevocationList"},
		{h.org.URL + "/crl/Example%20CA%.crl"},
		{"http://127.0.0.1:80a/ca.crl", "ldap://directory.example/cn=crl,o=verif?certificateRevocationList"},
		{"http://[::1/ca.crl"},
	}[pick(4)]
	h.leaves["c3"] = h.cas["B"].Leaf(pki.LeafOpts{CN: "c3", Serial: shape.Serial(1), CDP: unusable})
	h.chains["c1"] = pki.Chain(h.leaves["c1"].Cert, h.cas["A"])
	h.chains["c2"] = pki.Chain(h.leaves["c2"].Cert, h.cas["A"])
	h.chains["c3"] = pki.Chain(h.leaves["c3"].Cert, h.cas["B"])
	switch h.chainVariant {
	case "inter":
		h.chains["c1"] = pki.Chain(h.leaves["c1"].Cert, h.cas["A"], rootA)
		h.chains["c2"] = pki.Chain(h.leaves["c2"].Cert, h.cas["A"], rootA)
	case "two":
		// a second verified chain through a cross-signing root
		cross := pki.NewCA(pki.CAOpts{Name: "Hub Cross Root", Serial: 104})
		for _, id := range []string{"c1", "c2"} {
			h.chains[id] = append(h.chains[id], []*x509.Certificate{h.leaves[id].Cert, h.cas["A"].Cert, cross.Cert})
		}
	}
	switch cfg.Ocsp {
	case "good", "revoked":
		h.respond(cfg.Ocsp)
	case "dyn", "dyncache":
		h.respond("good") // the specification's initial value of resp
	}
	wc := world.Cfg{Sig: cfg.Sig, CdpStrict: cfg.Strict, AiaStrict: cfg.Aia, Interval: "1h"}
	if cfg.Ocsp == "dyn" || cfg.Ocsp == "dyncache" {
		// the responder changes its behaviour: whether answers are remembered is part of the configuration
		if cfg.Ocsp == "dyncache" {
			wc.CacheDur = "1h"
		}
	} else if pick(3) != 0 {
		// the responder of a configuration never changes its mind, so caching its answers is invisible to the model: two worlds
		// in three run with the OCSP cache on (whatever else a verdict is made of must not leak into it)
		wc.CacheDur = "1h"
	}
	if cfg.Mode != "unset" {
		wc.Mode = cfg.Mode
	}
	if cfg.Disk {
		wc.Storage = "disk"
	} else {
		wc.Storage = "memory"
	}
	if cfg.Fetch == "actively" {
		wc.Fetch = "fetch_actively"
	} else {
		wc.Fetch = "fetch_background"
	}
	w, err := world.New(wc)
	if err != nil {
		return nil, err
	}
	h.w = w
	if cfg.TrustA {
		p := filepath.Join(w.Sandbox, "trustA.pem")
		os.WriteFile(p, pki.PEMCert(h.cas["A"].Cert), 0o644)
		w.Cfg.Trusted = []string{p}
	}
	switch cfg.Conf {
	case "url":
		w.Cfg.CRLUrls = []string{h.org.URL + h.pathU}
	case "file":
		h.uFile = filepath.Join(w.Sandbox, "configured.crl")
		w.Cfg.CRLFiles = []string{h.uFile}
	}
	h.hooks = world.NewHooks()
	h.hooks.LogOn = true // the hook events of every walk are checked against CrlRepo.tla (hooktrace.go)
	h.hooks.Install()
	h.hooks.BlockForced()
	w.Hooks = h.hooks
	world.FlushOCSPCache()
	return h, nil
}

// applyCfg switches the policy options for the next Provision (a restart with a changed configuration).
func (h *hubWorld) applyCfg(cfg HubCfg) {
	h.cfg = cfg
	h.w.Cfg.Sig = cfg.Sig
	h.w.Cfg.CdpStrict = cfg.Strict
	h.w.Cfg.AiaStrict = cfg.Aia
	if cfg.Fetch == "actively" {
		h.w.Cfg.Fetch = "fetch_actively"
	} else {
		h.w.Cfg.Fetch = "fetch_background"
	}
	h.w.Cfg.Trusted = nil
	if cfg.TrustA {
		p := filepath.Join(h.w.Sandbox, "trustA.pem")
		os.WriteFile(p, pki.PEMCert(h.cas["A"].Cert), 0o644)
		h.w.Cfg.Trusted = []string{p}
	}
}

func (h *hubWorld) destroy() {
	if h.hooks != nil {
		// a parked background update is let go against a fast-failing origin (an unreachable one would cost the retry loop)
		if h.hooks.ForcedParked() > 0 {
			h.org.SetBody(h.pathD, []byte("gone"))
			h.org.SetBody(h.pathU, []byte("gone"))
		}
		h.hooks.ReleaseForced(10 * time.Second)
	}
	if h.w != nil && !h.poisoned {
		func() {
			defer func() { recover() }()
			h.w.Destroy()
		}()
	} else if h.w != nil {
		h.w.V = nil
		os.RemoveAll(h.w.Sandbox)
	}
	h.org.Close()
	world.Uninstall()
}

// publish makes location l serve the concrete instance of abstract document d.
func (h *hubWorld) publish(l string, d hubDoc) {
	h.lastDoc[l] = d
	var body []byte
	kind := "body"
	switch d.Q {
	case "down":
		kind = "hangup"
	case "garbage":
		valid := BuildCRL(CRLSpec{Signer: h.cas["A"], Listed: []*big.Int{h.shape.Serial(1)}, Number: 1}, h.shape)
		body = h.shape.Garbage(valid, h.rng)
	default:
		// a CA does not issue a new CRL for every fetch: in half of the worlds a document that is published again right after
		// itself (at this location, or while the other location serves it) is the SAME bytes, not a re-issue
		if h.sameBytes {
			for _, from := range []string{l, map[string]string{"D": "U", "U": "D"}[l]} {
				if prev, ok := h.lastValid[from]; ok && prev.doc.Signer == d.Signer && prev.doc.Q == d.Q && fmt.Sprint(prev.doc.Keys) == fmt.Sprint(d.Keys) {
					body = prev.body
				}
			}
		}
		if body != nil {
			if os.Getenv("VERIF_DEBUG") != "" {
				fmt.Fprintf(os.Stderr, "SAMEBYTES loc=%s doc=%+v cfg=%s\n", l, d, h.cfg)
			}
			break
		}
		h.number++
		var listed, avoid []*big.Int
		for _, abs := range []int{1, 2} {
			in := false
			for _, k := range d.Keys {
				if k == abs {
					in = true
				}
			}
			if in {
				listed = append(listed, h.shape.Serial(abs))
			} else {
				avoid = append(avoid, h.shape.Serial(abs))
			}
		}
		sh := h.shape
		if d.Signer == "E" {
			sh.Num = "absent" // crypto/x509 refuses to sign a CRL with a non-CA certificate: rendered by derbuild
		}
		spec := CRLSpec{Signer: h.cas[d.Signer], Listed: listed, Avoid: avoid, CritExt: d.Q == "critext", Number: h.number}
		if d.Signer == "B" {
			spec.ForeignIssuerRaw = h.cas["A"].Cert.RawSubject
		}
		// an unusual authorityKeyIdentifier only where the model does not expect the signer to be resolved through it: signature
		// mode none (nothing is resolved), or verify_log with a signer that is not at hand anyway
		spec.OddAKI = h.cfg.Sig == "none" || (h.cfg.Sig == "verify_log" && d.Signer != "A")
		if d.Signer != "A" {
			// whoever else signs picks its numbers freely: far ahead of the issuer's own sequence, so that nothing which such a list
			// leaves behind (accepted or rejected) can make the issuer's next list look old
			spec.Number += 100000
		}
		body = BuildCRL(spec, sh)
	}
	if d.Q == "valid" || d.Q == "critext" {
		h.lastValid[l] = servedDoc{d, body}
	} else {
		delete(h.lastValid, l)
	}
	if l == "U" && h.cfg.Conf == "file" {
		if d.Q == "down" {
			os.Remove(h.uFile)
		} else {
			os.WriteFile(h.uFile, body, 0o644)
		}
		return
	}
	path := h.pathD
	if l == "U" {
		path = h.pathU
	}
	if d.Q == "garbage" {
		h.garbageN++
	}
	if d.Q == "garbage" && h.garbageN%2 == 0 {
		// what a CRL server that is out of order usually answers: an error status with an error page as body
		h.org.Set(path, origin.Behaviour{Kind: "status", Code: []int{503, 404, 500}[(h.garbageN/2)%3], Body: append([]byte("<html><body><h1>Service Unavailable</h1>"), body...)})
		return
	}
	h.org.Set(path, origin.Behaviour{Kind: kind, Body: body})
}

func (h *hubWorld) hits(l string) int {
	if l == "D" {
		return h.org.Hits(h.pathD)
	}
	return h.org.Hits(h.pathU)
}

// realLoaded maps repository entries to the model's locations.
func (h *hubWorld) realLoaded() map[string]bool {
	out := map[string]bool{"D": false, "U": false}
	if h.w.V == nil {
		return out
	}
	states := h.w.EntryStates()
	for id, st := range states {
		loc := ""
		for l, known := range h.idOf {
			if known == id {
				loc = l
			}
		}
		if loc == "" {
			// learn: the configured location is the only one present right after Provision
			if _, ok := h.idOf["U"]; !ok && h.cfg.Conf != "none" && h.cfg.CrlOn() {
				loc = "U"
			} else {
				loc = "D"
			}
			h.idOf[loc] = id
		}
		out[loc] = st[0] && st[1]
	}
	return out
}

type hubStep struct {
	Op     json.RawMessage `json:"op"`
	Expect json.RawMessage `json:"expect"`
	Real   map[string]any  `json:"real,omitempty"`
}

// hubObs is what the predicates see for one executed step.
type hubObs struct {
	// Refetched: a pass that did not contact a location which the model's pass fetches was run once more: hits of that second pass
	// (nil when the first pass fetched everything). "Not fetched" is only claimed for a location that BOTH passes left alone.
	Refetched      map[string]int
	Dims           map[string]any // concretisation dimensions of the world (for the replay record)
	Cfg            HubCfg
	Op             []any
	Exp            hubExpect
	Verdict        string // real verdict (handshake)
	Err            string
	ProvOK         bool
	ProvErr        string
	Loaded         map[string]bool
	Fetched        map[string]int
	SawRej         bool
	OcspHits       int
	WorkDirEntries int
	ChainVariant   string
	Cdp            string
	Hist           []hubStep
	Shape          Shape
}

type hubPredicate func(c *vk.Ctx, o *hubObs)

func certCdp(id string) string {
	switch id {
	case "c1":
		return "D"
	case "c3":
		return "ldap"
	}
	return "none"
}

func parseDoc(v any) hubDoc {
	b, _ := json.Marshal(v)
	var d hubDoc
	json.Unmarshal(b, &d)
	return d
}

// runHubWalk replays one walk of the Revocation graph on a fresh real validator.
// It returns the number of edges executed before the walk ended (drift ends a walk early).
// hubGoneUnfetched: in the walks that run while it is set, the origin of D is down at every handshake in which the model
// fetches nothing from it (set by guided parts that run one walk at a time)
var hubGoneUnfetched atomic.Bool

func runHubWalk(c *vk.Ctx, cfg HubCfg, walk []*graph.Edge, shape Shape, seed int64, preds ...hubPredicate) (done int) {
	h, err := newHubWorld(cfg, shape, seed)
	if err != nil {
		c.Infra("hub world: %v", err)
	}
	defer h.destroy()
	defer func() {
		if !h.poisoned {
			hookStats.add(c, cfg.Disk, h.hooks.Events(), func() string { return cfg.String() })
		}
	}()
	// between any two steps other certificates may be presented: handshakes that change nothing in the specification (a
	// certificate without distribution points, one whose distribution points are unusable, no chain at all) are woven into the
	// walk - whatever they leave behind in the code must not change what the following steps do
	extra := 0 // woven steps are not charged to the caller's edge budget
	if len(walk) > 2 {
		wr := rand.New(rand.NewSource(seed*31 + 5))
		var woven []*graph.Edge
		loopsAt := func(state string) []*graph.Edge {
			var loops []*graph.Edge
			for _, g := range hubGraphs {
				for _, o := range g.Out[state] {
					if o.To == o.From && strings.HasPrefix(opName(o), "handshake") {
						loops = append(loops, o)
					}
				}
			}
			return loops
		}
		for _, e := range walk {
			// around a pass (refresh, background load) all of them, before and after, in half of the cases: a pass works with
			// what earlier handshakes left in the entries
			pass := opName(e) == "refresh" || opName(e) == "bgload"
			around := pass && wr.Intn(2) == 0
			if around {
				woven = append(woven, loopsAt(e.From)...)
				extra += len(loopsAt(e.From))
			}
			woven = append(woven, e)
			if around {
				woven = append(woven, loopsAt(e.To)...)
				extra += len(loopsAt(e.To))
				continue
			}
			if wr.Intn(3) != 0 {
				continue
			}
			if loops := loopsAt(e.To); len(loops) > 0 {
				woven = append(woven, loops[wr.Intn(len(loops))])
				extra++
			}
		}
		walk = woven
	}
	defer func() {
		if n := len(walk); n > 0 && extra > 0 {
			done -= done * extra / n
		}
	}()
	var hist []hubStep
	for _, e := range walk {
		var op []any
		json.Unmarshal(e.Op, &op)
		var exp hubExpect
		json.Unmarshal(e.Expect, &exp)
		var toSt struct {
			Cfg HubCfg `json:"cfg"`
		}
		json.Unmarshal([]byte(e.To), &toSt)
		if toSt.Cfg.Mode != "" {
			cfg = toSt.Cfg
		}
		obs := &hubObs{Cfg: cfg, Op: op, Exp: exp, Shape: shape}
		before := map[string]int{"D": h.hits("D"), "U": h.hits("U")}
		ocspBefore := h.org.Hits(pathOCSP)
		name := op[0].(string)
		real := map[string]any{}
		switch name {
		case "provision":
			d := parseDoc(op[1])
			if cfg.Conf != "none" {
				h.publish("U", d)
			}
			err := h.w.Provision()
			obs.ProvOK = err == nil
			if err != nil {
				obs.ProvErr = err.Error()
			}
			real["ok"] = obs.ProvOK
			real["err"] = obs.ProvErr
		case "handshake":
			cert := op[1].(string)
			obs.Cdp = certCdp(cert)
			if exp.Fetch["D"] > 0 {
				h.publish("D", parseDoc(op[2]))
			} else if hubGoneUnfetched.Load() {
				// what the origin serves is of no concern to a step that fetches nothing: it is taken down
				h.publish("D", hubDoc{Signer: "A", Q: "down"})
				real["origin_taken_down"] = true
			}
			r := h.w.HandshakeTimeout(h.chains[cert], 30*time.Second)
			obs.Verdict, obs.Err = r.Verdict, r.Err
			if r.Verdict == "hang" {
				h.poisoned = true
			}
			if r.Panic != "" {
				obs.Err = "panic: " + r.Panic
			}
			real["verdict"] = r.Verdict
			real["err"] = obs.Err
			if cfg.Fetch == "background" && cfg.CrlOn() {
				// a forced update spawned by this handshake must be parked before the next step (deterministic schedule)
				var to struct {
					Bg bool `json:"bg"`
				}
				json.Unmarshal([]byte(e.To), &to)
				var from struct {
					Bg bool `json:"bg"`
				}
				json.Unmarshal([]byte(e.From), &from)
				if to.Bg && !from.Bg {
					h.hooks.WaitForcedParked(1, 5*time.Second)
				}
			}
		case "refresh", "bgload":
			o, _ := op[1].(map[string]any)
			for _, l := range []string{"D", "U"} {
				if exp.Fetch[l] > 0 {
					h.publish(l, parseDoc(o[l]))
				}
			}
			if name == "refresh" {
				passDone := make(chan struct{})
				go func() { defer close(passDone); h.w.RefreshAll() }()
				select {
				case <-passDone:
				case <-time.After(90 * time.Second):
					// nothing of the harness holds a pass back in these walks: the pass is stuck in the code
					h.poisoned = true
					if c.ID == "C15" {
						c.Violation("refresh-pass-never-returns", "a refresh pass did not return within 90 s (no gate of the harness is closed in this walk): the CRLs of this process are not fetched again", map[string]any{"cfg": cfg, "steps": hist})
					}
					c.Drift("pass-never-returned")
					return done
				}
			} else {
				if !h.hooks.ReleaseForced(60 * time.Second) {
					c.Drift("bgload-timeout")
				}
			}
		case "respond":
			h.respond(op[1].(string))
		case "handshake-nochain":
			r := h.w.HandshakeTimeout(nil, 30*time.Second)
			obs.Verdict, obs.Err = r.Verdict, r.Err
			real["verdict"] = r.Verdict
		case "cleanup":
			if err := h.w.Cleanup(); err != nil {
				real["cleanup_err"] = err.Error()
			}
			if cfg.String() != h.cfg.String() {
				h.applyCfg(cfg) // the next instance is provisioned with other policy options
				real["new_cfg"] = cfg
			}
		}
		obs.Loaded = h.realLoaded()
		obs.Fetched = map[string]int{"D": h.hits("D") - before["D"], "U": h.hits("U") - before["U"]}
		obs.Dims = map[string]any{"chain": h.chainVariant, "cdp": h.cdpVariant, "names": h.nameVariant, "same_bytes": h.sameBytes, "path_d": h.pathD, "path_u": h.pathU, "walk_seed": seed, "origin_down_where_model_fetches_nothing": hubGoneUnfetched.Load()}
		if name == "refresh" && !h.poisoned {
			for _, l := range []string{"D", "U"} {
				if exp.Fetch[l] > 0 && obs.Fetched[l] == 0 && !(l == "U" && cfg.Conf == "file") {
					// once more, before anybody says "this CRL is no longer fetched"
					b2 := map[string]int{"D": h.hits("D"), "U": h.hits("U")}
					h.w.RefreshAll()
					obs.Refetched = map[string]int{"D": h.hits("D") - b2["D"], "U": h.hits("U") - b2["U"]}
					real["refetched_by_a_second_pass"] = obs.Refetched
					break
				}
			}
		}
		obs.SawRej = h.sawRej
		obs.OcspHits = h.org.Hits(pathOCSP) - ocspBefore
		obs.ChainVariant = h.chainVariant
		if ents, err := os.ReadDir(h.w.WorkDir); err == nil {
			obs.WorkDirEntries = len(ents)
		}
		real["loaded"] = obs.Loaded
		real["fetched"] = obs.Fetched
		hist = append(hist, hubStep{Op: e.Op, Expect: e.Expect, Real: real})
		obs.Hist = hist
		c.Eval(cfg.String() + "|" + e.From + "|" + string(e.Op))
		done++
		for _, p := range preds {
			p(c, obs)
		}
		if h.poisoned {
			c.Drift("call-never-returned")
			return done
		}
		// did this step fetch a document that policy rejects? (context for signatures)
		for _, l := range []string{"D", "U"} {
			if exp.Fetch[l] > 0 && !exp.Inforce[l] {
				h.sawRej = true
			}
		}
		// conformance: model and code must agree on the observables, otherwise the rest of the walk is meaningless
		if drift := hubDrift(cfg, name, obs); drift != "" {
			c.Drift(drift)
			if os.Getenv("VERIF_DEBUG") != "" {
				b, _ := json.Marshal(map[string]any{"cfg": cfg, "shape": shape, "chain": h.chainVariant, "cdp": h.cdpVariant, "names": h.nameVariant, "steps": hist})
				fmt.Fprintf(os.Stderr, "HUBDRIFT %s %s\n", drift, b)
			}
			// (not when the code fetched LESS than the model in this step: then the ghost state is ahead of anything the code has
			// seen - it may rightly still hold the previous list - and says nothing about what must hold now)
			behind := false
			for _, l := range []string{"D", "U"} {
				if obs.Exp.Fetch[l] > 0 && obs.Fetched[l] == 0 && !(l == "U" && cfg.Conf == "file") {
					behind = true
				}
			}
			if divergencePreds[c.ID] && !h.poisoned && !behind && (strings.HasPrefix(drift, "loaded-") || strings.HasPrefix(drift, "fetch-")) {
				done += hubAfterDivergence(c, h, cfg, e, shape, hist, preds)
			}
			return done
		}
		if c.Violations() > 6 {
			return done
		}
	}
	return done
}

// divergencePreds: the properties whose violation predicate reads nothing but the requirement layer of the model (which list
// policy says is in force where) and the real verdict. For them a walk that has left the model's mechanism state is not simply
// abandoned (see hubAfterDivergence).
var divergencePreds = map[string]bool{"C01": true, "C10": true, "C11": true, "C15": true}

// hubAfterDivergence: the code's state no longer matches the model's (for example an entry that the model keeps is gone). That
// alone is drift, not a verdict. But if every origin currently serves either exactly the document that policy says is in force
// there or nothing usable, then no correct implementation can have moved to another list, whenever it fetches: the requirement
// layer of the model state still says what must hold. Under that condition the three certificates are presented once more,
// without publishing anything, and the property's predicate judges the real verdicts.
func hubAfterDivergence(c *vk.Ctx, h *hubWorld, cfg HubCfg, last *graph.Edge, shape Shape, hist []hubStep, preds []hubPredicate) int {
	var outs []*graph.Edge
	for _, g := range hubGraphs {
		if o := g.Out[last.To]; len(o) > 0 {
			outs = o
		}
	}
	dbg := func(f string, a ...any) {
		if os.Getenv("VERIF_DEBUG") != "" {
			fmt.Fprintf(os.Stderr, "DIVERGED "+f+"\n", a...)
		}
	}
	if len(outs) == 0 {
		dbg("no out edges for the model state")
		return 0
	}
	var st struct {
		Accepted map[string]hubDoc `json:"accepted"`
	}
	if json.Unmarshal([]byte(last.To), &st) != nil || st.Accepted == nil {
		return 0
	}
	same := func(a, b hubDoc) bool {
		ka, kb := append([]int(nil), a.Keys...), append([]int(nil), b.Keys...)
		sort.Ints(ka)
		sort.Ints(kb)
		return a.Signer == b.Signer && a.Q == b.Q && fmt.Sprint(ka) == fmt.Sprint(kb)
	}
	for _, l := range []string{"D", "U"} {
		served, ok := h.lastDoc[l]
		if !ok || served.Q == "down" || served.Q == "garbage" {
			continue
		}
		if !same(served, st.Accepted[l]) {
			dbg("origin %s serves %+v, in force is %+v", l, served, st.Accepted[l])
			return 0 // the origin offers another document: an implementation may legitimately hold it
		}
	}
	n := 0
	for _, cert := range []string{"c1", "c2", "c3"} {
		var pick *graph.Edge
		for _, e := range outs {
			var op []any
			json.Unmarshal(e.Op, &op)
			if op[0] != "handshake" || op[1] != cert {
				continue
			}
			served, ok := h.lastDoc["D"]
			if !ok {
				served = hubDoc{Signer: "A", Q: "down"}
			}
			var ex hubExpect
			json.Unmarshal(e.Expect, &ex)
			// (a handshake that fetches nothing in the model carries no document; otherwise take the edge with what D serves)
			if ex.Fetch["D"] == 0 || (len(op) > 2 && same(parseDoc(op[2]), served)) {
				pick = e
			}
		}
		if pick == nil {
			dbg("no handshake edge of %s with the served document", cert)
			continue
		}
		var exp hubExpect
		json.Unmarshal(pick.Expect, &exp)
		var op []any
		json.Unmarshal(pick.Op, &op)
		r := h.w.HandshakeTimeout(h.chains[cert], 30*time.Second)
		if r.Verdict == "hang" {
			h.poisoned = true
			return n
		}
		obs := &hubObs{Cfg: cfg, Op: op, Exp: exp, Shape: shape, Verdict: r.Verdict, Err: r.Err, Cdp: certCdp(cert), Loaded: h.realLoaded(), SawRej: h.sawRej, ChainVariant: h.chainVariant}
		hist = append(hist, hubStep{Op: pick.Op, Expect: pick.Expect, Real: map[string]any{"verdict": r.Verdict, "err": r.Err, "note": "presented after the code's state had left the model's; the origins serve only the list in force or nothing usable"}})
		obs.Hist = hist
		c.Eval(cfg.String() + "|diverged|" + last.To + "|" + string(pick.Op))
		n++
		for _, p := range preds {
			p(c, obs)
		}
	}
	return n
}

// respond sets what c1's OCSP responder does from now on: an authentic good / revoked answer, or no usable answer at all.
func (h *hubWorld) respond(kind string) {
	if kind == "down" {
		h.org.Set(pathOCSP, origin.Behaviour{Kind: "status", Code: 500, Body: []byte("internal server error\n")})
		return
	}
	st := ocsp.Good
	if kind == "revoked" {
		st = ocsp.Revoked
	}
	a := h.cas["A"]
	resp := pki.OCSPResponse(pki.OCSPOpts{Status: st, Serial: h.leaves["c1"].Cert.SerialNumber, Issuer: a.Cert, Signer: a, SignerCert: a.Cert, ThisUpdate: time.Now().Add(-time.Minute)})
	h.org.Set(pathOCSP, origin.Behaviour{Kind: "func", Func: func([]byte) (int, []byte) { return 200, resp }})
}

// hubDrift compares the projection of the real state with the model; "" if they agree.
func hubDrift(cfg HubCfg, name string, o *hubObs) string {
	switch name {
	case "provision":
		if o.ProvOK != o.Exp.OK {
			return "provision-outcome"
		}
		if !o.ProvOK {
			return ""
		}
	case "handshake", "handshake-nochain":
		if o.Verdict != o.Exp.Verdict {
			return "verdict:" + o.Exp.Verdict + "->" + o.Verdict
		}
	}
	if name != "cleanup" {
		for _, l := range []string{"D", "U"} {
			if o.Loaded[l] != o.Exp.Loaded[l] {
				return "loaded-" + l
			}
		}
	}
	for _, l := range []string{"D", "U"} {
		if l == "U" && cfg.Conf == "file" {
			continue
		}
		exp, got := o.Exp.Fetch[l], o.Fetched[l]
		if (exp > 0) != (got > 0) {
			return "fetch-" + l
		}
	}
	return ""
}

// hubReplay is the record written for a violation.
func hubReplay(o *hubObs) map[string]any {
	return map[string]any{"cfg": o.Cfg, "shape": o.Shape, "world": o.Dims, "steps": o.Hist}
}

// ---------------------------------------------------------------------------------------------
// walk scheduling shared by the hub checks
// ---------------------------------------------------------------------------------------------

// isDownEdge: the edge makes the real code run into an unreachable origin (5 x 500 ms of retries).
func isDownEdge(e *graph.Edge) bool {
	var op []any
	json.Unmarshal(e.Op, &op)
	var exp hubExpect
	json.Unmarshal(e.Expect, &exp)
	switch op[0].(string) {
	case "handshake":
		return exp.Fetch["D"] > 0 && parseDoc(op[2]).Q == "down"
	case "refresh", "bgload":
		o, _ := op[1].(map[string]any)
		for _, l := range []string{"D", "U"} {
			if exp.Fetch[l] > 0 && parseDoc(o[l]).Q == "down" {
				return true
			}
		}
	}
	return false
}

// pruneDown removes all but keep "down" edges (chosen by rng) so that a tour stays fast.
func pruneDown(g *graph.Graph, keep int, rng *rand.Rand) *graph.Graph {
	var down []*graph.Edge
	for _, e := range g.Edges {
		if isDownEdge(e) {
			down = append(down, e)
		}
	}
	rng.Shuffle(len(down), func(i, j int) { down[i], down[j] = down[j], down[i] })
	drop := map[*graph.Edge]bool{}
	for i, e := range down {
		if i >= keep {
			drop[e] = true
		}
	}
	ng := graph.New()
	for _, e := range g.Edges {
		if !drop[e] {
			ng.AddPayload(e.Raw)
		}
	}
	ng.Finish(g.Init)
	return ng
}

// allDownEdges: since the retry pauses are paced (world.FastRetries) an unreachable origin costs no more than any other document
const allDownEdges = 1 << 30

// hubCampaign: export the graph of each configuration and replay walks until the edge budget is used.
func hubCampaign(c *vk.Ctx, cfgs []HubCfg, edgeBudget int, downKeep int, walkLen int, preds ...hubPredicate) {
	rng := rand.New(rand.NewSource(c.Seed))
	var states, trans int64
	walks := 0
	perCfg := edgeBudget / len(cfgs)
	for ci, cfg := range cfgs {
		g, res := exportHubGraph(c, cfg, nil)
		states += res.Distinct
		trans += int64(len(g.Edges))
		pg := pruneDown(g, downKeep, rng)
		tour := pg.Tour(walkLen, rng)
		rng.Shuffle(len(tour), func(i, j int) { tour[i], tour[j] = tour[j], tour[i] })
		used := 0
		for wi, w := range tour {
			if used >= perCfg || c.Violations() > 6 {
				break
			}
			shape := RandomShape(rng)
			n := runHubWalk(c, cfg, w, shape, c.Seed*1000+int64(ci*100+wi), preds...)
			used += n
			walks++
			if wi == 0 && ci < 3 {
				c.Sample(map[string]any{"cfg": cfg, "shape": shape, "ops": opsOf(w, 6), "walk_len": len(w)})
			}
		}
	}
	c.Add("states", states)
	c.Add("transitions", trans)
	c.Add("traces_validated_against_impl", int64(walks))
}

// docsOfEdge returns the documents that an edge really fetches according to the model (handshake: D; refresh / bgload: D and
// U; provision: U). The document parameter of a step that fetches nothing is a placeholder and does not count.
func docsOfEdge(e *graph.Edge) []hubDoc {
	var op []any
	json.Unmarshal(e.Op, &op)
	var exp hubExpect
	json.Unmarshal(e.Expect, &exp)
	var out []hubDoc
	switch op[0].(string) {
	case "handshake":
		if len(op) > 2 && exp.Fetch["D"] > 0 {
			out = append(out, parseDoc(op[2]))
		}
	case "refresh", "bgload":
		if o, ok := op[1].(map[string]any); ok {
			for _, l := range []string{"D", "U"} {
				if d, ok := o[l]; ok && exp.Fetch[l] > 0 {
					out = append(out, parseDoc(d))
				}
			}
		}
	case "provision":
		if len(op) > 1 && exp.Fetch["U"] > 0 {
			out = append(out, parseDoc(op[1]))
		}
	}
	return out
}

// hubFocus replays tours of the sub-graph whose served documents all satisfy keep, with shapes drawn by shapeFn: a way to spend a
// budget on one clause of a property (a class of documents x a class of byte shapes) instead of on the whole graph.
func hubFocus(c *vk.Ctx, cfgs []HubCfg, edgeBudget int, keep func(hubDoc) bool, shapeFn func(*rand.Rand) Shape, preds ...hubPredicate) {
	rng := rand.New(rand.NewSource(c.Seed + 77))
	walks := 0
	perCfg := edgeBudget / len(cfgs)
	for ci, cfg := range cfgs {
		g, _ := exportHubGraph(c, cfg, nil)
		ng := graph.New()
		for _, e := range g.Edges {
			ok := true
			for _, d := range docsOfEdge(e) {
				if !keep(d) {
					ok = false
				}
			}
			if ok {
				ng.AddPayload(e.Raw)
			}
		}
		ng.Finish(g.Init)
		if len(ng.Out[ng.Init]) == 0 {
			c.Infra("hubFocus: the filtered graph of %s has no edge out of its initial state", cfg)
		}
		tour := ng.Tour(40, rng)
		if os.Getenv("VERIF_DEBUG") != "" {
			fmt.Fprintf(os.Stderr, "HUBFOCUS cfg=%s edges=%d kept=%d walks=%d out(init)=%d\n", cfg, len(g.Edges), len(ng.Edges), len(tour), len(ng.Out[ng.Init]))
		}
		rng.Shuffle(len(tour), func(i, j int) { tour[i], tour[j] = tour[j], tour[i] })
		used := 0
		for wi, w := range tour {
			if used >= perCfg || c.Violations() > 6 {
				break
			}
			used += runHubWalk(c, cfg, w, shapeFn(rng), c.Seed*1000+int64(5000+ci*100+wi), preds...)
			walks++
		}
	}
	c.Add("traces_validated_against_impl", int64(walks))
}
