package checks

import (
	"fmt"
	"os"
	"time"

	"verif/harness/vk"
	"verif/harness/world"
)

// c08ReadersInside is the invariant SwapLocked of CrlRepo.tla seen from the lookups: while a lookup is inside the live store the
// refresher must not begin the swap (both backends replace the store in place, so the entry lock is the only thing between a lookup
// and an empty, half-copied or closed store). The lookups are parked inside the store by the store wrapper, the refresher is stepped
// to the swap: it has to wait for them.
func c08ReadersInside(c *vk.Ctx) int {
	n := 0
	for _, disk := range []bool{true, false} {
		for _, sig := range []string{"none", "verify"} {
			c08ReadersInsideOne(c, disk, sig)
			n++
		}
	}
	return n
}

func c08ReadersInsideOne(c *vk.Ctx, disk bool, sig string) {
	rw, err := newRepoWorld(disk, sig, false, c.Seed)
	if err != nil {
		c.Infra("world: %v", err)
	}
	defer rw.close()
	rep := map[string]any{"backend": backendName(disk), "sig": sig, "scenario": "lookups parked inside the live store, then a refresh with a new acceptable list"}
	rw.serve("good", []string{"x", "z"})
	if r := rw.w.HandshakeTimeout(rw.chains["driver"], 30*time.Second); r.Verdict != "accept" {
		c.Drift("c08-inside-first-load")
		return
	}
	if res, _ := rw.probe(10 * time.Second); fmt.Sprint(listedOfOrErr(res)) != "xz" {
		c.Drift("c08-inside-first-list")
		return
	}
	rw.serve("good", []string{"y", "z"})
	rw.fault.hold()
	released := false
	defer func() {
		if !released {
			rw.fault.release()
		}
	}()
	type pr struct {
		name string
		r    world.Result
	}
	results := make(chan pr, 3)
	for _, name := range []string{"x", "y", "z"} {
		name := name
		go func() { results <- pr{name, rw.w.Handshake(rw.chains[name])} }()
	}
	deadline := time.Now().Add(10 * time.Second)
	for rw.fault.insideNow() < 3 && time.Now().Before(deadline) {
		time.Sleep(2 * time.Millisecond)
	}
	if rw.fault.insideNow() < 3 {
		c.Drift("c08-inside-lookups-did-not-reach-store")
		return
	}
	done := make(chan struct{})
	rw.step.mu.Lock()
	rw.step.active = true
	rw.step.mu.Unlock()
	defer func() {
		rw.step.mu.Lock()
		rw.step.active = false
		rw.step.mu.Unlock()
	}()
	go func() {
		defer close(done)
		rw.w.RefreshAll()
	}()
	c.Eval(fmt.Sprintf("inside|%v|%s", disk, sig))
	// Whatever the refresher does, it must not get hold of the entry (write lock, swap) while the three lookups are inside the
	// store. It may pass hooks that are outside the lock; at the first write lock it has to wait (the real code already waits at
	// the beginning, where it reads the entry's loaded flag under the write lock).
	gotLock := ""
	waiting := false
	firstStep := true
	for !waiting && gotLock == "" {
		if !firstStep {
			select {
			case rw.step.resume <- struct{}{}:
			case <-time.After(10 * time.Second):
				c.Drift("c08-inside-refresher-not-at-a-gate")
				return
			}
		}
		firstStep = false
		select {
		case at := <-rw.step.parked:
			if os.Getenv("VERIF_DEBUG") != "" {
				fmt.Fprintln(os.Stderr, "C08INSIDE refresher at", at)
			}
			if holdsWriteLock(at, false) {
				gotLock = at
			}
		case <-time.After(400 * time.Millisecond):
			waiting = true
		}
	}
	if gotLock != "" {
		c.Violation(fmt.Sprintf("swap-while-lookups-inside-store:%s", backendName(disk)),
			fmt.Sprintf("the refresher reached %s while %d lookups were inside the live store: the swap is not atomic for them (they can see an empty, partly copied or closed store)", gotLock, rw.fault.insideNow()), rep)
	}
	rw.fault.release()
	released = true
	old := map[string]string{"x": "revoked", "y": "accept", "z": "revoked"}
	for i := 0; i < 3; i++ {
		select {
		case p := <-results:
			if gotLock == "" && p.r.Verdict != old[p.name] {
				c.Violation(fmt.Sprintf("lookup-inside-store-not-previous-list:%s", backendName(disk)),
					fmt.Sprintf("lookup %s entered the store before the swap and answered %q (%s); the previous list says %q", p.name, p.r.Verdict, p.r.Err, old[p.name]), rep)
			}
		case <-time.After(30 * time.Second):
			c.Violation("lookup-never-returned:"+backendName(disk), "a lookup that was inside the store when a refresh began did not return", rep)
			return
		}
	}
	if waiting {
		select {
		case <-rw.step.parked:
		case <-time.After(30 * time.Second):
			c.Violation("refresh-never-got-lock:"+backendName(disk), "the refresher did not go on after all lookups had left the store", rep)
			return
		}
	}
	// the refresher is parked at a gate: walk it to the end
	for finished := false; !finished; {
		select {
		case rw.step.resume <- struct{}{}:
		case <-done:
			finished = true
			continue
		case <-time.After(60 * time.Second):
			c.Drift("c08-inside-refresher-stuck")
			return
		}
		select {
		case <-rw.step.parked:
		case <-done:
			finished = true
		case <-time.After(60 * time.Second):
			c.Drift("c08-inside-refresher-stuck")
			return
		}
	}
	if res, _ := rw.probe(10 * time.Second); fmt.Sprint(listedOfOrErr(res)) != "yz" {
		c.Violation("refresh-without-effect-after-waiting:"+backendName(disk), fmt.Sprintf("after the swap the lookups answer %v, the new list is {y, z}", listedOfOrErr(res)), rep)
	}
	if ov := rw.fault.overlaps; len(ov) > 0 && gotLock != "" {
		rep["overlaps"] = ov
	}
}

func listedOfOrErr(res map[string]probeResult) string {
	s, ok := listedOf(res)
	if !ok {
		return fmt.Sprintf("error:%v", res)
	}
	return s
}
