package checks

import (
	"fmt"
	"math/big"
	"os"
	"path/filepath"
	"strings"
	"sync"
	"sync/atomic"
	"time"

	"verif/harness/origin"
	"verif/harness/vk"
	"verif/harness/world"
)

// c08ReadersInside is the invariant SwapLocked of CrlRepo.tla seen from the lookups: while a lookup is inside the live store the
// refresher must not begin the swap (both backends replace the store in place, so the entry lock is the only thing between a lookup
// and an empty, half-copied or closed store). The lookups are parked inside the store by the store wrapper, the refresher is stepped
// to the swap: it has to wait for them.
func c08ReadersInside(c *vk.Ctx) int {
	n := 0
	for _, disk := range []bool{true, false} {
		for _, sig := range []string{"none", "verify"} {
			c08ReadersInsideOne(c, disk, sig)
			n++
		}
	}
	return n
}

func c08ReadersInsideOne(c *vk.Ctx, disk bool, sig string) {
	rw, err := newRepoWorld(disk, sig, false, c.Seed)
	if err != nil {
		c.Infra("world: %v", err)
	}
	defer rw.close()
	rep := map[string]any{"backend": backendName(disk), "sig": sig, "scenario": "lookups parked inside the live store, then a refresh with a new acceptable list"}
	rw.serve("good", []string{"x", "z"})
	if r := rw.w.HandshakeTimeout(rw.chains["driver"], 30*time.Second); r.Verdict != "accept" {
		c.Drift("c08-inside-first-load")
		return
	}
	if res, _ := rw.probe(10 * time.Second); fmt.Sprint(listedOfOrErr(res)) != "xz" {
		c.Drift("c08-inside-first-list")
		return
	}
	rw.serve("good", []string{"y", "z"})
	rw.fault.hold()
	released := false
	defer func() {
		if !released {
			rw.fault.release()
		}
	}()
	type pr struct {
		name string
		r    world.Result
	}
	results := make(chan pr, 3)
	for _, name := range []string{"x", "y", "z"} {
		name := name
		go func() { results <- pr{name, rw.w.Handshake(rw.chains[name])} }()
	}
	deadline := time.Now().Add(10 * time.Second)
	for rw.fault.insideNow() < 3 && time.Now().Before(deadline) {
		time.Sleep(2 * time.Millisecond)
	}
	if rw.fault.insideNow() < 3 {
		c.Drift("c08-inside-lookups-did-not-reach-store")
		return
	}
	done := make(chan struct{})
	rw.step.mu.Lock()
	rw.step.active = true
	rw.step.mu.Unlock()
	defer func() {
		rw.step.mu.Lock()
		rw.step.active = false
		rw.step.mu.Unlock()
	}()
	go func() {
		defer close(done)
		rw.w.RefreshAll()
	}()
	c.Eval(fmt.Sprintf("inside|%v|%s", disk, sig))
	// Whatever the refresher does, it must not get hold of the entry (write lock, swap) while the three lookups are inside the
	// store. It may pass hooks that are outside the lock; at the first write lock it has to wait (the real code already waits at
	// the beginning, where it reads the entry's loaded flag under the write lock).
	gotLock := ""
	waiting := false
	firstStep := true
	for !waiting && gotLock == "" {
		if !firstStep {
			select {
			case rw.step.resume <- struct{}{}:
			case <-time.After(10 * time.Second):
				c.Drift("c08-inside-refresher-not-at-a-gate")
				return
			}
		}
		firstStep = false
		select {
		case at := <-rw.step.parked:
			if os.Getenv("VERIF_DEBUG") != "" {
				fmt.Fprintln(os.Stderr, "C08INSIDE refresher at", at)
			}
			if holdsWriteLock(at, false) {
				gotLock = at
			}
		case <-time.After(400 * time.Millisecond):
			waiting = true
		}
	}
	if gotLock != "" {
		c.Violation(fmt.Sprintf("swap-while-lookups-inside-store:%s", backendName(disk)),
			fmt.Sprintf("the refresher reached %s while %d lookups were inside the live store: the swap is not atomic for them (they can see an empty, partly copied or closed store)", gotLock, rw.fault.insideNow()), rep)
	}
	rw.fault.release()
	released = true
	old := map[string]string{"x": "revoked", "y": "accept", "z": "revoked"}
	for i := 0; i < 3; i++ {
		select {
		case p := <-results:
			if gotLock == "" && p.r.Verdict != old[p.name] {
				c.Violation(fmt.Sprintf("lookup-inside-store-not-previous-list:%s", backendName(disk)),
					fmt.Sprintf("lookup %s entered the store before the swap and answered %q (%s); the previous list says %q", p.name, p.r.Verdict, p.r.Err, old[p.name]), rep)
			}
		case <-time.After(30 * time.Second):
			c.Violation("lookup-never-returned:"+backendName(disk), "a lookup that was inside the store when a refresh began did not return", rep)
			return
		}
	}
	if waiting {
		select {
		case <-rw.step.parked:
		case <-time.After(30 * time.Second):
			c.Violation("refresh-never-got-lock:"+backendName(disk), "the refresher did not go on after all lookups had left the store", rep)
			return
		}
	}
	// the refresher is parked at a gate: walk it to the end
	for finished := false; !finished; {
		select {
		case rw.step.resume <- struct{}{}:
		case <-done:
			finished = true
			continue
		case <-time.After(60 * time.Second):
			c.Drift("c08-inside-refresher-stuck")
			return
		}
		select {
		case <-rw.step.parked:
		case <-done:
			finished = true
		case <-time.After(60 * time.Second):
			c.Drift("c08-inside-refresher-stuck")
			return
		}
	}
	if res, _ := rw.probe(10 * time.Second); fmt.Sprint(listedOfOrErr(res)) != "yz" {
		c.Violation("refresh-without-effect-after-waiting:"+backendName(disk), fmt.Sprintf("after the swap the lookups answer %v, the new list is {y, z}", listedOfOrErr(res)), rep)
	}
	if ov := rw.fault.overlaps; len(ov) > 0 && gotLock != "" {
		rep["overlaps"] = ov
	}
}

func listedOfOrErr(res map[string]probeResult) string {
	s, ok := listedOf(res)
	if !ok {
		return fmt.Sprintf("error:%v", res)
	}
	return s
}

// staleBackgroundLoad: the other way in which two loaders can meet on one entry. A first load failed (garbage), so the entry is known
// and nothing is in force; a pass picks the location up and is kept inside its transfer of list N; the CA publishes N+1; a
// certificate that names the location is presented and its handshake loads N+1 (fetch_actively); then the pass's transfer
// completes. N was superseded before it ever arrived: it must not displace N+1.
func staleBackgroundLoad(c *vk.Ctx, prop string) int {
	n := 0
	for _, disk := range []bool{false, true} {
		if c.Violations() > 6 {
			break
		}
		rw, err := newRepoWorld(disk, []string{"verify", "none"}[int(c.Seed+int64(n))%2], false, c.Seed*59+int64(n))
		if err != nil {
			c.Infra("repo world: %v", err)
		}
		listN, listN1 := rw.build("good", []string{"x", "z"}), rw.build("good", []string{"y", "z"})
		var mu sync.Mutex
		reqs := 0
		setup := true
		gate, inGate := make(chan struct{}), make(chan struct{})
		rw.org.Set(pathRepo, origin.Behaviour{Kind: "func", Func: func([]byte) (int, []byte) {
			mu.Lock()
			if setup { // while the entry is being made known (however often the loader asks), the origin is out of order
				mu.Unlock()
				return 200, []byte("<html>maintenance</html>")
			}
			reqs++
			r := reqs + 1
			mu.Unlock()
			switch r {
			case 2:
				close(inGate)
				select {
				case <-gate:
				case <-time.After(60 * time.Second):
				}
				return 200, listN
			}
			return 200, listN1
		}})
		rep := map[string]any{"backend": backendName(disk), "signature_validation_mode": rw.w.Cfg.Sig}
		r0 := rw.w.HandshakeTimeout(rw.chains["driver"], 60*time.Second)
		rep["first_handshake"] = r0
		mu.Lock()
		setup = false
		mu.Unlock()
		passDone := make(chan struct{})
		go func() { defer close(passDone); rw.w.RefreshAll() }()
		select {
		case <-inGate:
		case <-passDone:
			c.Drift("stale-bgload:pass-did-not-fetch-the-unloaded-location")
			rw.close()
			continue
		case <-time.After(30 * time.Second):
			c.Drift("stale-bgload:pass-did-not-reach-the-origin")
			close(gate)
			rw.close()
			continue
		}
		r1 := rw.w.HandshakeTimeout(rw.chains["driver"], 60*time.Second)
		mid, _ := rw.probe(2 * time.Second)
		rep["handshake_during_pass"], rep["lookups_before_the_pass_ends"] = r1, mid
		close(gate)
		select {
		case <-passDone:
		case <-time.After(90 * time.Second):
			c.Drift("stale-bgload:pass-never-returned")
			rw.close()
			continue
		}
		after, _ := rw.probe(2 * time.Second)
		rep["lookups_after_the_pass"] = after
		n++
		c.Eval("stale-bgload|" + backendName(disk))
		gotMid, okMid := listedOf(mid)
		gotAfter, okAfter := listedOf(after)
		if okMid && gotMid == "yz" && (!okAfter || gotAfter != "yz") {
			c.Violation(fmt.Sprintf("%s:superseded-list-installed-by-a-late-background-load", backendName(disk)),
				fmt.Sprintf("a handshake loaded list N+1 {yz} while a pass was still transferring list N {xz} for the same, not yet loaded location; when the pass ended the lookups answer {%s} (ok=%v): the older list displaced its replacement", gotAfter, okAfter), rep)
		} else if !okMid || gotMid != "yz" {
			c.Drift("stale-bgload:handshake-did-not-load:" + gotMid)
		}
		rw.close()
	}
	_ = prop
	return n
}

// overlappingPasses: CrlRepo.tla has ONE loader process per entry - passes over a CRL never overlap (the process-wide refresh
// mutex). This replays what that assumption protects: pass P1 is kept inside its transfer of list N, list N+1 is published, pass
// P2 is started. Either P2 waits for P1 (the model) and then fetches N+1, or - if passes do overlap - P2 swaps N+1 in and P1
// swaps the older N over it afterwards. Judged by the property's own predicate: once N+1 was observed, N is never observed
// again (C08), and what N+1 no longer lists does not revoke (C11).
func overlappingPasses(c *vk.Ctx, prop string) int {
	n := 0
	for _, disk := range []bool{false, true} {
		rw, err := newRepoWorld(disk, "verify", false, c.Seed*53+int64(n))
		if err != nil {
			c.Infra("repo world: %v", err)
		}
		func() {
			defer rw.close()
			// list 1 = {x, z} in force
			rw.serve("good", []string{"x", "z"})
			rw.w.Handshake(rw.chains["driver"])
			if got, ok := listedOf(firstProbe(rw)); !ok || got != "xz" {
				c.Drift("overlap-setup:" + got)
				return
			}
			// list 2 = {y, z}; P1 is kept inside its transfer
			rw.number++
			l2 := BuildCRL(CRLSpec{Signer: rw.ca, Listed: serialsOf(rw, "y", "z"), Avoid: serialsOf(rw, "x"), Number: rw.number}, Shape{Size: "s300", Pos: "last", Width: "w1", Ext: "none", Enc: "der"})
			inside := make(chan struct{}, 2)
			release := make(chan struct{})
			rw.org.Set(pathRepo, origin.Behaviour{Kind: "gated", Body: l2, Gate: func() {
				inside <- struct{}{}
				select {
				case <-release:
				case <-time.After(30 * time.Second):
				}
			}})
			p1 := make(chan struct{})
			go func() { defer close(p1); rw.w.RefreshAll() }()
			select {
			case <-inside:
			case <-time.After(10 * time.Second):
				c.Drift("overlap-p1-never-fetched")
				close(release)
				<-p1
				return
			}
			// list 3 = {x, y} is published (z is no longer listed, x is listed again); P2 starts
			rw.number++
			l3 := BuildCRL(CRLSpec{Signer: rw.ca, Listed: serialsOf(rw, "x", "y"), Avoid: serialsOf(rw, "z"), Number: rw.number}, Shape{Size: "s300", Pos: "first", Width: "w1", Ext: "none", Enc: "der"})
			rw.org.SetBody(pathRepo, l3)
			p2 := make(chan struct{})
			go func() { defer close(p2); rw.w.RefreshAll() }()
			overlapped := false
			select {
			case <-p2:
				overlapped = true // P2 did not wait for P1
			case <-time.After(400 * time.Millisecond):
			}
			mid, midOK := listedOf(firstProbe(rw))
			close(release)
			for _, ch := range []chan struct{}{p1, p2} {
				select {
				case <-ch:
				case <-time.After(60 * time.Second):
					c.Violation(fmt.Sprintf("%s:refresh-pass-never-returns:overlapping", backendName(disk)), "a refresh pass did not return within 60 s", map[string]any{"backend": backendName(disk)})
					return
				}
			}
			end, endOK := listedOf(firstProbe(rw))
			n++
			c.Eval(fmt.Sprintf("overlap|%v", disk))
			rep := map[string]any{"backend": backendName(disk), "lists": []string{"1={x,z}", "2={y,z} (P1, kept inside its transfer)", "3={x,y} (published while P1 was in flight; P2)"},
				"p2_returned_before_p1": overlapped, "observed_while_p1_in_flight": mid, "observed_at_the_end": end}
			if !overlapped {
				c.Sample(map[string]any{"kind": "overlapping-passes", "backend": backendName(disk), "p2_waited": true, "end": end})
			}
			// list 3 is the newest list that any pass fetched; if it was observed, nothing older may be observed afterwards
			if prop == "C08" && midOK && endOK && mid == "xy" && end != "xy" {
				c.Violation(fmt.Sprintf("%s:old-list-observed-after-new:overlapping-passes", backendName(disk)),
					fmt.Sprintf("list 3 {x,y} was observed while an older pass was still in flight; after that pass had ended the lookups answer {%s}: the older list replaced the newer one", end), rep)
			}
			if prop == "C11" && endOK && strings.Contains(end, "z") && midOK && !strings.Contains(mid, "z") {
				c.Violation(fmt.Sprintf("precise:revoked-by-superseded-list:overlapping-passes:%s", backendName(disk)),
					fmt.Sprintf("list 3 (in force, observed) does not list z; after an older pass ended z is reported revoked again: entries of a superseded list outlive its replacement (lookups: {%s})", end), rep)
			}
		}()
	}
	return n
}

func firstProbe(rw *repoWorld) map[string]probeResult {
	res, _ := rw.probe(5 * time.Second)
	return res
}

func serialsOf(rw *repoWorld, names ...string) []*big.Int {
	var out []*big.Int
	for _, n := range names {
		out = append(out, rw.probes[n].Cert.SerialNumber)
	}
	return out
}

// midSwapFault: the swap of a refresh fails BETWEEN its steps (the repository model only has a swap that fails before anything
// is moved; this is the other half, driven by a real fault that the harness causes while the refresh is parked at a hook of
// LevelDbStore.Update):
//   - "movedAside": the old database has been moved aside, the new one is not yet in place, and cannot be moved in (its
//     directory vanishes). Afterwards the store of the location is missing. C09: lookups in it are errors, now and after any
//     number of further passes - never "not revoked" for a certificate that both the old and the new list name.
//   - "movedIn": the new database is in place but cannot be opened again. C20: the live store has not been deleted - a new
//     instance on the same work_dir (the fault gone) finds one complete accepted list there.
func midSwapFault(c *vk.Ctx, at string) int {
	rw, err := newRepoWorld(true, "verify", false, c.Seed*71)
	if err != nil {
		c.Infra("repo world: %v", err)
	}
	defer rw.close()
	rw.serve("good", []string{"x", "z"})
	next := rw.run(func() { rw.w.HandshakeTimeout(rw.chains["driver"], 120*time.Second) })
	for s := next(); s != "" && s != "TIMEOUT"; s = next() {
	}
	if res, _ := rw.probe(2 * time.Second); func() bool { got, ok := listedOf(res); return !ok || got != "xz" }() {
		c.Drift("mid-swap-fault:first-load-did-not-take-effect")
		return 0
	}
	rw.serve("good", []string{"y", "z"})
	next = rw.run(func() { rw.w.RefreshAll() })
	site := ""
	for site = next(); site != "" && site != "TIMEOUT" && site != "ldb.update."+at; site = next() {
	}
	if site != "ldb.update."+at {
		c.Drift("mid-swap-fault:refresh-did-not-reach:" + at + ":" + site)
		return 0
	}
	live := ""
	for _, st := range rw.w.Listing().Stores {
		live = filepath.Join(rw.w.WorkDir, st)
	}
	rep := map[string]any{"fault_at": at, "listing_at_fault": rw.w.Listing()}
	switch at {
	case "movedAside":
		for _, t := range rw.w.Listing().Temps {
			os.RemoveAll(filepath.Join(rw.w.WorkDir, t))
		}
	case "movedIn":
		os.Remove(filepath.Join(live, "LOCK"))
		os.Mkdir(filepath.Join(live, "LOCK"), 0o755)
	}
	for s := next(); s != "" && s != "TIMEOUT"; s = next() {
	}
	c.Eval("mid-swap-fault|" + at)
	switch at {
	case "movedAside":
		for pass := 0; pass < 3; pass++ {
			res, _ := rw.probe(3 * time.Second)
			rep[fmt.Sprintf("lookups_after_%d_further_passes", pass)] = res
			if r := res["z"]; r.Verdict == "accept" {
				c.Violation("validator:disk:store-missing-after-failed-swap:listed-accepted:further-passes="+fmt.Sprint(pass),
					fmt.Sprintf("the swap of a refresh failed after the old database had been moved aside (the new one could not be moved in): the store of the location is missing; a certificate that the old and the new list both name was answered 'not revoked' after %d further passes", pass), rep)
				break
			}
			done := make(chan struct{})
			go func() { defer close(done); rw.w.RefreshAll() }()
			select {
			case <-done:
			case <-time.After(90 * time.Second):
				c.Drift("mid-swap-fault:further-pass-never-returned")
				return 1
			}
		}
	case "movedIn":
		os.Remove(filepath.Join(live, "LOCK"))
		rep["listing_after_failed_swap"] = rw.w.Listing()
		if len(rw.w.Listing().Stores) == 0 {
			c.Violation("disk:live-store-deleted:swap-failed-at-reopen", "the swap of a refresh failed when the database that had just been moved in was opened again; afterwards the store directory of the location is gone from work_dir", rep)
			return 1
		}
		rw.serve("garbage", nil)
		if err := rw.w.Restart(); err != nil {
			c.Drift("mid-swap-fault:restart:" + err.Error())
			return 1
		}
		rw.w.HandshakeTimeout(rw.chains["driver"], 60*time.Second)
		res, _ := rw.probe(3 * time.Second)
		rep["lookups_of_the_next_instance"] = res
		if got, ok := listedOf(res); !ok || (got != "yz" && got != "xz") {
			c.Violation("disk:live-store-lost:swap-failed-at-reopen", fmt.Sprintf("the swap of a refresh failed at its last step (the database in place could not be opened again); the next instance on the same work_dir should find one complete accepted list there ({yz}, which was moved in, or {xz}), its lookups answer {%s} (ok=%v)", got, ok), rep)
		}
	}
	return 1
}

// rejectedThenAccepted: within ONE load the origin first answers with a list that is rejected only after its entries were read (an
// unimplemented critical extension at the end, or one damaged entry in the middle) and, to whoever asks again, with a valid list of
// other entries. Nothing of the rejected list may revoke anybody - whether the loader asks again by itself or the next handshake does.
func rejectedThenAccepted(c *vk.Ctx) int {
	n := 0
	for _, disk := range []bool{false, true} {
		for _, how := range []string{"critext", "damaged"} {
			if c.Violations() > 6 {
				break
			}
			rw, err := newRepoWorld(disk, []string{"verify", "none"}[n%2], false, c.Seed*83+int64(n))
			if err != nil {
				c.Infra("repo world: %v", err)
			}
			sh := Shape{Size: "s300", Pos: "first", Width: "w1", Ext: "none", Enc: "der"}
			px, py := rw.probes["x"].Cert.SerialNumber, rw.probes["y"].Cert.SerialNumber
			rejected := BuildCRL(CRLSpec{Signer: rw.ca, Listed: []*big.Int{px}, Avoid: []*big.Int{py, rw.probes["z"].Cert.SerialNumber}, CritExt: true, Number: 50}, sh)
			if how == "damaged" {
				good := BuildCRL(CRLSpec{Signer: rw.ca, Listed: []*big.Int{px}, Avoid: []*big.Int{py, rw.probes["z"].Cert.SerialNumber}, Number: 50}, sh)
				rejected = append([]byte(nil), good...)
				rejected[len(rejected)*2/3] ^= 0xff // somewhere in the middle of the entry list, after the listed entry (Pos first)
				rejected[len(rejected)*2/3+1] ^= 0xff
			}
			accepted := BuildCRL(CRLSpec{Signer: rw.ca, Listed: []*big.Int{py}, Avoid: []*big.Int{px, rw.probes["z"].Cert.SerialNumber}, Number: 51}, sh)
			var reqs atomic.Int64
			rw.org.Set(pathRepo, origin.Behaviour{Kind: "func", Func: func([]byte) (int, []byte) {
				if reqs.Add(1) == 1 {
					return 200, rejected
				}
				return 200, accepted
			}})
			r1 := rw.w.HandshakeTimeout(rw.chains["driver"], 120*time.Second)
			res1, _ := rw.probe(2 * time.Second)
			r2 := rw.w.HandshakeTimeout(rw.chains["driver"], 120*time.Second)
			res2, _ := rw.probe(2 * time.Second)
			n++
			c.Eval(fmt.Sprintf("rejected-then-accepted|%s|%s", backendName(disk), how))
			rep := map[string]any{"backend": backendName(disk), "rejected_because": how, "signature_validation_mode": rw.w.Cfg.Sig, "first_handshake": r1, "lookups_after_first": res1, "second_handshake": r2, "lookups_after_second": res2, "requests": reqs.Load()}
			for _, res := range []map[string]probeResult{res1, res2} {
				if res["x"].Verdict == "revoked" {
					c.Violation(fmt.Sprintf("%s:entries-of-a-rejected-list-revoke:%s", backendName(disk), how),
						fmt.Sprintf("x is named only by a list that was rejected (%s, after its entries had been read); the origin then served a valid list naming y; x is reported revoked", how), rep)
					break
				}
			}
			if got, ok := listedOf(res2); !ok || got != "y" {
				c.Drift("rejected-then-accepted:second-handshake-did-not-load:" + got)
			}
			rw.close()
		}
	}
	return n
}
