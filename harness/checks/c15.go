package checks

import (
	"crypto/x509"
	"encoding/json"
	"fmt"
	"math/big"
	"math/bits"
	"math/rand"
	"os"
	"path/filepath"
	"strings"
	"sync"
	"sync/atomic"
	"time"

	"github.com/gr33nbl00d/caddy-revocation-validator/crl"

	"verif/harness/graph"
	"verif/harness/origin"
	"verif/harness/pki"
	"verif/harness/tlcrun"
	"verif/harness/vk"
	"verif/harness/world"
)

const (
	refI = 4
	refB = 2
)

func exportRefresherGraph(c *vk.Ctx) (*graph.Graph, []string, tlcrun.Result) {
	cfg := fmt.Sprintf("SPECIFICATION Spec\nCONSTANTS\n V = {\"v1\", \"v2\"}\n I = %d\n B = %d\n Global = FALSE\n D = 1\n DropWhenBusy = FALSE\n LeakOnSibling = FALSE\n Export = TRUE\nINVARIANTS TypeOK BoundedRefresh\nPROPERTIES Live\nCHECK_DEADLOCK FALSE\n", refI, refB)
	g := graph.New()
	var perr error
	res := tlcrun.Run(tlcrun.Options{SpecDir: vk.SpecDir(), Module: "Refresher", Config: cfg, Workers: 2,
		OnTagged: func(tag string, p json.RawMessage) {
			if tag == "EDGE" {
				if err := g.AddPayload(p); err != nil {
					perr = err
				}
			}
		}})
	if res.InfraErr != nil {
		c.Infra("tlc Refresher: %v", res.InfraErr)
	}
	if !res.OK {
		c.Infra("Refresher.tla violates its properties (specification problem):\n%s", res.Violation)
	}
	if perr != nil {
		c.Infra("edge payload: %v", perr)
	}
	g.Finish("")
	// initial states: no timestamp yet, since = 0 everywhere, no failures
	var inits []string
	for s, raw := range g.State {
		var st struct {
			Age    map[string]int `json:"age"`
			Since  map[string]int `json:"since"`
			Fails  map[string]int `json:"fails"`
			Clk    map[string]int `json:"clk"`
			Due    []string       `json:"due"`
			Holder string         `json:"holder"`
		}
		json.Unmarshal(raw, &st)
		ok := st.Holder == "none"
		for _, v := range []string{"v1", "v2"} {
			if st.Age[v] != refI+1 || st.Since[v] != 0 || st.Fails[v] != 0 {
				ok = false
			}
			inDue := false
			for _, d := range st.Due {
				if d == v {
					inDue = true
				}
			}
			if inDue != (st.Clk[v] == 0) {
				ok = false
			}
		}
		if ok {
			inits = append(inits, s)
		}
	}
	return g, inits, res
}

// refInstance: one validator of the refresher scenario.
type refInstance struct {
	name    string
	w       *world.World
	checker *crl.CRLRevocationChecker
	leaf    *pki.Leaf
	chain   [][]*x509.Certificate
	pathU   string
	pathD   string
	number  int64
	since   int // real time units since this instance last ran a refresh pass
}

type refWorld struct {
	org     *origin.Server
	ca      *pki.CA
	inst    map[string]*refInstance
	mu      sync.Mutex
	decis   map[*crl.CRLRevocationChecker]string
	gate    map[*crl.CRLRevocationChecker]chan struct{} // a pass that runs parks here (inside the refresh mutex) until released
	parking bool
	// shared: both instances name the same crl_urls entry (half of the worlds)
	shared      bool
	sharedBody  []byte
	sharedEmpty []byte
}

// tickRun is one in-flight updateCRLs(false) call of an instance.
type tickRun struct {
	done chan struct{}
}

// unavailable: the ways in which a CRL server is out of order for a while - a maintenance page served with status 200, an error
// status with an error page as body, a connection that is cut
func (rw *refWorld) unavailable(path string, n int64) {
	page := []byte("<html><head><title>Service Temporarily Unavailable</title></head><body>" + strings.Repeat("<p>The server is temporarily unable to service your request due to maintenance downtime or capacity problems. Please try again later.</p>", 40) + "</body></html>")
	switch n % 4 {
	case 0:
		rw.org.SetBody(path, []byte("temporarily unavailable"))
	case 1:
		rw.org.Set(path, origin.Behaviour{Kind: "status", Code: 503, Body: page})
	case 2:
		rw.org.Set(path, origin.Behaviour{Kind: "status", Code: 404, Body: page})
	default:
		rw.org.Set(path, origin.Behaviour{Kind: "status", Code: 500, Body: page})
	}
}

func (rw *refWorld) publish(in *refInstance, ok bool, listLeaf bool) {
	if rw.shared {
		// both instances are configured with the SAME crl_urls entry. The CA revokes both leaves at once, and it does not re-issue
		// for every fetch: what the second instance finds when its turn comes is the list the first one fetched already.
		if ok && listLeaf {
			if rw.sharedBody == nil {
				in.number += 1000
				rw.sharedBody = rw.ca.SimpleCRL(in.number, rw.inst["v1"].leaf.Cert.SerialNumber.Int64(), rw.inst["v2"].leaf.Cert.SerialNumber.Int64())
			}
			rw.org.SetBody(in.pathU, rw.sharedBody)
		} else if ok {
			if rw.sharedEmpty == nil {
				in.number++
				rw.sharedEmpty = rw.ca.SimpleCRL(in.number)
			}
			rw.org.SetBody(in.pathU, rw.sharedEmpty)
		} else {
			rw.unavailable(in.pathU, in.number)
		}
		in.number++
		if ok {
			// (the distribution point's own list names nobody: whether the leaf is rejected depends on the shared configured list)
			rw.org.SetBody(in.pathD, rw.ca.SimpleCRL(in.number))
		} else {
			rw.unavailable(in.pathD, in.number+1)
		}
		return
	}
	in.number++
	if !ok {
		rw.unavailable(in.pathU, in.number)
		rw.unavailable(in.pathD, in.number+1)
		return
	}
	var serials []int64
	if listLeaf {
		serials = []int64{in.leaf.Cert.SerialNumber.Int64()}
	}
	rw.org.SetBody(in.pathU, rw.ca.SimpleCRL(in.number, serials...))
	rw.org.SetBody(in.pathD, rw.ca.SimpleCRL(in.number, serials...))
}

func newRefWorld(seed int64) (*refWorld, error) {
	rw := &refWorld{org: origin.New(), inst: map[string]*refInstance{}, decis: map[*crl.CRLRevocationChecker]string{}}
	rw.ca = pki.NewCA(pki.CAOpts{Name: "Refresher CA", Serial: 90})
	rw.gate = map[*crl.CRLRevocationChecker]chan struct{}{}
	rw.shared = seed%2 == 1
	world.SetHandler(func(site string, kv ...any) {
		if (site == "crl.update.skip" || site == "crl.update.run") && len(kv) > 0 {
			if ch, ok := kv[0].(*crl.CRLRevocationChecker); ok {
				rw.mu.Lock()
				rw.decis[ch] = site[len("crl.update."):]
				var g chan struct{}
				if site == "crl.update.run" && rw.parking && rw.isInstance(ch) {
					// (only passes of the two instances of the model are parked: a sibling that comes and goes runs freely)
					g = make(chan struct{})
					rw.gate[ch] = g
				}
				rw.mu.Unlock()
				if g != nil {
					<-g // the pass is in progress: it holds the process-wide refresh mutex
				}
			}
		}
	})
	for i, name := range []string{"v1", "v2"} {
		in := &refInstance{name: name, pathU: fmt.Sprintf("/%s/configured.crl", name), pathD: fmt.Sprintf("/%s/cdp.crl", name)}
		if rw.shared {
			in.pathU = "/shared/configured.crl"
		}
		in.leaf = rw.ca.Leaf(pki.LeafOpts{CN: "leaf " + name, Serial: big.NewInt(int64(500 + i)), CDP: []string{rw.org.URL + in.pathD}})
		in.chain = pki.Chain(in.leaf.Cert, rw.ca)
		rw.inst[name] = in
		rw.publish(in, true, false)
		w, err := world.New(world.Cfg{Mode: "crl_only", Storage: []string{"memory", "disk"}[(int(seed)+i)%2], Sig: "none", Fetch: "fetch_actively", Interval: "1h", CRLUrls: []string{rw.org.URL + in.pathU}})
		if err != nil {
			return nil, err
		}
		in.w = w
		if err := w.Provision(); err != nil {
			return nil, fmt.Errorf("provision %s: %w", name, err)
		}
		in.checker = w.V.VerifCRLChecker()
		// make the CDP location known to this instance
		w.Handshake(in.chain)
	}
	time.Sleep(30 * time.Millisecond) // let the initial passes of the ticker goroutines finish
	for _, in := range rw.inst {
		in.checker.VerifSetLastUpdateFinish(time.Time{})
	}
	return rw, nil
}

func (rw *refWorld) isInstance(ch *crl.CRLRevocationChecker) bool {
	for _, in := range rw.inst {
		if in.checker == ch {
			return true
		}
	}
	return false
}

func (rw *refWorld) close() {
	world.SetHandler(nil)
	if refreshMutexLost.Load() {
		// Cleanup may need the mutex that is gone: the instances are abandoned
		for _, in := range rw.inst {
			go in.w.Destroy()
		}
		return
	}
	for _, in := range rw.inst {
		in.w.Destroy()
	}
	rw.org.Close()
}

type refStep struct {
	Op       json.RawMessage `json:"op"`
	Expect   string          `json:"expect"`
	Real     string          `json:"real,omitempty"`
	SinceV1  int             `json:"since_v1"`
	SinceV2  int             `json:"since_v2"`
	FetchedU int             `json:"fetched_configured,omitempty"`
	FetchedD int             `json:"fetched_cdp,omitempty"`
}

// runRefresherWalk replays one walk of the Refresher graph on two real validators in this process.
// A tick is one updateCRLs(false) call in its own goroutine, started as soon as the instance is due (like the ticker loop
// does); a pass that runs is parked inside the refresh mutex until the specification's TickEnd, so that ticks of the other
// instance really meet a taken mutex.
// refreshMutexLost: the process-wide refresh mutex of this process is taken for good (established as a violation): every further
// validator in this process would only hang, so the rest of the check is skipped and what was found stands.
var refreshMutexLost atomic.Bool

func runRefresherWalk(c *vk.Ctx, walk []*graph.Edge, seed int64) {
	if refreshMutexLost.Load() {
		return
	}
	rw, err := newRefWorld(seed)
	if err != nil {
		c.Infra("refresher world: %v", err)
	}
	defer rw.close()
	rw.mu.Lock()
	rw.parking = true
	rw.mu.Unlock()
	unit := time.Hour / refI
	var hist []refStep
	inflight := map[string]*tickRun{}
	start := func(v string) {
		in := rw.inst[v]
		rw.mu.Lock()
		delete(rw.decis, in.checker)
		rw.mu.Unlock()
		tr := &tickRun{done: make(chan struct{})}
		inflight[v] = tr
		go func() {
			defer close(tr.done)
			in.checker.VerifUpdateCRLs(false)
		}()
	}
	// decision waits until the in-flight tick of v reached its decision: "skip" / "dropped" (call returned) or "run" (parked)
	decision := func(v string) string {
		in := rw.inst[v]
		deadline := time.Now().Add(10 * time.Second)
		for time.Now().Before(deadline) {
			rw.mu.Lock()
			d := rw.decis[in.checker]
			_, parked := rw.gate[in.checker]
			rw.mu.Unlock()
			if d == "run" && parked {
				return "run"
			}
			select {
			case <-inflight[v].done:
				rw.mu.Lock()
				d = rw.decis[in.checker]
				rw.mu.Unlock()
				if d == "" {
					return "dropped"
				}
				return d
			case <-time.After(2 * time.Millisecond):
			}
		}
		return "timeout"
	}
	defer func() {
		// let everything that is parked finish before the worlds are destroyed
		rw.mu.Lock()
		rw.parking = false
		for ch, g := range rw.gate {
			close(g)
			delete(rw.gate, ch)
		}
		rw.mu.Unlock()
		for _, tr := range inflight {
			if tr == nil {
				continue
			}
			select {
			case <-tr.done:
			case <-time.After(20 * time.Second):
			}
		}
	}()
	for _, e := range walk {
		var op []any
		json.Unmarshal(e.Op, &op)
		var exp struct {
			Decision string `json:"decision"`
		}
		json.Unmarshal(e.Expect, &exp)
		var to struct {
			Due    []string `json:"due"`
			Holder string   `json:"holder"`
		}
		json.Unmarshal([]byte(e.To), &to)
		step := refStep{Op: e.Op, Expect: exp.Decision}
		rep := func() map[string]any {
			return map[string]any{"steps": hist, "interval_units": refI, "bound": refB * refI}
		}
		switch op[0].(string) {
		case "sibling":
			// another validator instance comes and goes in this process: what Caddy does with a configuration it loads next to the
			// running one (and cleans up when it is rejected or replaced)
			kind := op[1].(string)
			wc := world.Cfg{Mode: "crl_only", Storage: "disk", Sig: "none", Fetch: "fetch_actively", Interval: "1h"}
			sw, err := world.New(wc)
			if err != nil {
				c.Infra("sibling world: %v", err)
			}
			switch kind {
			case "inuse":
				sw.WorkDirAs = rw.inst["v1"].w.WorkDir // a work_dir that a running instance has registered
			case "missing":
				sw.WorkDirAs = filepath.Join(sw.Sandbox, "does", "not", "exist")
			}
			perr := sw.Provision() // (a failed Provision is followed by Cleanup, as in Caddy)
			step.Real = fmt.Sprintf("provision: %v", perr)
			if kind != "ok" && perr == nil {
				c.Drift("sibling-provision-succeeded:" + kind)
			}
			if perr == nil {
				sw.Cleanup()
			}
			os.RemoveAll(sw.Sandbox)
			c.Eval(e.From + "|" + string(e.Op))
		case "advance":
			if to.Holder == "none" {
				// (the accessor takes the refresh mutex, which nobody holds now: every pass this walk started has ended)
				shifted := make(chan struct{})
				go func() {
					defer close(shifted)
					crl.VerifShiftLastUpdateFinish(unit, rw.inst["v1"].checker, rw.inst["v2"].checker)
				}()
				select {
				case <-shifted:
				case <-time.After(10 * time.Second):
					hist = append(hist, step)
					refreshMutexLost.Store(true)
					c.Violation("refresh-mutex-taken-although-no-pass-in-progress", "no refresh pass is in progress in this process, yet the process-wide refresh mutex cannot be taken within 10 s: no instance will ever refresh again", rep())
					return
				}
			} else {
				crl.VerifShiftLastUpdateFinishUnlocked(unit, rw.inst["v1"].checker, rw.inst["v2"].checker)
			}
			for _, in := range rw.inst {
				in.since++
			}
		case "tickbegin":
			v := op[1].(string)
			if inflight[v] == nil {
				start(v)
			}
			step.Real = decision(v)
			c.Eval(e.From + "|" + string(e.Op))
			if step.Real == "skip" || step.Real == "dropped" {
				inflight[v] = nil
			}
			if step.Real == "dropped" {
				hist = append(hist, step)
				c.Violation("tick-dropped-while-another-instance-refreshes", fmt.Sprintf("the tick of %s found the refresh mutex taken by the other instance and was dropped instead of waiting: its CRLs are not re-fetched in this interval", v), rep())
				return
			}
			if step.Real != exp.Decision {
				c.Drift("refresher-decision:" + exp.Decision + "->" + step.Real)
				if step.Real == "timeout" {
					var from struct {
						Holder string `json:"holder"`
					}
					json.Unmarshal([]byte(e.From), &from)
					if from.Holder == "none" {
						// every pass this walk started has ended, nothing of the two instances holds the refresh mutex, and still the tick
						// does not get to its decision within 10 s: its CRLs are not fetched again (C15, "independently of other instances")
						hist = append(hist, step)
						refreshMutexLost.Store(true)
						c.Violation("tick-blocked-although-no-pass-in-progress", fmt.Sprintf("the tick of %s neither ran nor was skipped within 10 s although no refresh pass is in progress in this process", v), rep())
						return
					}
					if os.Getenv("VERIF_DEBUG") != "" {
						b, _ := json.Marshal(hist)
						fmt.Fprintf(os.Stderr, "C15TIMEOUT v=%s from=%s hist=%s\n", v, e.From, b)
					}
					return
				}
			}
		case "tickend":
			v, ok := op[1].(string), op[2].(bool)
			in := rw.inst[v]
			tr := inflight[v]
			if tr == nil {
				c.Drift("refresher-tickend-without-pass")
				return
			}
			rw.publish(in, ok, ok)
			bu, bd := rw.org.Hits(in.pathU), rw.org.Hits(in.pathD)
			rw.mu.Lock()
			if g, okg := rw.gate[in.checker]; okg {
				close(g)
				delete(rw.gate, in.checker)
			}
			rw.mu.Unlock()
			select {
			case <-tr.done:
			case <-time.After(30 * time.Second):
				refreshMutexLost.Store(true)
				c.Violation("refresh-pass-never-returns", "a refresh pass did not return within 30 s", rep())
				return
			}
			inflight[v] = nil
			in.since = 0
			step.Real = "done"
			step.FetchedU, step.FetchedD = rw.org.Hits(in.pathU)-bu, rw.org.Hits(in.pathD)-bd
			c.Eval(e.From + "|" + string(e.Op))
			if step.FetchedU == 0 {
				c.Violation("known-location-not-refetched:configured-url", fmt.Sprintf("a refresh pass of %s ran but did not fetch its configured CRL again", v), rep())
			}
			if step.FetchedD == 0 {
				c.Violation("known-location-not-refetched:cdp", fmt.Sprintf("a refresh pass of %s ran but did not fetch the CDP CRL it knows again", v), rep())
			}
			if ok {
				if r := in.w.Handshake(in.chain); r.Verdict != "revoked" {
					c.Violation("new-crl-not-in-force-after-refresh", fmt.Sprintf("after a successful refresh pass of %s the certificate revoked in the newly published CRL is still %s", v, r.Verdict), rep())
				}
			}
		}
		// the ticker loop starts a goroutine for every tick at once: ticks that are due but not yet processed by the
		// specification are already waiting for the refresh mutex in the real system
		// (only while a pass is in progress: with a free mutex the order in which due ticks get it is the specification's choice)
		if to.Holder != "none" {
			for _, v := range to.Due {
				if inflight[v] == nil && v != to.Holder {
					start(v)
				}
			}
		}
		step.SinceV1, step.SinceV2 = rw.inst["v1"].since, rw.inst["v2"].since
		hist = append(hist, step)
		for _, in := range rw.inst {
			if in.since > refB*refI {
				c.Violation("refresh-starved:"+map[bool]string{true: "with-other-instance-active", false: "alone"}[rw.inst["v1"].since <= refB*refI || rw.inst["v2"].since <= refB*refI],
					fmt.Sprintf("instance %s has not re-fetched its CRLs for %d time units (update_interval = %d units, bound %d) although its ticker ticked every interval", in.name, in.since, refI, refB*refI), rep())
				return
			}
		}
		if c.Violations() > 6 {
			return
		}
	}
}

// C15 — refresh liveness.
func C15(c *vk.Ctx) {
	g, inits, res := exportRefresherGraph(c)
	if len(inits) == 0 {
		c.Infra("no initial states found in the Refresher graph")
	}
	c.Set("states", res.Distinct)
	c.Set("transitions", int64(len(g.Edges)))
	rng := rand.New(rand.NewSource(c.Seed))
	walks := 0
	// from every initial phase pair: a long seeded walk (3 x the bound) + tours that cover every edge
	for i, in := range inits {
		if c.Violations() > 6 {
			break
		}
		g.Init = in
		n := c.Pick(1, 6)
		for k := 0; k < n; k++ {
			w := g.RandomWalk(c.Pick(70, 200), rng)
			runRefresherWalk(c, w, c.Seed+int64(i*10+k))
			walks++
			if i == 0 && k == 0 {
				c.Sample(map[string]any{"init": json.RawMessage(g.State[in]), "ops": opsOf(w, 12)})
			}
		}
	}
	if c.Thorough() {
		// covering tours from the initial states, up to a budget of walks (a complete tour of the 4 k-state graph from each of the
		// 16 phase pairs is about 2 000 walks of 120 steps on two real validators: more than an hour)
		budget := 500
	tours:
		for _, in := range inits {
			g.Init = in
			for _, w := range g.Tour(120, rng) {
				if budget == 0 || c.Violations() > 6 {
					break tours
				}
				runRefresherWalk(c, w, c.Seed+int64(walks))
				walks++
				budget--
			}
		}
		c.Set("thorough_tour_walks_budget", int64(500))
	}
	if !refreshMutexLost.Load() {
		walks += c15ProvisionIntake(c)
	}
	if refreshMutexLost.Load() {
		c.Set("note", "the rest of the check was skipped: the process-wide refresh mutex is taken for good (see the violation)")
		return
	}
	// API level: first loads that fail (unreachable, garbage) and are made up for by a later pass, in the foreground and in the
	// background, with and without signature verification; lists signed by the sibling key are failed attempts under verify and
	// accepted versions under verify_log, after which the location must go on being refreshed like any other
	hubFocus(c, []HubCfg{
		{Mode: "crl_only", Sig: "verify", Strict: false, Fetch: "background", Disk: false, TrustA: false, Conf: "none", Ocsp: "noaia"},
		{Mode: "crl_only", Sig: "verify_log", Strict: false, Fetch: "background", Disk: true, TrustA: false, Conf: "url", Ocsp: "noaia"},
		{Mode: "crl_only", Sig: "verify", Strict: false, Fetch: "actively", Disk: true, TrustA: true, Conf: "url", Ocsp: "noaia"},
	}, c.Pick(420, 6000), func(d hubDoc) bool { return (d.Signer == "A" || d.Signer == "S") && d.Q != "critext" }, RandomShape, predC15hub)
	c.Set("traces_validated_against_impl", int64(walks))
	c.Set("spec", fmt.Sprintf("Refresher.tla: V = {v1, v2}, I = %d, B = %d, per-instance finish timestamp, passes that last up to one time unit while holding the refresh mutex; invariant BoundedRefresh, liveness Live ([]<> refreshed) under weak fairness on the complete graph (no state constraint); all 16 phase pairs", refI, refB))
	c.Set("rule", "a case is one edge (advance one time unit / tick of an instance with outcome ok or fail) executed on two real validators in one process: time passes by shifting the refresh-finish timestamp(s) back through a verif accessor, a tick is one updateCRLs(false) call in its own goroutine started as soon as the instance is due; a pass that runs is parked at the crl.update.run hook inside the refresh mutex until the specification's TickEnd; the skip/run decision comes from the hook; predicates: time since an instance last re-fetched > B*I; a pass that ran did not fetch a known location (configured url, CDP); after a successful pass the newly published CRL is not in force; configured CRLs not in force when Provision returns")
	c.Assume("the real time.Ticker is not exercised in the quick tier: ticks are injected at the model's instants; one time unit = update_interval / 4")
}

// c15ProvisionIntake: CRLs configured by file or URL are in force by the time provisioning returns.
func c15ProvisionIntake(c *vk.Ctx) int {
	n := 0
	ca := pki.NewCA(pki.CAOpts{Name: "Provision Intake CA", Serial: 95})
	org := origin.New()
	defer org.Close()
	leaf := ca.Leaf(pki.LeafOpts{CN: "listed leaf", Serial: big.NewInt(61)})
	crlBytes := ca.SimpleCRL(1, 61)
	org.SetBody("/p.crl", crlBytes)
	for _, src := range []string{"url", "file"} {
		for _, fetch := range []string{"fetch_actively", "fetch_background", ""} {
			for _, sig := range []string{"verify", "verify_log", "none", ""} {
				for _, storage := range []string{"memory", "disk"} {
					cfg := world.Cfg{Mode: "crl_only", Storage: storage, Sig: sig, Fetch: fetch, Interval: "1h"}
					w, err := world.New(cfg)
					if err != nil {
						c.Infra("world: %v", err)
					}
					tf := filepath.Join(w.Sandbox, "trusted.pem")
					os.WriteFile(tf, pki.PEMCert(ca.Cert), 0o644)
					w.Cfg.Trusted = []string{tf}
					if src == "url" {
						w.Cfg.CRLUrls = []string{org.URL + "/p.crl"}
					} else {
						f := filepath.Join(w.Sandbox, "p.crl")
						os.WriteFile(f, pki.PEMCRL(crlBytes, false), 0o644)
						w.Cfg.CRLFiles = []string{f}
					}
					// "by the time provisioning returns": the first pass of the ticker goroutine is kept from starting (parked at its
					// first hook) in every other case, so that nothing but Provision itself can have brought the list into force
					held := bits.OnesCount(uint(n))%2 == 1
					release := make(chan struct{})
					if held {
						w.NoInitialPassWait = true
						world.SetHandler(func(site string, kv ...any) {
							if site == "crl.update.enter" && len(kv) >= 2 {
								if forced, _ := kv[1].(bool); !forced {
									<-release
								}
							}
						})
					}
					err = w.Provision()
					n++
					c.Eval(fmt.Sprintf("intake|%s|%s|%s|%s|held=%v", src, fetch, sig, storage, held))
					rep := map[string]any{"source": src, "fetch": fetch, "sig": sig, "storage": storage, "first_pass_held": held}
					if err != nil {
						c.Violation(fmt.Sprintf("provision-fails-with-acceptable-configured-crl:src=%s:fetch=%s", src, fetch), "Provision failed although the configured CRL is acceptable: "+err.Error(), rep)
					} else if r := w.Handshake(pki.Chain(leaf.Cert, ca)); r.Verdict != "revoked" {
						c.Violation(fmt.Sprintf("configured-crl-not-in-force-after-provision:src=%s:fetch=%s", src, fetch),
							fmt.Sprintf("Provision returned but the certificate listed in the configured CRL is %s", r.Verdict), rep)
					}
					if held {
						close(release)
						world.SetHandler(nil)
						time.Sleep(20 * time.Millisecond)
					}
					w.Destroy()
				}
			}
		}
	}
	return n
}
