package checks

import (
	"encoding/json"
	"fmt"
	"math/rand"
	"os"
	"path/filepath"
	"sort"
	"strings"
	"sync"
	"time"

	"verif/harness/graph"
	"verif/harness/tlcrun"
	"verif/harness/vk"
	"verif/harness/world"
)

const repoProps = "INVARIANTS TypeOK Atomic LockOK NoResidue NoResidueClosed LiveKept CrashSafe OnlyAccepted\nPROPERTIES Monotone FailKeeps SwapLocked ClosedStaysClosed\n"

type repoState struct {
	Origin struct {
		Kind string   `json:"kind"`
		Keys []string `json:"keys"`
	} `json:"origin"`
	Final struct {
		Exists bool     `json:"exists"`
		Keys   []string `json:"keys"`
		Meta   bool     `json:"meta"`
		Open   bool     `json:"open"`
	} `json:"final"`
	LiveDoc struct {
		Some bool     `json:"some"`
		Keys []string `json:"keys"`
	} `json:"liveDoc"`
	Stage struct {
		Some bool     `json:"some"`
		Keys []string `json:"keys"`
		Full bool     `json:"full"`
	} `json:"stage"`
	Closed  bool   `json:"closed"`
	Aside   bool   `json:"aside"`
	Tmpfile bool   `json:"tmpfile"`
	Loaded  bool   `json:"loaded"`
	Wlock   string `json:"wlock"`
	Lpc     string `json:"lpc"`
	Kind    string `json:"kind"`
	Fetched struct {
		Kind string   `json:"kind"`
		Keys []string `json:"keys"`
	} `json:"fetched"`
	Cursor []string `json:"cursor"`
	Runs   int      `json:"runs"`
	Up     bool     `json:"up"`
}

func keyStr(ks []string) string {
	c := append([]string(nil), ks...)
	sort.Strings(c)
	return strings.Join(c, "")
}

// exportRepoGraph: the loader/refresher of CrlRepo.tla without reader processes (the reader interleavings are
// proved by TLC on the full model; the replay places lookups at every loader step itself).
func exportRepoGraph(c *vk.Ctx, disk bool, maxRuns int) (*graph.Graph, tlcrun.Result) {
	cfg := fmt.Sprintf("SPECIFICATION Spec\nCONSTANTS\n Readers = {}\n Keys = {\"x\", \"y\", \"z\"}\n MaxRuns = %d\n Disk = %s\n WithCrash = FALSE\n Export = TRUE\n%sCHECK_DEADLOCK FALSE\nVIEW View\n",
		maxRuns, tlaBool(disk), repoProps)
	g := graph.New()
	var perr error
	res := tlcrun.Run(tlcrun.Options{SpecDir: vk.SpecDir(), Module: "CrlRepo", Config: cfg, Workers: 4,
		OnTagged: func(tag string, p json.RawMessage) {
			if tag == "EDGE" {
				if err := g.AddPayload(p); err != nil {
					perr = err
				}
			}
		}})
	if res.InfraErr != nil {
		c.Infra("tlc CrlRepo: %v", res.InfraErr)
	}
	if !res.OK {
		c.Infra("CrlRepo.tla violates its properties (specification problem):\n%s", res.Violation)
	}
	if perr != nil {
		c.Infra("edge payload: %v", perr)
	}
	g.Finish("")
	return g, res
}

// modelCheckRepoFull runs the full model (two readers, crash) for the properties; no export.
func modelCheckRepoFull(c *vk.Ctx, disk bool, maxRuns int) tlcrun.Result {
	cfg := fmt.Sprintf("SPECIFICATION Spec\nCONSTANTS\n Readers = {\"r1\", \"r2\"}\n Keys = {\"x\", \"y\"}\n MaxRuns = %d\n Disk = %s\n WithCrash = %s\n Export = FALSE\n%sCHECK_DEADLOCK FALSE\nVIEW View\n",
		maxRuns, tlaBool(disk), tlaBool(disk), repoProps)
	res := tlcrun.Run(tlcrun.Options{SpecDir: vk.SpecDir(), Module: "CrlRepo", Config: cfg, Workers: 8})
	if res.InfraErr != nil {
		c.Infra("tlc CrlRepo (full): %v", res.InfraErr)
	}
	if !res.OK {
		c.Infra("CrlRepo.tla violates its properties (specification problem):\n%s", res.Violation)
	}
	return res
}

func siteFor(kind, lpc string) string {
	if kind == "first" {
		switch lpc {
		case "tmp":
			return "repo.load.tmp"
		case "fetching":
			return "origin.midbody"
		case "fetched":
			return "repo.load.fetched"
		case "parsed":
			return "repo.load.parsed"
		case "verified":
			return "repo.load.accepting"
		}
	} else {
		switch lpc {
		case "tmp":
			return "repo.refresh.tmp"
		case "info":
			return "repo.refresh.info"
		case "fetching":
			return "origin.midbody"
		case "fetched":
			return "repo.refresh.fetched"
		case "staged":
			return "repo.refresh.staged"
		case "parsed":
			return "repo.refresh.parsed"
		case "verified":
			return "repo.refresh.swapping"
		case "locked":
			return "repo.swap.locked"
		case "unlocked":
			return "repo.refresh.swapped"
		}
	}
	switch lpc {
	case "closedOld", "closedNew", "movedAside", "movedIn", "removedOld", "reopened":
		return "ldb.update." + lpc
	case "replaced":
		return "map.update.replaced"
	}
	return ""
}

type repoStop struct {
	Op      json.RawMessage        `json:"op"`
	Lpc     string                 `json:"lpc"`
	Site    string                 `json:"site,omitempty"`
	Probes  map[string]probeResult `json:"probes,omitempty"`
	Listing []string               `json:"listing,omitempty"`
	Image   string                 `json:"-"`
	Expect  *repoState             `json:"-"`
}

type crashImage struct {
	Dir    string
	Lpc    string
	Kind   string
	Site   string
	Loaded bool   // what the specification says a restart on this image finds
	Keys   string // ... and with which content
	Prev   string
	New    string
	NewAcc bool // the document being loaded is acceptable
	Hist   []repoStop
}

type repoRun struct {
	c       *vk.Ctx
	prop    string // which property's predicates are evaluated
	disk    bool
	rw      *repoWorld
	next    func() string
	site    string
	hist    []repoStop
	images  []crashImage
	imgDir  string
	sawNew  map[string]bool // probe -> has observed the newest list of the current run
	prevDoc string
	rng     *rand.Rand
	poison  bool
	async   sync.WaitGroup
}

// advanceTo resumes the real loader until it is parked at target or the run has ended ("" returned).
func (rr *repoRun) advanceTo(target string) string {
	for i := 0; i < 40; i++ {
		s := rr.next()
		if s == "" || s == "TIMEOUT" || s == target {
			rr.site = s
			return s
		}
	}
	return "TIMEOUT"
}

// finish lets a run that is still parked run to its end.
func (rr *repoRun) finish() {
	if rr.next == nil {
		return
	}
	for i := 0; i < 60; i++ {
		if s := rr.next(); s == "" {
			break
		} else if s == "TIMEOUT" {
			rr.poison = true
			break
		}
	}
	rr.next = nil
	rr.site = ""
}

func (rr *repoRun) rep() map[string]any {
	return map[string]any{"backend": map[bool]string{true: "disk", false: "memory"}[rr.disk], "signature_validation_mode": rr.rw.w.Cfg.Sig, "steps": rr.hist}
}

// forceRepoWalkSig: set by a check that replays the same walk under a chosen signature validation mode (walks run one at a time)
var forceRepoWalkSig string

// runRepoWalk replays one walk of the CrlRepo graph (no readers) on a real repository, placing lookups, crash images
// and directory listings at every loader step.
func runRepoWalk(c *vk.Ctx, prop string, disk bool, walk []*graph.Edge, seed int64, imgDir string, after func(rw *repoWorld, imgs []crashImage)) []crashImage {
	// the loader protocol is the same under every signature validation mode; what differs is only whether a list signed by
	// another key is rejected. A walk that publishes no such list is replayed under a seeded mode, the others under "verify".
	sig := "verify"
	forged := false
	for _, e := range walk {
		var to repoState
		if opName(e) == "publish" && json.Unmarshal([]byte(e.To), &to) == nil && to.Origin.Kind == "badsig" {
			forged = true
		}
		if opName(e) == "verify" && json.Unmarshal([]byte(e.To), &to) == nil && to.Lpc == "failed" {
			forged = true // (a signer record is only written where signatures are verified)
		}
	}
	if !forged {
		sig = []string{"verify", "none", "verify_log", "none"}[int(uint64(seed)%4)]
		if forceRepoWalkSig != "" {
			sig = forceRepoWalkSig
		}
	}
	rw, err := newRepoWorld(disk, sig, false, seed)
	if err != nil {
		c.Infra("repo world: %v", err)
	}
	rr := &repoRun{c: c, prop: prop, disk: disk, rw: rw, imgDir: imgDir, sawNew: map[string]bool{}, rng: rand.New(rand.NewSource(seed))}
	defer func() {
		rr.finish()
		rr.async.Wait()
		if after != nil && !rr.poison {
			after(rw, rr.images)
		}
		if rr.poison {
			rw.w.V = nil
		}
		rw.close()
	}()
	for _, e := range walk {
		var op []any
		json.Unmarshal(e.Op, &op)
		var from, to repoState
		json.Unmarshal([]byte(e.From), &from)
		json.Unmarshal([]byte(e.To), &to)
		name := op[0].(string)
		stop := repoStop{Op: e.Op, Lpc: to.Lpc, Expect: &to}
		switch name {
		case "publish":
			rw.serve(to.Origin.Kind, to.Origin.Keys)
		case "start":
			rr.prevDoc = keyStr(from.LiveDoc.Keys)
			rr.sawNew = map[string]bool{}
			rw.fault.mu.Lock()
			rw.fault.failCreate, rw.fault.failInsertN, rw.fault.failUpdate, rw.fault.failSigner = false, 0, false, false
			rw.fault.mu.Unlock()
			if to.Kind == "first" {
				rr.next = rw.run(func() { rw.w.Handshake(rw.chains["driver"]) })
			} else {
				rr.next = rw.run(func() { rw.w.RefreshAll() })
			}
			if s := rr.advanceTo(siteFor(to.Kind, "tmp")); s != siteFor(to.Kind, "tmp") {
				if s == "" && to.Kind == "first" && to.Origin.Kind == "good" && (rr.prop == "C08" || rr.prop == "C12") {
					// nothing is in force for this location (every earlier load failed), the origin serves an acceptable list, a
					// certificate that names the location was presented with fetch_actively - and no load was even started
					rr.next = nil
					res, _ := rw.probe(200 * time.Millisecond)
					if got, ok := listedOf(res); !ok || got != keyStr(to.Origin.Keys) {
						stop.Probes = res
						c.Violation(fmt.Sprintf("%s:acceptable-first-load-does-not-take-effect:stops-at=start", backendName(disk)),
							fmt.Sprintf("no list is in force for the location (the earlier loads failed), the origin serves an acceptable list {%s}, but the handshake that names the location started no load and the lookups answer {%s} (ok=%v)", keyStr(to.Origin.Keys), got, ok), rr.rep2(&stop))
					}
				}
				c.Drift("repo-start:" + to.Kind + ":" + s)
				return rr.images
			}
		case "shutdown":
			// Cleanup of the instance while its refresh is parked in flight (Caddy unloads a configuration whenever it is told to)
			done := make(chan error, 1)
			go func() { done <- rw.w.Cleanup() }()
			select {
			case <-done:
			case <-time.After(30 * time.Second):
				c.Violation(fmt.Sprintf("%s:cleanup-does-not-return-during-refresh:at=%s", backendName(disk), from.Lpc), "Cleanup did not return within 30 s while a refresh was in flight at "+from.Lpc, rr.rep())
				rr.poison = true
				return rr.images
			}
		case "reprovision":
			rr.finish()
			if err := rw.w.Provision(); err != nil {
				c.Violation(fmt.Sprintf("%s:provision-fails-after-cleanup-during-refresh", backendName(disk)),
					fmt.Sprintf("the instance was cleaned up while a refresh was in flight; after that run had ended a new instance could not be provisioned on the work_dir: %v", err), rr.rep())
				rr.poison = true
				return rr.images
			}
			repo := rw.w.V.VerifCRLChecker().VerifRepository()
			repo.Factory = faultFactory{inner: repo.Factory, f: rw.fault}
			// the new instance learns the location from the first certificate that names it (the store is found on disk)
			rw.w.Handshake(rw.chains["driver"])
			if to.Loaded {
				// the store the closed instance left behind is found and usable: the list that was in force answers the lookups
				res, _ := rw.probe(2 * time.Second)
				if got, ok := listedOf(res); !ok || got != keyStr(to.LiveDoc.Keys) {
					stop.Probes = res
					c.Violation(fmt.Sprintf("%s:store-lost-or-unusable-after-cleanup-during-refresh", backendName(disk)),
						fmt.Sprintf("the instance was cleaned up while a refresh was in flight (the run ended by itself); the new instance on the same work_dir should find the list {%s} in force, but its lookups answer {%s} (ok=%v): the store was replaced, deleted or is still held open by the dead instance", keyStr(to.LiveDoc.Keys), got, ok), rr.rep2(&stop))
					rr.poison = true
					return rr.images
				}
			}
		case "done", "fail":
			// no real counterpart: the run has ended or ends with the deferred cleanup
			if to.Lpc == "idle" {
				rr.finish()
			}
		default:
			if to.Lpc == "failed" {
				// the specification's run fails at this step; arm the injected faults, then the real run must end without reaching the swap
				if name == "stage" {
					rw.fault.mu.Lock()
					rw.fault.failCreate = true
					rw.fault.mu.Unlock()
				}
				if name == "parse" && (to.Fetched.Kind == "good" || to.Fetched.Kind == "badsig") {
					rw.fault.mu.Lock()
					rw.fault.failInsertN = 1 + rr.rng.Intn(300)
					rw.fault.mu.Unlock()
				}
				if name == "verify" && to.Fetched.Kind == "good" {
					rw.fault.mu.Lock()
					rw.fault.failSigner = true
					rw.fault.mu.Unlock()
				}
				if name == "swapFault" {
					rw.fault.mu.Lock()
					rw.fault.failUpdate = true
					rw.fault.mu.Unlock()
				}
				if name == "stage" && to.Kind == "first" {
					// the first-load path has no gate between fetch and parse: the failure shows as the end of the run
				}
				rr.finishFailing()
				break
			}
			if to.Kind == "first" && to.Lpc == "unlocked" {
				rr.finish() // the first load releases the lock when the handshake that drives it returns
			} else if target := siteFor(to.Kind, to.Lpc); target != "" && target != rr.site {
				if s := rr.advanceTo(target); s != target {
					if s == "" && rr.prop == "C08" && to.Fetched.Kind == "good" {
						// the real run ended although the specification's run succeeds (no fault injected, acceptable document):
						// "a later successful refresh still takes effect" - confirm with lookups that the new list is not in force
						rr.next = nil
						res, _ := rw.probe(200 * time.Millisecond)
						got, ok := listedOf(res)
						if !ok || got != keyStr(to.Fetched.Keys) {
							stop.Probes = res
							c.Violation(fmt.Sprintf("%s:acceptable-%s-does-not-take-effect:stops-at=%s", backendName(disk), map[string]string{"first": "first-load", "refresh": "refresh"}[to.Kind], to.Lpc),
								fmt.Sprintf("the origin serves an acceptable list {%s} and no fault is injected, but the %s ended before %s and the lookups answer %v (ok=%v)", keyStr(to.Fetched.Keys), to.Kind, to.Lpc, got, ok), rr.rep2(&stop))
						}
					}
					c.Drift(fmt.Sprintf("repo-gate:%s:%s->%s", to.Kind, to.Lpc, s))
					return rr.images
				}
			}
		}
		stop.Site = rr.site
		c.Eval(fmt.Sprintf("%v|%s|%s", disk, e.From, string(e.Op)))
		rr.observe(&stop, &from, &to, name)
		rr.hist = append(rr.hist, stop)
		if os.Getenv("VERIF_DEBUG") != "" {
			b, _ := json.Marshal(stop.Probes)
			fmt.Fprintf(os.Stderr, "STOP disk=%v op=%s lpc=%s kind=%s site=%q wlock=%s probes=%s\n", disk, string(e.Op), to.Lpc, to.Kind, rr.site, to.Wlock, b)
		}
		if c.Violations() > 8 || rr.poison {
			break
		}
	}
	return rr.images
}

// finishFailing lets the real run end; reaching the swap although the specification's run failed is drift.
func (rr *repoRun) finishFailing() {
	if rr.next == nil {
		return
	}
	for i := 0; i < 60; i++ {
		s := rr.next()
		if s == "" {
			break
		}
		if s == "TIMEOUT" {
			rr.poison = true
			break
		}
		if s == "repo.swap.locked" || strings.HasPrefix(s, "ldb.update.") || s == "map.update.replaced" {
			rr.c.Drift("repo-run-did-not-fail:" + s)
		}
	}
	rr.next = nil
	rr.site = ""
}

func (rr *repoRun) observe(stop *repoStop, from, to *repoState, opName string) {
	c, rw := rr.c, rr.rw
	parked := rr.next != nil && rr.site != ""
	quiescent := to.Lpc == "idle" && rr.next == nil
	// ---- lookups at this point of the schedule (C08, C13) ----
	if rr.prop == "C13" && (parked || quiescent) && opName != "publish" {
		// under the race detector the lookups must not be ordered with the loader by the harness itself: fire and forget,
		// the loader is resumed without waiting for them (they are joined when the walk ends)
		for _, n := range []string{"x", "y", "z"} {
			n := n
			rr.async.Add(1)
			go func() {
				defer rr.async.Done()
				watchdog("lookup during "+to.Lpc, 60*time.Second, func() { rw.w.Handshake(rw.chains[n]) })
			}()
		}
	}
	if rr.prop == "C08" && (parked || quiescent) && opName != "publish" {
		wait := 40 * time.Millisecond
		expectBlock := to.Wlock == "ldr"
		if expectBlock {
			wait = 120 * time.Millisecond
		}
		res, late := rw.probe(wait)
		stop.Probes = res
		blocked := 0
		for _, r := range res {
			if r.Blocked {
				blocked++
			}
		}
		prev, cur := rr.prevDoc, keyStr(to.LiveDoc.Keys)
		if got, ok := listedOf(res); ok && rr.disk && !to.Final.Open && !to.Closed && to.Wlock == "none" && to.Loaded {
			_ = got
			c.Drift("closed-store-answers-after-failed-swap")
		} else if ok {
			// the lookups returned: they must have been answered from one complete accepted list
			allowed := map[string]bool{}
			if to.Loaded || from.Loaded {
				allowed[cur] = true
				allowed[prev] = true
			} else {
				allowed[""] = true // nothing in force: nobody is revoked (lenient)
				if to.LiveDoc.Some {
					allowed[cur] = true
				}
			}
			if !allowed[got] {
				c.Violation(fmt.Sprintf("%s:lookup-observed-neither-old-nor-new-list:at=%s", backendName(rr.disk), to.Lpc),
					fmt.Sprintf("with the loader parked at %s (%s) the three lookups answered revoked={%s}; the previous list is {%s}, the new list {%s}", rr.site, to.Lpc, got, prev, cur), rr.rep2(stop))
			}
			for _, n := range []string{"x", "y", "z"} {
				if got == cur && cur != prev {
					rr.sawNew[n] = true
				} else if got == prev && cur != prev && rr.sawNew[n] {
					c.Violation(fmt.Sprintf("%s:old-list-observed-after-new:at=%s", backendName(rr.disk), to.Lpc), "a lookup observed the previous list after the new list had been observed", rr.rep2(stop))
				}
			}
			if expectBlock && rr.prop == "C13" {
				c.Drift("lookup-not-blocked-during-locked-section")
			}
		} else if blocked == 0 && rr.disk && !to.Final.Open && !to.Closed && to.Wlock == "none" {
			// the specification's store is closed after a failed swap: the lookups fail closed (C09), which is what happened
		} else if blocked == 0 {
			// some lookup returned an error although no fault was injected
			for n, r := range res {
				if r.Verdict != "accept" && r.Verdict != "revoked" {
					c.Violation(fmt.Sprintf("%s:lookup-error-during-refresh:at=%s", backendName(rr.disk), to.Lpc),
						fmt.Sprintf("lookup of probe %s failed with %s %q while the loader is parked at %s: the store was observable in an unusable state", n, r.Verdict, r.Err, rr.site), rr.rep2(stop))
				}
			}
		} else {
			if !expectBlock {
				c.Drift("lookup-blocked-outside-locked-section:" + to.Lpc)
			}
			// blocked lookups are collected when the lock is released; they must then see one complete list
			go func(n int) {
				for i := 0; i < n; i++ {
					<-late
				}
			}(blocked)
		}
	}
	// ---- crash image at this point (C12) ----
	if rr.prop == "C12" && quiescent {
		// what a process at rest keeps in work_dir besides stores (nothing at present) is not a leftover of an interrupted run
		for _, n := range rw.w.Listing().Other {
			restingNames.Store(n, true)
		}
	}
	if rr.prop == "C12" && rr.disk && quiescent && !parked && opName != "publish" && rr.imgDir != "" {
		// the process dies at rest, after the run has ended (successfully or not): what the run left behind is all a restart finds
		dir := filepath.Join(rr.imgDir, fmt.Sprintf("img-%d", len(rr.images)+1))
		if err := rw.snapshot(dir); err == nil {
			rr.images = append(rr.images, crashImage{Dir: dir, Lpc: to.Lpc, Kind: "rest", Site: "(at rest)", Loaded: to.Loaded && to.Final.Exists && to.Final.Meta, Keys: keyStr(to.Final.Keys),
				Prev: keyStr(to.LiveDoc.Keys), New: "", NewAcc: false, Hist: append([]repoStop(nil), rr.hist...)})
		}
	}
	if rr.prop == "C12" && rr.disk && parked && rr.imgDir != "" {
		dir := filepath.Join(rr.imgDir, fmt.Sprintf("img-%d", len(rr.images)+1))
		if err := rw.snapshot(dir); err == nil {
			acc := to.Fetched.Kind == "good"
			rr.images = append(rr.images, crashImage{Dir: dir, Lpc: to.Lpc, Kind: to.Kind, Site: rr.site, Loaded: to.Final.Exists && to.Final.Meta, Keys: keyStr(to.Final.Keys),
				Prev: rr.prevDoc, New: keyStr(to.Fetched.Keys), NewAcc: acc, Hist: append([]repoStop(nil), rr.hist...)})
		}
	}
	// ---- directory discipline (C20) ----
	if rr.prop == "C20" {
		l := rw.w.Listing()
		stop.Listing = append(append([]string{}, l.Temps...), l.Other...)
		if quiescent {
			if len(l.Temps) > 0 {
				c.Violation(fmt.Sprintf("%s:temporary-artefacts-remain:after=%s", backendName(rr.disk), lastOutcome(rr.hist)),
					fmt.Sprintf("after the run ended (%s) work_dir still contains %v", lastOutcome(rr.hist), l.Temps), rr.rep2(stop))
			}
			if rr.disk && to.Loaded && len(l.Stores) == 0 {
				c.Violation("disk:live-store-deleted", "the entry is loaded but its store directory is gone", rr.rep2(stop))
			}
			if len(l.Other) > 0 {
				c.Violation("unexpected-file-in-work-dir", fmt.Sprintf("work_dir contains %v", l.Other), rr.rep2(stop))
			}
			if out := rw.w.SandboxOutside(nil); len(out) > 0 {
				c.Violation("file-outside-work-dir", fmt.Sprintf("the validator created %v next to work_dir", out), rr.rep2(stop))
			}
		}
	}
}

func (rr *repoRun) rep2(stop *repoStop) map[string]any {
	m := rr.rep()
	m["at"] = stop
	return m
}

func backendName(disk bool) string {
	if disk {
		return "disk"
	}
	return "memory"
}

func lastOutcome(h []repoStop) string {
	for i := len(h) - 1; i >= 0; i-- {
		if h[i].Lpc == "failed" || h[i].Lpc == "done" {
			return "failed-run"
		}
		if h[i].Lpc == "unlocked" {
			return "successful-run"
		}
	}
	return "run"
}

// repoWalks picks walks through the loader graph: seeded random walks biased to complete runs.
func repoWalks(g *graph.Graph, rng *rand.Rand, n, length int) [][]*graph.Edge {
	// initial states: every good origin, nothing loaded
	var inits []string
	for s, raw := range g.State {
		var st repoState
		json.Unmarshal(raw, &st)
		if st.Lpc == "idle" && st.Runs == 0 && !st.Loaded && !st.Final.Meta && st.Up {
			inits = append(inits, s)
		}
	}
	sort.Strings(inits)
	var walks [][]*graph.Edge
	for i := 0; i < n; i++ {
		g.Init = inits[rng.Intn(len(inits))]
		walks = append(walks, biasedWalk(g, length, rng))
	}
	return walks
}

// C08 — refresh is all-or-nothing; a failed refresh keeps the previous list.
func C08(c *vk.Ctx) {
	if os.Getenv("VERIF_ONLY") == "c08inside" { // debugging aid: only the readers-inside scenario
		c08ReadersInside(c)
		return
	}
	rng := rand.New(rand.NewSource(c.Seed))
	var states, trans int64
	walks := 0
	for _, disk := range []bool{true, false} {
		full := modelCheckRepoFull(c, disk, 2)
		states += full.Distinct
		trans += full.Generated
		g, _ := exportRepoGraph(c, disk, 3)
		init := freshInit(g)
		scen := repoScenarios(rng, c.Thorough())
		for wi, plans := range scen {
			if c.Violations() > 8 || (!c.Thorough() && wi >= 12) {
				break
			}
			w := guidedWalk(g, init, plans)
			runRepoWalk(c, "C08", disk, w, c.Seed*977+int64(walks), "", nil)
			walks++
			if wi == 0 {
				c.Sample(map[string]any{"backend": backendName(disk), "ops": opsOf(w, 14)})
			}
		}
	}
	walks += c08ReadersInside(c)
	walks += overlappingPasses(c, "C08")
	walks += staleBackgroundLoad(c, "C08")
	walks += loadersReplay(c, "C08")
	c.Set("states", states)
	c.Set("transitions", trans)
	c.Set("traces_validated_against_impl", int64(walks))
	c.Set("spec", "CrlRepo.tla: 2 readers, 2 keys, 2 runs, crash enabled on disk: Atomic (a reader inside its critical section sees one complete accepted list), Monotone (per reader and real-time order), FailKeeps (every failure branch: unreachable, garbage, truncated, bad signature, staging-store create error, insert error at step k), SwapLocked, LockOK")
	c.Set("rule", "a case is one edge of the loader/refresher graph (3 keys: old-only, new-only, common; origins good/badsig/trunc x 8 key sets, garbage, down) executed on a real repository with the loader parked at the corresponding verif hook; at every stop three lookups run concurrently: if they return they must equal the complete previous or the complete new accepted list (never empty, partial, mixed or an error), and the previous list is never observed after the new one; plus, per backend and signature mode, three lookups parked inside the live store while the refresher is stepped to the swap: it must wait for them (SwapLocked from the reader's side)")
	c.Assume("interleavings are exhaustive at hook granularity for one loader and a lookup placed at every loader step; finer interleavings of the readers are covered by the TLC proof on the model and by the free-running stress in C13")
}

// C20 — work-directory discipline and clean lifecycle.
func C20(c *vk.Ctx) {
	rng := rand.New(rand.NewSource(c.Seed))
	var states, trans int64
	walks := 0
	for _, disk := range []bool{true, false} {
		g, res := exportRepoGraph(c, disk, 3)
		states += res.Distinct
		trans += int64(len(g.Edges))
		init := freshInit(g)
		for wi, plans := range repoScenarios(rng, c.Thorough()) {
			if c.Violations() > 8 || (!c.Thorough() && wi >= 12) {
				break
			}
			w := guidedWalk(g, init, plans)
			runRepoWalk(c, "C20", disk, w, c.Seed*1013+int64(walks), "", nil)
			walks++
			if wi == 0 {
				c.Sample(map[string]any{"backend": backendName(disk), "ops": opsOf(w, 14)})
			}
		}
	}
	// Cleanup while a refresh is in flight (CrlRepo.tla: Shutdown, LSwapClosed, Reprovision; ClosedStaysClosed, NoResidueClosed)
	{
		g, _ := exportRepoGraph(c, true, 3)
		init := freshInit(g)
		for _, plans := range shutdownScenarios() {
			if c.Violations() > 8 {
				break
			}
			w := guidedWalk(g, init, plans)
			shut := false
			for _, e := range w {
				if opName(e) == "shutdown" {
					shut = true
				}
			}
			if !shut {
				c.Infra("no shutdown edge on the guided walk for %+v", plans[1])
			}
			runRepoWalk(c, "C20", true, w, c.Seed*1019+int64(walks), "", nil)
			walks++
		}
	}
	walks += c20Locations(c, rng)
	walks += c20Lifecycle(c)
	walks += c20FailedSwapLeftover(c)
	walks += midSwapFault(c, "movedIn")
	c.Set("states", states)
	c.Set("transitions", trans)
	c.Set("traces_validated_against_impl", int64(walks))
	c.Set("spec", "CrlRepo.tla file-system variables (final store directory, staging store, store moved aside, download file): NoResidue (quiescent => no temporary artefact), LiveKept, OnlyAccepted; lifecycle part: Released (after Cleanup the work_dir is deregistered, the ticker goroutine gone, database handles closed)")
	c.Set("rule", "a case is one edge of the loader graph with the classified work_dir listing taken after it (successful and failing runs of first load and refresh, both backends), a location string of a hostile class (traversal, encoded separators, very long, unicode, equal after normalisation, names resembling the temp pattern) taken in as a CDP, or a provision/cleanup cycle; violation iff temporary artefacts remain when quiescent, anything appears outside work_dir, a live store vanishes, distinct locations share a store or one location maps to different stores across restarts, or Cleanup leaves goroutines / open handles / the work_dir registered")
}

// C12 — crash consistency of disk storage.
func C12(c *vk.Ctx) {
	rng := rand.New(rand.NewSource(c.Seed))
	full := modelCheckRepoFull(c, true, 2)
	c.Set("states", full.Distinct)
	c.Set("transitions", full.Generated)
	g, _ := exportRepoGraph(c, true, 3)
	imgRoot, _ := os.MkdirTemp("", "verif.images.")
	defer os.RemoveAll(imgRoot)
	walks, images := 0, 0
	init := freshInit(g)
	for wi, plans := range repoScenarios(rng, c.Thorough()) {
		if c.Violations() > 8 {
			break
		}
		w := guidedWalk(g, init, plans)
		dir := filepath.Join(imgRoot, fmt.Sprintf("walk-%d", wi))
		os.Mkdir(dir, 0o755)
		var imgs []crashImage
		// every walk under "verify" and under "none" (without signature validation nothing stands between the parser and the
		// store: the staging discipline alone keeps unaccepted data out of a restart's sight); forged lists only under "verify"
		for _, sig := range []string{"verify", "none"} {
			forceRepoWalkSig = sig
			imgs = runRepoWalk(c, "C12", true, w, c.Seed*1201+int64(walks), dir, func(rw *repoWorld, imgs []crashImage) {
				for _, im := range imgs {
					c12Restart(c, rw, im)
				}
			})
			forceRepoWalkSig = ""
			walks++
			images += len(imgs)
			os.RemoveAll(dir)
			os.Mkdir(dir, 0o755)
			forged := false
			for _, p := range plans {
				forged = forged || p.Kind == "badsig"
			}
			if forged {
				break
			}
		}
		os.RemoveAll(dir)
		if wi == 0 {
			c.Sample(map[string]any{"ops": opsOf(w, 14), "images": len(imgs)})
		}
	}
	if c.Thorough() {
		images += c12Kill(c, rng)
	}
	c.Set("crash_images", int64(images))
	c.Set("traces_validated_against_impl", int64(walks))
	c.Set("spec", "CrlRepo.tla with Crash enabled at every loader pc and Restart (temp sweep, Loaded := meta record present): CrashSafe, OnlyAccepted, NoResidue")
	c.Set("rule", "a case is a crash image: work_dir copied while the real loader is parked at a verif hook (after the download, after staging, after parsing, before the swap, between each of the six steps of the directory swap, after it) for first loads and refreshes with acceptable and rejected documents, under signature validation verify and (walks without forged lists) none; a fresh validator with the same mode is provisioned on each image with the origin serving garbage and crl_cdp_strict on; violation iff it treats the location as loaded with anything but the complete previous or the complete new accepted list, or temporary artefacts survive Provision")
	c.Assume("SIGKILL of the process, not power loss: a copy of a live LevelDB directory contains every completed write (no fsync modelling)")
}

// restingNames: names (other than stores and known temporaries) seen in work_dir while no run was in progress
var restingNames sync.Map

// c12Restart provisions a fresh validator on a crash image and checks what it treats as loaded.
func c12Restart(c *vk.Ctx, parent *repoWorld, im crashImage) {
	rw, err := newRepoWorldOnImage(parent, im.Dir)
	if err != nil {
		c.Infra("restart on image: %v", err)
	}
	defer rw.w.Destroy()
	c.Eval(fmt.Sprintf("image|%s|%s|%s|%s|%v", im.Kind, im.Lpc, im.Prev, im.New, im.NewAcc))
	rep := map[string]any{"crash_at": im.Lpc, "site": im.Site, "kind": im.Kind, "previous_list": im.Prev, "new_list": im.New, "new_acceptable": im.NewAcc, "steps": im.Hist}
	l := rw.w.Listing()
	if len(l.Temps) > 0 {
		c.Violation("temporary-artefacts-survive-startup:crash-at="+im.Lpc, fmt.Sprintf("after Provision on the crash image work_dir still contains %v", l.Temps), rep)
	}
	// whatever else the dead process had created for the interrupted run (the harness puts nothing into these directories) and
	// that a process at rest never keeps: a leftover under any name
	var left []string
	for _, n := range l.Other {
		if _, ok := restingNames.Load(n); !ok {
			left = append(left, n)
		}
	}
	if len(left) > 0 {
		c.Violation("leftover-of-interrupted-run-survives-startup:crash-at="+im.Lpc, fmt.Sprintf("after Provision on the crash image work_dir still contains %v, which no run at rest ever had there", left), rep)
	}
	// the origin serves garbage: nothing can be (re)loaded, strict is on: "not loaded" shows as an error
	res := map[string]probeResult{}
	for _, n := range []string{"x", "y", "z"} {
		r := rw.w.HandshakeTimeout(rw.chains["cdp-"+n], 30*time.Second)
		res[n] = probeResult{Cert: n, Verdict: r.Verdict, Err: r.Err}
	}
	rep["after_restart"] = res
	got, ok := listedOf(res)
	if !ok {
		if im.Loaded {
			c.Drift("restart-not-loaded-where-spec-says-loaded:" + im.Lpc)
		}
		return // not loaded (strict denies): always safe
	}
	allowed := map[string]bool{im.Prev: true}
	if im.NewAcc {
		allowed[im.New] = true
	}
	if !allowed[got] || (im.Kind == "first" && !im.NewAcc) || (im.Kind == "rest" && !im.Loaded) {
		c.Violation(fmt.Sprintf("loaded-after-crash-with-unaccepted-data:kind=%s:crash-at=%s:new-acceptable=%v", im.Kind, im.Lpc, im.NewAcc),
			fmt.Sprintf("after a crash at %s the restarted validator treats the location as loaded with revoked={%s}; the previous accepted list is {%s}, the new one {%s} (acceptable=%v)", im.Lpc, got, im.Prev, im.New, im.NewAcc), rep)
	}
	if got != im.Keys && im.Loaded {
		c.Drift("restart-content-differs:" + im.Lpc)
	}
}

var _ = world.Accept

// biasedWalk: a seeded walk that prefers loader steps over further publish steps (there are 26 publish edges per idle state).
func biasedWalk(g *graph.Graph, n int, rng *rand.Rand) []*graph.Edge {
	var walk []*graph.Edge
	cur := g.Init
	for len(walk) < n {
		outs := g.Out[cur]
		if len(outs) == 0 {
			break
		}
		var steps, pubs []*graph.Edge
		for _, e := range outs {
			if strings.HasPrefix(string(e.Op), `["publish"`) {
				pubs = append(pubs, e)
			} else {
				steps = append(steps, e)
			}
		}
		var e *graph.Edge
		justPublished := len(walk) > 0 && strings.HasPrefix(string(walk[len(walk)-1].Op), `["publish"`)
		switch {
		case len(steps) > 0 && (len(pubs) == 0 || justPublished || rng.Intn(10) < 3):
			e = steps[rng.Intn(len(steps))]
		case len(pubs) > 0:
			e = pubs[rng.Intn(len(pubs))]
		default:
			e = outs[rng.Intn(len(outs))]
		}
		walk = append(walk, e)
		cur = e.To
	}
	return walk
}

// runPlan describes one loader run of a scenario: what the origin serves and whether a store fault is injected.
type runPlan struct {
	Kind   string   // origin kind: good | badsig | trunc | garbage | down
	Keys   []string // listed probes
	Inject string   // "" | "stageErr" | "insertErr"
	// ShutdownAt: the instance is cleaned up when the refresh of this plan is at that pc; a new instance is provisioned on the same
	// work_dir after the run has ended
	ShutdownAt string
}

func opName(e *graph.Edge) string {
	var op []any
	json.Unmarshal(e.Op, &op)
	s, _ := op[0].(string)
	return s
}

// guidedWalk follows the plans through the loader graph: publish what the plan serves, start a run, and at every
// nondeterministic branch take the failing edge only where the plan injects a fault.
func guidedWalk(g *graph.Graph, init string, plans []runPlan) []*graph.Edge {
	var walk []*graph.Edge
	cur := init
	for _, p := range plans {
		var st repoState
		json.Unmarshal(g.State[cur], &st)
		if st.Origin.Kind != p.Kind || keyStr(st.Origin.Keys) != keyStr(p.Keys) {
			found := false
			for _, e := range g.Out[cur] {
				if opName(e) != "publish" {
					continue
				}
				var to repoState
				json.Unmarshal(g.State[e.To], &to)
				if to.Origin.Kind == p.Kind && keyStr(to.Origin.Keys) == keyStr(p.Keys) {
					walk = append(walk, e)
					cur = e.To
					found = true
					break
				}
			}
			if !found {
				return walk
			}
		}
		started := false
		injected := false
		shut := false
		for steps := 0; steps < 60; steps++ {
			var pick *graph.Edge
			var ok, bad []*graph.Edge
			var cst repoState
			json.Unmarshal(g.State[cur], &cst)
			if p.ShutdownAt != "" && !cst.Closed && cst.Lpc == p.ShutdownAt && !shut {
				for _, e := range g.Out[cur] {
					if opName(e) == "shutdown" {
						walk = append(walk, e)
						cur = e.To
						shut = true
					}
				}
				if shut {
					continue
				}
			}
			for _, e := range g.Out[cur] {
				n := opName(e)
				if n == "publish" || (started && n == "start") || n == "shutdown" || n == "reprovision" {
					continue
				}
				var to repoState
				json.Unmarshal(g.State[e.To], &to)
				if to.Lpc == "failed" {
					bad = append(bad, e)
				} else {
					ok = append(ok, e)
				}
			}
			if len(ok)+len(bad) == 0 {
				break
			}
			wantFail := false
			if !injected && len(bad) > 0 {
				n := opName(bad[0])
				if (p.Inject == "stageErr" && n == "stage") || (p.Inject == "insertErr" && n == "parse") {
					wantFail = true
				}
				for _, b := range bad {
					if p.Inject == "signerErr" && opName(b) == "verify" {
						wantFail = true
						bad[0] = b
					}
				}
				for _, b := range bad {
					if p.Inject == "swapErr" && opName(b) == "swapFault" {
						wantFail = true
						bad[0] = b
					}
				}
			}
			switch {
			case wantFail:
				pick, injected = bad[0], true
			case len(ok) > 0:
				pick = ok[0]
			default:
				pick = bad[0]
			}
			walk = append(walk, pick)
			cur = pick.To
			if opName(pick) == "start" {
				started = true
			}
			if opName(pick) == "done" {
				break
			}
		}
		if shut {
			for _, e := range g.Out[cur] {
				if opName(e) == "reprovision" {
					walk = append(walk, e)
					cur = e.To
				}
			}
		}
	}
	return walk
}

func freshInit(g *graph.Graph) string {
	best := ""
	for s, raw := range g.State {
		var st repoState
		json.Unmarshal(raw, &st)
		if st.Lpc == "idle" && st.Runs == 0 && !st.Loaded && !st.Final.Meta && st.Up && st.Origin.Kind == "good" && len(st.Origin.Keys) == 0 {
			if best == "" || s < best {
				best = s
			}
		}
	}
	return best
}

// repoScenarios: first loads and refreshes with every outcome, each followed by a successful run
// ("a later successful refresh still takes effect").
func repoScenarios(rng *rand.Rand, thorough bool) [][]runPlan {
	old := runPlan{Kind: "good", Keys: []string{"x", "z"}}
	newer := runPlan{Kind: "good", Keys: []string{"y", "z"}}
	variants := []runPlan{
		newer,
		{Kind: "badsig", Keys: []string{"y", "z"}},
		{Kind: "trunc", Keys: []string{"y", "z"}},
		{Kind: "garbage"},
		{Kind: "down"},
		{Kind: "good", Keys: []string{"y", "z"}, Inject: "stageErr"},
		{Kind: "good", Keys: []string{"y", "z"}, Inject: "insertErr"},
		{Kind: "good", Keys: []string{"y", "z"}, Inject: "swapErr"},
		{Kind: "good", Keys: []string{"y", "z"}, Inject: "signerErr"},
		{Kind: "good", Keys: []string{}},
		{Kind: "good", Keys: []string{"x", "y", "z"}},
	}
	var out [][]runPlan
	for _, v := range variants {
		out = append(out, []runPlan{old, v, newer})                                      // refresh with every outcome, then a successful one
		out = append(out, []runPlan{v, {Kind: "good", Keys: []string{"x", "z"}}, newer}) // first load with every outcome, then success, then refresh
	}
	if !thorough {
		rng.Shuffle(len(out), func(i, j int) { out[i], out[j] = out[j], out[i] })
	}
	return out
}

// shutdownScenarios: a refresh is in flight (at every pc before the swap) when the instance is cleaned up; the run ends by itself,
// a new instance is provisioned on the same work_dir and refreshes successfully.
func shutdownScenarios() [][]runPlan {
	old := runPlan{Kind: "good", Keys: []string{"x", "z"}}
	var out [][]runPlan
	for _, at := range []string{"tmp", "info", "fetching", "fetched", "staged", "parsed", "verified"} {
		out = append(out, []runPlan{old, {Kind: "good", Keys: []string{"y", "z"}, ShutdownAt: at}, {Kind: "good", Keys: []string{"x", "y", "z"}}})
	}
	return out
}
