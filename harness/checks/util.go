package checks

import (
	"bytes"
	"encoding/json"
	"encoding/pem"
)

func jsonUnmarshal(b []byte, v any) error { return json.Unmarshal(b, v) }

func bytesReader(b []byte) *bytes.Reader { return bytes.NewReader(b) }

type pemBlock = pem.Block

func pemDecode(b []byte) (*pem.Block, []byte) { return pem.Decode(b) }
