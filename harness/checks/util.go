package checks

import (
	"bytes"
	"encoding/json"
)

func jsonUnmarshal(b []byte, v any) error { return json.Unmarshal(b, v) }

func bytesReader(b []byte) *bytes.Reader { return bytes.NewReader(b) }
