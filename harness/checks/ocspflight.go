package checks

import (
	"bytes"
	"crypto/x509"
	"crypto/x509/pkix"
	"encoding/asn1"
	"encoding/json"
	"fmt"
	"math/big"
	"math/rand"
	"sort"
	"strings"
	"sync"
	"time"

	"github.com/gr33nbl00d/caddy-revocation-validator/config"
	ocspchk "github.com/gr33nbl00d/caddy-revocation-validator/ocsp"
	"github.com/muesli/cache2go"
	"go.uber.org/zap"
	"golang.org/x/crypto/ocsp"

	"verif/harness/graph"
	"verif/harness/origin"
	"verif/harness/pki"
	"verif/harness/tlcrun"
	"verif/harness/vk"
)

// ---------------------------------------------------------------------------------------------
// OcspFlight.tla: OCSP queries with a duration, several of them in flight at a time. The responder is the scheduler gate:
// it keeps every request until the specification takes the Answer step of that query (no hook in the checker is needed).
// ---------------------------------------------------------------------------------------------

type flightCfg struct {
	Cls     map[string]string `json:"cls"`
	Strict  map[string]bool   `json:"strict"`
	CacheOn bool              `json:"cacheOn"`
}

func (f flightCfg) key() string { b, _ := json.Marshal(f); return string(b) }

type flightExpect struct {
	Kind    string `json:"kind"`
	S       string `json:"s"`
	V       string `json:"v"`
	C       string `json:"c"`
	Served  string `json:"served"`
	Verdict string `json:"verdict"`
	Asked   bool   `json:"asked"`
}

func exportFlightGraphs(c *vk.Ctx, maxBegins int) (map[string]*graph.Graph, []flightCfg, tlcrun.Result) {
	mc := `---- MODULE MCOcspFlight ----
EXTENDS OcspFlight
CfgVal == {[cls |-> k, strict |-> [v \in {"v1","v2"} |-> v = "v2"], cacheOn |-> b] : k \in [{"cA","cB"} -> {"good","revoked","http500"}], b \in BOOLEAN}
====
`
	cfgText := fmt.Sprintf("SPECIFICATION Spec\nCONSTANTS\n CfgSpace <- CfgVal\n MaxBegins = %d\n Merge = FALSE\n Export = TRUE\nPROPERTIES OwnAnswerOnly RevokedRejects StrictNeedsAnswer\nINVARIANTS KeyRight\nCHECK_DEADLOCK FALSE\nVIEW View\n", maxBegins)
	gs := map[string]*graph.Graph{}
	var cfgs []flightCfg
	var perr error
	res := tlcrun.Run(tlcrun.Options{SpecDir: vk.SpecDir(), Module: "MCOcspFlight", Config: cfgText, Workers: 4,
		Files: map[string][]byte{"MCOcspFlight.tla": []byte(mc)},
		OnTagged: func(tag string, p json.RawMessage) {
			if tag != "EDGE" {
				return
			}
			var hdr struct {
				From struct {
					Cfg flightCfg `json:"cfg"`
				} `json:"from"`
			}
			if err := json.Unmarshal(p, &hdr); err != nil {
				perr = err
				return
			}
			k := hdr.From.Cfg.key()
			if gs[k] == nil {
				gs[k] = graph.New()
				cfgs = append(cfgs, hdr.From.Cfg)
			}
			if err := gs[k].AddPayload(p); err != nil {
				perr = err
			}
		}})
	if res.InfraErr != nil {
		c.Infra("tlc OcspFlight: %v", res.InfraErr)
	}
	if !res.OK {
		c.Infra("OcspFlight.tla violates its properties (specification problem, not a verdict about the code):\n%s", res.Violation)
	}
	if perr != nil {
		c.Infra("edge payload: %v", perr)
	}
	for k, g := range gs {
		g.Finish("")
		for s, raw := range g.State {
			var st struct {
				Nb int `json:"nb"`
			}
			json.Unmarshal(raw, &st)
			if st.Nb == 0 {
				g.Init = s
			}
		}
		if g.Init == "" || len(g.Out[g.Init]) == 0 {
			c.Infra("initial state of the OcspFlight graph not found for %s", k)
		}
	}
	sort.Slice(cfgs, func(i, j int) bool { return cfgs[i].key() < cfgs[j].key() })
	return gs, cfgs, res
}

type flightReq struct {
	c       string
	release chan struct{}
}

type flightSlot struct {
	c, v    string
	done    chan ocspReal
	req     *flightReq
	stalled bool
	early   *ocspReal // the query ended at Begin although the specification says it is in flight
}

type flightWorld struct {
	cfg      flightCfg
	org      *origin.Server
	issuers  map[string]*pki.CA
	leaves   map[string]*pki.Leaf
	chains   map[string][][]*x509.Certificate
	checkers map[string]*ocspchk.OCSPRevocationChecker
	mu       sync.Mutex
	parked   []*flightReq
	arrive   chan struct{}
	slots    map[string]*flightSlot
	unknown  int
	closing  bool
}

const flightPath = "/ocsp/shared"

func newFlightWorld(cfg flightCfg, seed int64) *flightWorld {
	w := &flightWorld{cfg: cfg, org: origin.New(), issuers: map[string]*pki.CA{}, leaves: map[string]*pki.Leaf{}, chains: map[string][][]*x509.Certificate{},
		checkers: map[string]*ocspchk.OCSPRevocationChecker{}, arrive: make(chan struct{}, 64), slots: map[string]*flightSlot{}}
	for ci, c := range []string{"cA", "cB"} {
		io := pki.CAOpts{Name: "Flight Issuer " + c, Serial: int64(300 + ci)}
		if ci == 1 && seed%2 == 0 {
			io.SKI = w.issuers["cA"].Cert.SubjectKeyId // the second issuer claims the first one's key identifier
		}
		iss := pki.NewCA(io)
		w.issuers[c] = iss
		// same subject, same serial, same responder URL under both issuers
		w.leaves[c] = iss.Leaf(pki.LeafOpts{CN: "shared subject", Serial: big.NewInt(4242), OCSP: []string{w.org.URL + flightPath}})
		w.chains[c] = pki.Chain(w.leaves[c].Cert, iss)
	}
	for _, v := range []string{"v1", "v2"} {
		ch := &ocspchk.OCSPRevocationChecker{}
		dur := time.Duration(0)
		if cfg.CacheOn {
			dur = time.Hour
		}
		ch.Provision(&config.OCSPConfig{OCSPAIAStrict: cfg.Strict[v], DefaultCacheDurationParsed: dur}, zap.NewNop())
		w.checkers[v] = ch
	}
	cache2go.Cache("ocsp_client").Flush()
	w.org.Set(flightPath, origin.Behaviour{Kind: "func", Func: w.serve})
	return w
}

func (w *flightWorld) close() {
	// from now on no request is kept; those that are parked go on
	w.mu.Lock()
	w.closing = true
	for _, r := range w.parked {
		close(r.release)
	}
	w.parked = nil
	w.mu.Unlock()
	for _, s := range w.slots {
		if s.req != nil {
			close(s.req.release) // a query still in flight when the walk ends
			s.req = nil
		}
	}
	for _, s := range w.slots {
		if s.early != nil {
			continue
		}
		select {
		case <-s.done:
		case <-time.After(10 * time.Second):
		}
	}
	for _, ch := range w.checkers {
		ch.Cleanup()
	}
	cache2go.Cache("ocsp_client").Flush()
	w.org.Close()
}

// whichCert decodes a request as a responder does: which of the two certificates is it about? "" = neither.
func (w *flightWorld) whichCert(raw []byte) string {
	r, err := ocsp.ParseRequest(raw)
	if err != nil || !r.HashAlgorithm.Available() || r.SerialNumber == nil {
		return ""
	}
	for _, c := range []string{"cA", "cB"} {
		iss := w.issuers[c].Cert
		var spki struct {
			Algorithm pkix.AlgorithmIdentifier
			PublicKey asn1.BitString
		}
		if _, err := asn1.Unmarshal(iss.RawSubjectPublicKeyInfo, &spki); err != nil {
			continue
		}
		h := r.HashAlgorithm.New()
		h.Write(iss.RawSubject)
		nameHash := h.Sum(nil)
		h.Reset()
		h.Write(spki.PublicKey.RightAlign())
		keyHash := h.Sum(nil)
		if bytes.Equal(nameHash, r.IssuerNameHash) && bytes.Equal(keyHash, r.IssuerKeyHash) && r.SerialNumber.Cmp(w.leaves[c].Cert.SerialNumber) == 0 {
			return c
		}
	}
	return ""
}

// serve keeps the request until the specification's Answer step of its query, then answers about the certificate asked for.
func (w *flightWorld) serve(raw []byte) (int, []byte) {
	c := w.whichCert(raw)
	if c == "" {
		w.mu.Lock()
		w.unknown++
		w.mu.Unlock()
		return 200, pki.OCSPErrorResponse(6) // unauthorized: not a certificate this responder knows
	}
	req := &flightReq{c: c, release: make(chan struct{})}
	w.mu.Lock()
	if w.closing {
		close(req.release)
	} else {
		w.parked = append(w.parked, req)
	}
	w.mu.Unlock()
	select {
	case w.arrive <- struct{}{}:
	default:
	}
	<-req.release
	iss := w.issuers[c]
	mk := func(status int) []byte {
		return pki.OCSPResponse(pki.OCSPOpts{Status: status, Serial: w.leaves[c].Cert.SerialNumber, Issuer: iss.Cert, Signer: iss, SignerCert: iss.Cert, ThisUpdate: time.Now().Add(-time.Minute)})
	}
	switch w.cfg.Cls[c] {
	case "good":
		return 200, mk(ocsp.Good)
	case "revoked":
		return 200, mk(ocsp.Revoked)
	}
	return 500, []byte("internal server error\n")
}

func (w *flightWorld) takeParked(c string) *flightReq {
	w.mu.Lock()
	defer w.mu.Unlock()
	for i, r := range w.parked {
		if r.c == c {
			w.parked = append(w.parked[:i], w.parked[i+1:]...)
			return r
		}
	}
	return nil
}

func (w *flightWorld) begin(s, v, c string) *flightSlot {
	sl := &flightSlot{c: c, v: v, done: make(chan ocspReal, 1)}
	w.slots[s] = sl
	go func() {
		var r ocspReal
		func() {
			defer func() {
				if p := recover(); p != nil {
					r.Verdict, r.Err = "panic", fmt.Sprint(p)
				}
			}()
			st, err := w.checkers[v].IsRevoked(w.leaves[c].Cert, w.chains[c])
			switch {
			case err != nil:
				r.Verdict, r.Err = "error", err.Error()
			case st != nil && st.Revoked:
				r.Verdict = "revoked"
			default:
				r.Verdict = "accept"
			}
		}()
		sl.done <- r
	}()
	deadline := time.After(1500 * time.Millisecond)
	for {
		if r := w.takeParked(c); r != nil {
			sl.req = r
			return sl
		}
		select {
		case r := <-sl.done:
			sl.early = &r
			return sl
		case <-w.arrive:
		case <-deadline:
			sl.stalled = true
			return sl
		}
	}
}

// answer lets the responder reply to the query of slot s and waits for its verdict.
func (w *flightWorld) answer(s string) ocspReal {
	sl := w.slots[s]
	if sl == nil {
		return ocspReal{Verdict: "none"}
	}
	if sl.early != nil {
		return *sl.early
	}
	if sl.req != nil {
		close(sl.req.release)
		sl.req = nil
	}
	deadline := time.After(20 * time.Second)
	for {
		// further requests of the same query (another issuer candidate, a retry) are answered at once
		if r := w.takeParked(sl.c); r != nil {
			close(r.release)
		}
		select {
		case r := <-sl.done:
			return r
		case <-w.arrive:
		case <-time.After(50 * time.Millisecond):
		case <-deadline:
			return ocspReal{Verdict: "hang"}
		}
	}
}

// runFlightWalk replays one walk; prop selects which property's predicate judges a difference.
func runFlightWalk(c *vk.Ctx, prop string, cfg flightCfg, walk []*graph.Edge, seed int64) {
	w := newFlightWorld(cfg, seed)
	defer w.close()
	type step struct {
		Op     json.RawMessage `json:"op"`
		Expect json.RawMessage `json:"expect"`
		Real   any             `json:"real,omitempty"`
	}
	var hist []step
	judge := func(exp flightExpect, real ocspReal, other string) {
		if real.Verdict == exp.Verdict {
			return
		}
		rep := map[string]any{"cfg": cfg, "steps": hist}
		own := cfg.Cls[exp.C]
		sig := ""
		switch {
		case real.Verdict == "hang" || real.Verdict == "panic":
			if prop == "C13" {
				sig = "flight:" + real.Verdict
			}
		case exp.Verdict == "revoked" && real.Verdict == "accept":
			// its own responder says revoked (authentic), yet accepted: C02; and something else decided: C05
			sig = fmt.Sprintf("flight:authentic-revoked-accepted:own=%s:in-flight=%s", own, other)
		case exp.Verdict == "accept" && real.Verdict == "revoked":
			if prop != "C02" {
				sig = fmt.Sprintf("flight:revoked-without-own-answer:own=%s:in-flight=%s", own, other)
			}
		case exp.Verdict == "error" && real.Verdict == "accept":
			sig = fmt.Sprintf("flight:strict-accepted-without-own-answer:own=%s:in-flight=%s", own, other)
		case exp.Verdict == "accept" && real.Verdict == "error":
			if prop == "C02" && !cfg.Strict[exp.V] {
				sig = fmt.Sprintf("flight:lenient-denied:own=%s:in-flight=%s", own, other)
			}
		}
		if sig == "" {
			c.Drift("flight-verdict:" + exp.Verdict + "->" + real.Verdict)
			return
		}
		c.Violation(sig, fmt.Sprintf("query of %s on %s (its responder's class for it: %s) while another query (%s) was in flight or had been answered: verdict %s, alone it yields %s",
			exp.C, exp.V, own, other, real.Verdict, exp.Verdict), rep)
	}
	for ei, e := range walk {
		var op []any
		json.Unmarshal(e.Op, &op)
		var exp flightExpect
		json.Unmarshal(e.Expect, &exp)
		// what else is in flight (context for the signature)
		other := "none"
		var from struct {
			Fl map[string]struct {
				St string `json:"st"`
				C  string `json:"c"`
			} `json:"fl"`
		}
		json.Unmarshal([]byte(e.From), &from)
		for s, f := range from.Fl {
			if f.St == "asked" && (len(op) < 2 || s != op[1]) {
				other = cfg.Cls[f.C]
			}
		}
		st := step{Op: e.Op, Expect: e.Expect}
		switch op[0] {
		case "begin":
			sl := w.begin(op[1].(string), op[2].(string), op[3].(string))
			switch {
			case sl.stalled:
				// the code did not ask the responder where the specification's query does: the walk ends here. Every query in
				// flight is answered now, and each verdict is judged by what that query yields alone.
				st.Real = "neither a request at the responder nor a result within 1.5 s"
				c.Drift("flight-begin-stalled")
				hist = append(hist, st)
				w.mu.Lock()
				w.closing = true
				for _, r := range w.parked {
					close(r.release)
				}
				w.parked = nil
				w.mu.Unlock()
				for _, o := range w.slots {
					if o.req != nil {
						close(o.req.release)
						o.req = nil
					}
				}
				for s, o := range w.slots {
					var r ocspReal
					select {
					case r = <-o.done:
					case <-time.After(10 * time.Second):
						r = ocspReal{Verdict: "hang"}
					}
					o.early = &r
					alone := "accept"
					switch {
					case cfg.Cls[o.c] == "revoked":
						alone = "revoked"
					case cfg.Cls[o.c] == "http500" && cfg.Strict[o.v]:
						alone = "error"
					}
					ctx := "none"
					for s2, o2 := range w.slots {
						if s2 != s {
							ctx = cfg.Cls[o2.c]
						}
					}
					hist = append(hist, step{Op: json.RawMessage(fmt.Sprintf(`["answer-all",%q]`, s)), Real: r})
					judge(flightExpect{Kind: "answer", S: s, V: o.v, C: o.c, Verdict: alone}, r, ctx)
				}
				return
			case sl.early != nil:
				st.Real = sl.early
				if !exp.Asked {
					hist = append(hist, st)
					judge(exp, *sl.early, other)
					delete(w.slots, op[1].(string))
					c.Eval(cfg.key() + "|" + e.From + "|" + string(e.Op))
					continue
				}
				c.Drift("flight-ended-without-request")
			default:
				st.Real = "request parked at the responder"
				if !exp.Asked {
					// the specification answers from the cache, the code asked the responder: let it through
					c.Drift("flight-asked-where-spec-hits-cache")
					hist = append(hist, st)
					r := w.answer(op[1].(string))
					judge(exp, r, other)
					delete(w.slots, op[1].(string))
					continue
				}
			}
		case "answer":
			// when the reply to the other query in flight follows immediately in the specification, both replies are let go at the
			// same moment: the two queries then judge their replies in parallel (what the first one still reads is not the second
			// one's to reuse)
			if ei+1 < len(walk) {
				var nop []any
				json.Unmarshal(walk[ei+1].Op, &nop)
				if len(nop) > 1 && nop[0] == "answer" && nop[1] != op[1] {
					if o := w.slots[nop[1].(string)]; o != nil && o.req != nil && o.early == nil {
						close(o.req.release)
						o.req = nil
					}
				}
			}
			r := w.answer(op[1].(string))
			st.Real = r
			hist = append(hist, st)
			judge(exp, r, other)
			delete(w.slots, op[1].(string))
			c.Eval(cfg.key() + "|" + e.From + "|" + string(e.Op))
			if r.Verdict == "hang" {
				return
			}
			continue
		}
		hist = append(hist, st)
		c.Eval(cfg.key() + "|" + e.From + "|" + string(e.Op))
		if c.Violations() > 6 {
			return
		}
	}
}

// ocspFlight replays the OcspFlight graphs: covering tours per configuration.
func ocspFlight(c *vk.Ctx, prop string, rng *rand.Rand) int {
	gs, cfgs, res := exportFlightGraphs(c, c.Pick(3, 4))
	c.Add("states", res.Distinct)
	walks := 0
	for ci, cfg := range cfgs {
		g := gs[cfg.key()]
		c.Add("transitions", int64(len(g.Edges)))
		if !c.Thorough() && prop != "C05" && ci%2 == 1 {
			continue
		}
		for wi, wk := range g.Tour(14, rng) {
			if c.Violations() > 3 {
				return walks
			}
			runFlightWalk(c, prop, cfg, wk, c.Seed+int64(ci*100+wi))
			walks++
			if walks == 1 {
				c.Sample(map[string]any{"kind": "ocsp-flight-walk", "cfg": cfg, "first_ops": opsOf(wk, 8)})
			}
		}
	}
	return walks
}

var _ = strings.Join
