package checks

import (
	"encoding/asn1"
	"fmt"
	"math/rand"

	"golang.org/x/crypto/ocsp"

	"verif/harness/origin"
	"verif/harness/vk"
)

// c05Mutations flips bytes inside the signed part or the signature of an authentic response: the
// result must be treated as no answer (strict => error).
func c05Mutations(c *vk.Ctx) int {
	n := c.Pick(60, 3000)
	rng := rand.New(rand.NewSource(c.Seed + 5))
	cfg := ocspCfg(true, 0, "absent", []string{"good"}, nil)
	w := newOcspWorld(cfg, c.Seed)
	defer w.close()
	w.mu.Lock()
	w.claim["cA"] = ocsp.Good
	w.mu.Unlock()
	_, authentic := w.respond("cA", "revoked")
	// locate tbsResponseData and signature inside the DER
	lo, hi, ok := ocspSignedRegion(authentic)
	if !ok {
		c.Infra("cannot locate signed region of an OCSP response")
	}
	done := 0
	for i := 0; i < n; i++ {
		pos := lo + rng.Intn(hi-lo)
		mut := append([]byte(nil), authentic...)
		mut[pos] ^= byte(1 << uint(rng.Intn(8)))
		w.org.Set(ocspPath("cA", 1), origin.Behaviour{Kind: "body", Body: mut})
		r := w.query("v1", "cA")
		c.Eval(fmt.Sprintf("mut@%d", pos))
		done++
		// the authentic response says revoked; a mutated one counts for nothing: strict => error.
		// "revoked" would also be a rejection and is not flagged (fail closed); "accept" means a forged "good" was believed.
		if r.Verdict == "accept" {
			c.Violation("mutated-response-accepted", fmt.Sprintf("flipping one bit at offset %d of the signed part/signature of an authentic OCSP response still produced an accepted answer under strict", pos),
				map[string]any{"offset": pos, "len": len(authentic)})
			break
		}
	}
	return done
}

// ocspSignedRegion returns the byte range covering tbsResponseData .. signature of a BasicOCSPResponse.
func ocspSignedRegion(der []byte) (int, int, bool) {
	var outer struct {
		Status   asn1.Enumerated
		Response struct {
			Type     asn1.ObjectIdentifier
			Response []byte
		} `asn1:"explicit,tag:0"`
	}
	if _, err := asn1.Unmarshal(der, &outer); err != nil {
		return 0, 0, false
	}
	basic := outer.Response.Response
	var b struct {
		TBS       asn1.RawValue
		Alg       asn1.RawValue
		Signature asn1.BitString
		Certs     asn1.RawValue `asn1:"optional,explicit,tag:0"`
	}
	if _, err := asn1.Unmarshal(basic, &b); err != nil {
		return 0, 0, false
	}
	// offset of basic inside der
	off := -1
	for i := 0; i+len(basic) <= len(der); i++ {
		if string(der[i:i+len(basic)]) == string(basic) {
			off = i
			break
		}
	}
	if off < 0 {
		return 0, 0, false
	}
	// skip the outer SEQUENCE header of basic (tag + length bytes)
	hdr := len(basic) - len(b.TBS.FullBytes) - len(b.Alg.FullBytes) - (len(b.Signature.Bytes) + 5) - len(b.Certs.FullBytes)
	if hdr < 2 || hdr > 6 {
		hdr = 4
	}
	lo := off + hdr
	hi := lo + len(b.TBS.FullBytes) + len(b.Alg.FullBytes) + len(b.Signature.Bytes)
	if hi > len(der) {
		hi = len(der)
	}
	return lo, hi, true
}
