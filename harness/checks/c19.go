package checks

import (
	"encoding/json"
	"fmt"
	"math/rand"
	"os"
	"path/filepath"
	"reflect"
	"strings"
	"time"

	"github.com/caddyserver/caddy/v2"
	"github.com/caddyserver/caddy/v2/caddyconfig/caddyfile"
	revocation "github.com/gr33nbl00d/caddy-revocation-validator"
	"github.com/gr33nbl00d/caddy-revocation-validator/config"

	"verif/harness/origin"
	"verif/harness/pki"
	"verif/harness/tlcrun"
	"verif/harness/vk"
)

// cfgRec mirrors the configuration record of Config.tla.
type cfgRec struct {
	Mode      string `json:"mode"`
	CrlCfg    bool   `json:"crlcfg"`
	WorkDir   bool   `json:"workdir"`
	Storage   string `json:"storage"`
	Interval  string `json:"interval"`
	Sig       string `json:"sig"`
	Urls      string `json:"urls"`
	Files     string `json:"files"`
	Trusted   string `json:"trusted"`
	CdpCfg    bool   `json:"cdpcfg"`
	Fetch     string `json:"fetch"`
	CdpStrict string `json:"cdpstrict"`
	OcspCfg   bool   `json:"ocspcfg"`
	Cache     string `json:"cache"`
	AiaStrict string `json:"aiastrict"`
	Responder string `json:"responder"`
	Unknown   string `json:"unknown"`
}

func (r cfgRec) TLA() string {
	return fmt.Sprintf(`[mode |-> %q, crlcfg |-> %s, workdir |-> %s, storage |-> %q, interval |-> %q, sig |-> %q, urls |-> %q, files |-> %q, trusted |-> %q, cdpcfg |-> %s, fetch |-> %q, cdpstrict |-> %q, ocspcfg |-> %s, cache |-> %q, aiastrict |-> %q, responder |-> %q, unknown |-> %q]`,
		r.Mode, tlaBool(r.CrlCfg), tlaBool(r.WorkDir), r.Storage, r.Interval, r.Sig, r.Urls, r.Files, r.Trusted, tlaBool(r.CdpCfg), r.Fetch, r.CdpStrict, tlaBool(r.OcspCfg), r.Cache, r.AiaStrict, r.Responder, r.Unknown)
}

func (r cfgRec) normalise() cfgRec {
	for _, p := range []*string{&r.Urls, &r.Files, &r.Trusted, &r.Responder} {
		if *p == "" {
			*p = "none"
		}
	}
	for _, p := range []*string{&r.Mode, &r.Storage, &r.Interval, &r.Sig, &r.Fetch, &r.CdpStrict, &r.Cache, &r.AiaStrict} {
		if *p == "" {
			*p = "absent"
		}
	}
	if r.Unknown == "" {
		r.Unknown = "none"
	}
	if !r.CrlCfg {
		r.WorkDir, r.Storage, r.Interval, r.Sig, r.Urls, r.Files, r.Trusted, r.CdpCfg = false, "absent", "absent", "absent", "none", "none", "none", false
		if r.Unknown == "crl" || r.Unknown == "cdp" {
			r.Unknown = "none"
		}
	}
	if !r.CdpCfg {
		r.Fetch, r.CdpStrict = "absent", "absent"
		if r.Unknown == "cdp" {
			r.Unknown = "none"
		}
	}
	if !r.OcspCfg {
		r.Cache, r.AiaStrict, r.Responder = "absent", "absent", "none"
		if r.Unknown == "ocsp" {
			r.Unknown = "none"
		}
	}
	return r
}

type effCrl struct {
	On        bool   `json:"on"`
	Storage   string `json:"storage,omitempty"`
	Interval  string `json:"interval,omitempty"`
	Sig       string `json:"sig,omitempty"`
	Urls      string `json:"urls,omitempty"`
	Files     string `json:"files,omitempty"`
	Trusted   string `json:"trusted,omitempty"`
	Fetch     string `json:"fetch,omitempty"`
	CdpStrict string `json:"cdpstrict,omitempty"`
}
type effOcsp struct {
	Cache     string `json:"cache"`
	AiaStrict string `json:"aiastrict"`
	Responder string `json:"responder"`
}
type effective struct {
	Reject bool    `json:"reject"`
	Mode   string  `json:"mode,omitempty"`
	Crl    effCrl  `json:"crl"`
	Ocsp   effOcsp `json:"ocsp"`
}

type cfgCase struct {
	Cfg       cfgRec    `json:"cfg"`
	Effective effective `json:"effective"`
	Provision bool      `json:"provision"`
}

func exportConfigRows(c *vk.Ctx, recs []cfgRec) ([]cfgCase, tlcrun.Result) {
	q := make([]string, len(recs))
	for i, r := range recs {
		q[i] = r.TLA()
	}
	mc := fmt.Sprintf("---- MODULE MCConfig ----\nEXTENDS Config\nCfgVal == {%s}\n====\n", strings.Join(q, ",\n  "))
	cfg := "SPECIFICATION Spec\nCONSTANTS\n CfgSpace <- CfgVal\n Export = TRUE\nINVARIANTS InSpace Defaults RejectUnknown NoIgnoring ValidProvisions\nCHECK_DEADLOCK FALSE\n"
	var rows []cfgCase
	var perr error
	res := tlcrun.Run(tlcrun.Options{SpecDir: vk.SpecDir(), Module: "MCConfig", Config: cfg, Workers: 4,
		Files: map[string][]byte{"MCConfig.tla": []byte(mc)},
		OnTagged: func(tag string, p json.RawMessage) {
			if tag != "CFG" {
				return
			}
			var r cfgCase
			if err := json.Unmarshal(p, &r); err != nil {
				perr = err
				return
			}
			rows = append(rows, r)
		}})
	if res.InfraErr != nil {
		c.Infra("tlc Config: %v", res.InfraErr)
	}
	if !res.OK {
		c.Infra("Config.tla violates its properties (specification problem):\n%s", res.Violation)
	}
	if perr != nil {
		c.Infra("CFG payload: %v", perr)
	}
	return rows, res
}

// ---- rendering -----------------------------------------------------------------------------------------

type cfgEnv struct {
	org       *origin.Server
	dir       string
	crlFile   string
	trustFile string
	respFile  string
	n         int
}

func newCfgEnv() *cfgEnv {
	e := &cfgEnv{org: origin.New()}
	e.dir, _ = os.MkdirTemp("", "verif.cfg.")
	ca := pki.NewCA(pki.CAOpts{Name: "Config CA", Serial: 80})
	crl := ca.SimpleCRL(1, 5, 6)
	e.org.SetBody("/cfg.crl", crl)
	e.crlFile = filepath.Join(e.dir, "configured.crl")
	os.WriteFile(e.crlFile, pki.PEMCRL(crl, false), 0o644)
	e.trustFile = filepath.Join(e.dir, "signer.pem")
	os.WriteFile(e.trustFile, pki.PEMCert(ca.Cert), 0o644)
	e.respFile = filepath.Join(e.dir, "responder.pem")
	os.WriteFile(e.respFile, pki.PEMCert(ca.Cert), 0o644)
	return e
}

func (e *cfgEnv) close() {
	e.org.Close()
	os.RemoveAll(e.dir)
}

func (e *cfgEnv) workDir() string {
	e.n++
	d := filepath.Join(e.dir, fmt.Sprintf("work%d", e.n))
	os.Mkdir(d, 0o755)
	return d
}

var invalidValue = map[string]string{"mode": "prefer_nothing", "storage": "tape", "interval": "soon", "sig": "maybe", "fetch": "fetch_never", "cdpstrict": "maybe", "cache": "sometimes", "aiastrict": "maybe"}

func val(field, v string) string {
	if v == "invalid" {
		return invalidValue[field]
	}
	return v
}

// renderJSON renders the configuration as Caddy JSON.
func (e *cfgEnv) renderJSON(r cfgRec, workDir string) []byte {
	m := map[string]any{}
	if r.Mode != "absent" {
		m["mode"] = val("mode", r.Mode)
	}
	if r.Unknown == "top" {
		m["mod"] = "crl_only"
	}
	if r.CrlCfg {
		c := map[string]any{}
		if r.WorkDir {
			c["work_dir"] = workDir
		}
		if r.Storage != "absent" {
			c["storage_type"] = val("storage", r.Storage)
		}
		if r.Interval != "absent" {
			c["update_interval"] = val("interval", r.Interval)
		}
		if r.Sig != "absent" {
			c["signature_validation_mode"] = val("sig", r.Sig)
		}
		if r.Urls == "one" {
			c["crl_urls"] = []string{e.org.URL + "/cfg.crl"}
		}
		if r.Files == "one" {
			c["crl_files"] = []string{e.crlFile}
		}
		if r.Trusted == "one" {
			c["trusted_signature_certs_files"] = []string{e.trustFile}
		}
		if r.Unknown == "crl" {
			c["storage_typ"] = "memory"
		}
		if r.CdpCfg {
			d := map[string]any{}
			if r.Fetch != "absent" {
				d["crl_fetch_mode"] = val("fetch", r.Fetch)
			}
			switch r.CdpStrict {
			case "true":
				d["crl_cdp_strict"] = true
			case "false":
				d["crl_cdp_strict"] = false
			case "invalid":
				d["crl_cdp_strict"] = "maybe"
			}
			if r.Unknown == "cdp" {
				d["crl_cdp_stict"] = true
			}
			c["cdp_config"] = d
		}
		m["crl_config"] = c
	}
	if r.OcspCfg {
		o := map[string]any{}
		if r.Cache != "absent" {
			o["default_cache_duration"] = val("cache", r.Cache)
		}
		switch r.AiaStrict {
		case "true":
			o["ocsp_aia_strict"] = true
		case "false":
			o["ocsp_aia_strict"] = false
		case "invalid":
			o["ocsp_aia_strict"] = "maybe"
		}
		if r.Responder == "one" {
			o["trusted_responder_certs_files"] = []string{e.respFile}
		}
		if r.Unknown == "ocsp" {
			o["ocsp_aia_stict"] = true
		}
		m["ocsp_config"] = o
	}
	b, _ := json.Marshal(m)
	return b
}

// renderCaddyfile renders the same configuration in Caddyfile syntax.
// renderCaddyfile writes the settings as a Caddyfile block. perm 0 is the order of the documentation; any other value shuffles
// the directives of every block (the order of lines is not an option: every order of the same directives is the same
// configuration).
func (e *cfgEnv) renderCaddyfile(r cfgRec, workDir string, perm int64) string {
	shuffle := func(lines []string, salt int64) string {
		if perm != 0 {
			rand.New(rand.NewSource(perm*31+salt)).Shuffle(len(lines), func(i, j int) { lines[i], lines[j] = lines[j], lines[i] })
		}
		return strings.Join(lines, "")
	}
	var top []string
	if r.Mode != "absent" {
		top = append(top, fmt.Sprintf("  mode %s\n", val("mode", r.Mode)))
	}
	if r.Unknown == "top" {
		top = append(top, "  mod crl_only\n")
	}
	if r.CrlCfg {
		var in []string
		if r.WorkDir {
			in = append(in, fmt.Sprintf("    work_dir %q\n", workDir))
		}
		if r.Storage != "absent" {
			in = append(in, fmt.Sprintf("    storage_type %s\n", val("storage", r.Storage)))
		}
		if r.Interval != "absent" {
			in = append(in, fmt.Sprintf("    update_interval %s\n", val("interval", r.Interval)))
		}
		if r.Sig != "absent" {
			in = append(in, fmt.Sprintf("    signature_validation_mode %s\n", val("sig", r.Sig)))
		}
		if r.Urls == "one" {
			in = append(in, fmt.Sprintf("    crl_url %q\n", e.org.URL+"/cfg.crl"))
		}
		if r.Files == "one" {
			in = append(in, fmt.Sprintf("    crl_file %q\n", e.crlFile))
		}
		if r.Trusted == "one" {
			in = append(in, fmt.Sprintf("    trusted_signature_cert_file %q\n", e.trustFile))
		}
		if r.Unknown == "crl" {
			in = append(in, "    storage_typ memory\n")
		}
		if r.CdpCfg {
			var cdp []string
			if r.Fetch != "absent" {
				cdp = append(cdp, fmt.Sprintf("      crl_fetch_mode %s\n", val("fetch", r.Fetch)))
			}
			if r.CdpStrict != "absent" {
				cdp = append(cdp, fmt.Sprintf("      crl_cdp_strict %s\n", val("cdpstrict", r.CdpStrict)))
			}
			if r.Unknown == "cdp" {
				cdp = append(cdp, "      crl_cdp_stict true\n")
			}
			in = append(in, "    cdp_config {\n"+shuffle(cdp, 3)+"    }\n")
		}
		top = append(top, "  crl_config {\n"+shuffle(in, 1)+"  }\n")
	}
	if r.OcspCfg {
		var in []string
		if r.Cache != "absent" {
			in = append(in, fmt.Sprintf("    default_cache_duration %s\n", val("cache", r.Cache)))
		}
		if r.AiaStrict != "absent" {
			in = append(in, fmt.Sprintf("    ocsp_aia_strict %s\n", val("aiastrict", r.AiaStrict)))
		}
		if r.Responder == "one" {
			in = append(in, fmt.Sprintf("    trusted_responder_cert_file %q\n", e.respFile))
		}
		if r.Unknown == "ocsp" {
			in = append(in, "    ocsp_aia_stict true\n")
		}
		top = append(top, "  ocsp_config {\n"+shuffle(in, 2)+"  }\n")
	}
	return "revocation {\n" + shuffle(top, 0) + "}\n"
}

// ---- loading with the real code -------------------------------------------------------------------------

type loaded struct {
	Err string
	Eff effective
}

func one(n int) string {
	if n > 0 {
		return "one"
	}
	return "none"
}

func boolStr(b bool) string {
	if b {
		return "true"
	}
	return "false"
}

func durStr(d time.Duration) string {
	if d == 0 {
		return "0"
	}
	if d%time.Minute == 0 {
		return fmt.Sprintf("%dm", int(d/time.Minute))
	}
	return d.String()
}

// project reads the effective configuration out of a provisioned validator.
func project(v *revocation.CertRevocationValidator) effective {
	var e effective
	switch v.ModeParsed {
	case config.RevocationCheckModePreferOCSP:
		e.Mode = "prefer_ocsp"
	case config.RevocationCheckModePreferCRL:
		e.Mode = "prefer_crl"
	case config.RevocationCheckModeCRLOnly:
		e.Mode = "crl_only"
	case config.RevocationCheckModeOCSPOnly:
		e.Mode = "ocsp_only"
	case config.RevocationCheckModeDisabled:
		e.Mode = "disabled"
	}
	crlOn := e.Mode == "prefer_ocsp" || e.Mode == "prefer_crl" || e.Mode == "crl_only"
	if crlOn && v.CRLConfig != nil {
		c := v.CRLConfig
		e.Crl.On = true
		e.Crl.Storage = map[config.StorageType]string{config.Memory: "memory", config.Disk: "disk"}[c.StorageTypeParsed]
		e.Crl.Interval = durStr(c.UpdateIntervalParsed)
		e.Crl.Sig = map[config.SignatureValidationMode]string{config.SignatureValidationModeNone: "none", config.SignatureValidationModeVerifyLog: "verify_log", config.SignatureValidationModeVerify: "verify"}[c.SignatureValidationModeParsed]
		e.Crl.Urls, e.Crl.Files, e.Crl.Trusted = one(len(c.CRLUrls)), one(len(c.CRLFiles)), one(len(c.TrustedSignatureCerts))
		if c.CDPConfig != nil {
			e.Crl.Fetch = map[config.CRLFetchMode]string{config.CRLFetchModeActively: "fetch_actively", config.CRLFetchModeBackground: "fetch_background"}[c.CDPConfig.CRLFetchModeParsed]
			e.Crl.CdpStrict = boolStr(c.CDPConfig.CRLCDPStrict)
		}
	}
	if v.OCSPConfig != nil {
		e.Ocsp = effOcsp{Cache: durStr(v.OCSPConfig.DefaultCacheDurationParsed), AiaStrict: boolStr(v.OCSPConfig.OCSPAIAStrict), Responder: one(len(v.OCSPConfig.TrustedResponderCerts))}
	}
	return e
}

func finish(v *revocation.CertRevocationValidator) loaded {
	defer func() {
		defer func() { recover() }()
		v.Cleanup()
	}()
	if err := v.Provision(caddy.Context{}); err != nil {
		return loaded{Err: "provision: " + err.Error()}
	}
	return loaded{Eff: project(v)}
}

func loadJSON(b []byte) (l loaded) {
	defer func() {
		if r := recover(); r != nil {
			l = loaded{Err: fmt.Sprint("panic: ", r)}
		}
	}()
	v := &revocation.CertRevocationValidator{}
	if err := caddy.StrictUnmarshalJSON(b, v); err != nil {
		return loaded{Err: "unmarshal: " + err.Error()}
	}
	return finish(v)
}

func loadCaddyfile(text string) (l loaded) {
	defer func() {
		if r := recover(); r != nil {
			l = loaded{Err: fmt.Sprint("panic: ", r)}
		}
	}()
	v := &revocation.CertRevocationValidator{}
	if err := v.UnmarshalCaddyfile(caddyfile.NewTestDispenser(text)); err != nil {
		return loaded{Err: "unmarshal: " + err.Error()}
	}
	return finish(v)
}

// ---- configuration sampling ---------------------------------------------------------------------------

func baseCfg() cfgRec {
	return cfgRec{Mode: "crl_only", CrlCfg: true, WorkDir: true, Storage: "memory", Interval: "45m", Sig: "verify_log", Urls: "none", Files: "none", Trusted: "none",
		CdpCfg: true, Fetch: "fetch_background", CdpStrict: "true", OcspCfg: true, Cache: "10m", AiaStrict: "true", Responder: "none", Unknown: "none"}
}

var cfgDomains = map[string][]string{
	"mode": {"absent", "prefer_ocsp", "prefer_crl", "ocsp_only", "crl_only", "disabled"}, "storage": {"absent", "memory", "disk"}, "interval": {"absent", "45m"},
	"sig": {"absent", "none", "verify_log", "verify"}, "fetch": {"absent", "fetch_actively", "fetch_background"}, "cdpstrict": {"absent", "true", "false"},
	"cache": {"absent", "10m"}, "aiastrict": {"absent", "true", "false"}, "list": {"none", "one"},
}

func randomValidCfg(rng *rand.Rand) cfgRec {
	pick := func(k string) string { d := cfgDomains[k]; return d[rng.Intn(len(d))] }
	r := cfgRec{Mode: pick("mode"), CrlCfg: rng.Intn(5) != 0, WorkDir: true, Storage: pick("storage"), Interval: pick("interval"), Sig: pick("sig"), Urls: pick("list"), Files: pick("list"),
		Trusted: pick("list"), CdpCfg: rng.Intn(3) != 0, Fetch: pick("fetch"), CdpStrict: pick("cdpstrict"), OcspCfg: rng.Intn(3) != 0, Cache: pick("cache"), AiaStrict: pick("aiastrict"),
		Responder: pick("list"), Unknown: "none"}
	if rng.Intn(12) == 0 {
		r.WorkDir = false
	}
	return r.normalise()
}

func setField(r cfgRec, f, v string) cfgRec {
	switch f {
	case "mode":
		r.Mode = v
	case "storage":
		r.Storage = v
	case "interval":
		r.Interval = v
	case "sig":
		r.Sig = v
	case "fetch":
		r.Fetch = v
	case "cdpstrict":
		r.CdpStrict = v
	case "cache":
		r.Cache = v
	case "aiastrict":
		r.AiaStrict = v
	}
	return r
}

// C19 — configuration faithfulness.
func C19(c *vk.Ctx) {
	rng := rand.New(rand.NewSource(c.Seed))
	seen := map[string]bool{}
	var recs []cfgRec
	add := func(r cfgRec) {
		r = r.normalise()
		if k := r.TLA(); !seen[k] {
			seen[k] = true
			recs = append(recs, r)
		}
	}
	// every single option value on top of two bases, every single fault, every unknown-key place
	bases := []cfgRec{baseCfg(), {Mode: "absent", CrlCfg: true, WorkDir: true, Storage: "absent", Interval: "absent", Sig: "absent", Urls: "none", Files: "none", Trusted: "none",
		CdpCfg: false, Fetch: "absent", CdpStrict: "absent", OcspCfg: false, Cache: "absent", AiaStrict: "absent", Responder: "none", Unknown: "none"}}
	for _, b := range bases {
		add(b)
		for f, dom := range cfgDomains {
			if f == "list" {
				continue
			}
			for _, v := range append(append([]string{}, dom...), "invalid") {
				full := b
				full.CdpCfg, full.OcspCfg = true, true
				add(setField(full, f, v))
			}
		}
		for _, u := range []string{"top", "crl", "cdp", "ocsp"} {
			full := b
			full.CdpCfg, full.OcspCfg, full.Unknown = true, true, u
			add(full)
		}
		for _, l := range []int{0, 1, 2, 3} {
			full := b
			full.OcspCfg = true
			full.Trusted = "one"
			switch l {
			case 0:
				full.Urls = "one"
			case 1:
				full.Files = "one"
			case 2:
				full.Urls, full.Files = "one", "one"
			case 3:
				full.Responder = "one"
			}
			add(full)
		}
	}
	// every single fault under every mode: a value is judged wherever it stands, also in a section the mode does not use
	for _, m := range cfgDomains["mode"] {
		for f := range cfgDomains {
			if f == "list" || f == "mode" {
				continue
			}
			full := baseCfg()
			full.Mode = m
			add(setField(full, f, "invalid"))
		}
		for _, u := range []string{"crl", "cdp", "ocsp"} {
			full := baseCfg()
			full.Mode, full.Unknown = m, u
			add(full)
		}
	}
	// modes that need no CRL configuration at all
	for _, m := range []string{"ocsp_only", "disabled", "crl_only", "absent"} {
		add(cfgRec{Mode: m, CrlCfg: false, OcspCfg: false, Unknown: "none"})
		add(cfgRec{Mode: m, CrlCfg: true, WorkDir: false, Storage: "memory", OcspCfg: true, Cache: "10m", AiaStrict: "true", Unknown: "none", Interval: "absent", Sig: "absent", Fetch: "absent", CdpStrict: "absent"})
	}
	// seeded random valid combinations (pairwise-style coverage grows with the budget)
	for i := 0; i < c.Pick(250, 6000); i++ {
		add(randomValidCfg(rng))
	}
	rows, res := exportConfigRows(c, recs)
	c.Set("states", res.Distinct)
	c.Set("transitions", res.Generated)
	env := newCfgEnv()
	defer env.close()
	n := 0
	for i, row := range rows {
		if c.Violations() > 12 {
			break
		}
		r := row.Cfg
		jw, cw := env.workDir(), env.workDir()
		jsonText := env.renderJSON(r, jw)
		cfText := env.renderCaddyfile(r, cw, 0)
		lj := loadJSON(jsonText)
		lc := loadCaddyfile(cfText)
		// the same directives in two other orders (the order of lines is not an option)
		pw1, pw2 := env.workDir(), env.workDir()
		cfP1, cfP2 := env.renderCaddyfile(r, pw1, int64(i)*2+1), env.renderCaddyfile(r, pw2, int64(i)*2+2)
		lp1, lp2 := loadCaddyfile(cfP1), loadCaddyfile(cfP2)
		n++
		c.Eval(r.TLA())
		rep := map[string]any{"cfg": r, "expected": row.Effective, "provision_expected": row.Provision, "json": string(jsonText), "caddyfile": cfText,
			"json_result": lj, "caddyfile_result": lc, "caddyfile_reordered": []string{cfP1, cfP2}, "caddyfile_reordered_result": []loaded{lp1, lp2}}
		if i%97 == 0 {
			c.Sample(map[string]any{"cfg": r, "expected": row.Effective, "caddyfile": cfText})
		}
		for _, s := range []struct {
			name string
			l    loaded
		}{{"json", lj}, {"caddyfile", lc}, {"caddyfile-reordered", lp1}, {"caddyfile-reordered", lp2}} {
			switch {
			case row.Effective.Reject && s.l.Err == "":
				c.Violation(fmt.Sprintf("%s:accepts-what-must-be-rejected:%s", s.name, rejectReason(r)),
					fmt.Sprintf("the %s form of a configuration with %s was loaded and provisioned instead of being rejected", s.name, rejectReason(r)), rep)
			case !row.Effective.Reject && row.Provision && s.l.Err != "":
				c.Violation(fmt.Sprintf("%s:rejects-valid-configuration:%s", s.name, classifyErr(s.l.Err)),
					fmt.Sprintf("a valid configuration fails in its %s form: %s", s.name, s.l.Err), rep)
			case !row.Effective.Reject && row.Provision && s.l.Err == "":
				if diff := effDiff(row.Effective, s.l.Eff); diff != "" {
					c.Violation(fmt.Sprintf("%s:effective-differs:%s", s.name, diff),
						fmt.Sprintf("the %s form yields a different effective configuration than documented: field %s", s.name, diff), rep)
				}
			}
		}
		if lj.Err == "" && lc.Err == "" && !reflect.DeepEqual(lj.Eff, lc.Eff) {
			c.Violation("syntaxes-disagree:"+effDiff(lj.Eff, lc.Eff), "the JSON and Caddyfile forms of the same settings yield different validators", rep)
		}
		// the same configuration loaded again (after the Cleanup of the first instance), with work_dir written the way people write
		// directories: a trailing separator, a "./" element, a doubled separator. What a configuration means does not depend on what
		// the process loaded before.
		if i%4 == 0 && !row.Effective.Reject && row.Provision && lj.Err == "" {
			base := env.workDir()
			spelled := []string{base + "/", filepath.Dir(base) + "/./" + filepath.Base(base), filepath.Dir(base) + "//" + filepath.Base(base)}[(i/4)%3]
			first := loadJSON(env.renderJSON(r, spelled))
			again := loadJSON(env.renderJSON(r, spelled))
			againCf := loadCaddyfile(env.renderCaddyfile(r, spelled, 0))
			rep["work_dir_as_written"], rep["first_load"], rep["second_load"], rep["third_load_caddyfile"] = spelled, first, again, againCf
			if first.Err == "" && (again.Err != "" || againCf.Err != "") {
				c.Violation("same-configuration-rejected-when-loaded-again:"+classifyErr(again.Err+againCf.Err),
					fmt.Sprintf("a valid configuration (work_dir written %q) loads and provisions once; after its Cleanup the same configuration is rejected: %s %s", spelled, again.Err, againCf.Err), rep)
			} else if first.Err != "" {
				c.Violation("json:rejects-valid-configuration:work-dir-spelling", fmt.Sprintf("a valid configuration fails when work_dir is written %q: %s", spelled, first.Err), rep)
			} else if !reflect.DeepEqual(first.Eff, again.Eff) {
				c.Violation("same-configuration-differs-when-loaded-again:"+effDiff(first.Eff, again.Eff), "the same configuration yields another validator when loaded a second time", rep)
			}
		}
		for _, lp := range []loaded{lp1, lp2} {
			if (lp.Err == "") != (lc.Err == "") {
				c.Violation("directive-order-decides-acceptance", fmt.Sprintf("the same Caddyfile directives in another order are %s (%q) while the documented order is %s (%q)",
					map[bool]string{true: "accepted", false: "rejected"}[lp.Err == ""], lp.Err, map[bool]string{true: "accepted", false: "rejected"}[lc.Err == ""], lc.Err), rep)
			} else if lp.Err == "" && !reflect.DeepEqual(lp.Eff, lc.Eff) {
				c.Violation("directive-order-decides-configuration:"+effDiff(lc.Eff, lp.Eff), "the same Caddyfile directives in another order yield a different validator", rep)
			}
		}
	}
	n += c19FileContents(c, env)
	c.Set("traces_validated_against_impl", int64(n))
	c.Set("spec", "Config.tla: Effective(cfg) and ProvisionOK(cfg) over the option space mode x crl_config{work_dir, storage_type, update_interval, signature_validation_mode, crl_urls, crl_files, trusted certs, cdp_config{crl_fetch_mode, crl_cdp_strict}} x ocsp_config{default_cache_duration, ocsp_aia_strict, trusted responder} x one unknown key at {top, crl, cdp, ocsp}; invariants Defaults, RejectUnknown, NoIgnoring, ValidProvisions")
	c.Set("rule", "a case is one configuration rendered in both syntaxes, loaded with caddy.StrictUnmarshalJSON resp. UnmarshalCaddyfile and provisioned; compared: reject/accept, every parsed field against Effective(cfg) computed by TLC, and the two syntaxes against each other; configurations: every single value and every single fault on two bases, every unknown-key place, modes without CRL configuration, seeded random valid combinations")
	c.Assume("configured CRLs are signed by a CA that is only available as a configured trusted signer; referenced files exist")
}

// c19FileContents: the effective configuration is a function of the options and of what the referenced files contain NOW: the
// same configuration loaded again after a referenced certificate file was replaced in place (a CA or responder rotation) carries
// the new certificate, in both syntaxes, whatever was loaded from that path before in this process.
func c19FileContents(c *vk.Ctx, env *cfgEnv) int {
	r := baseCfg()
	r.CrlCfg, r.OcspCfg, r.Trusted, r.Responder, r.Urls, r.Files = true, true, "one", "one", "none", "none"
	r = r.normalise()
	serialOf := func(v *revocation.CertRevocationValidator) (string, string) {
		sig, resp := "none", "none"
		if v.CRLConfig != nil && len(v.CRLConfig.TrustedSignatureCerts) > 0 {
			sig = v.CRLConfig.TrustedSignatureCerts[0].SerialNumber.String()
		}
		if v.OCSPConfig != nil && len(v.OCSPConfig.TrustedResponderCerts) > 0 {
			resp = v.OCSPConfig.TrustedResponderCerts[0].SerialNumber.String()
		}
		return sig, resp
	}
	n := 0
	for round := 0; round < 3; round++ {
		want := fmt.Sprint(9100 + round)
		ca := pki.NewCA(pki.CAOpts{Name: fmt.Sprintf("Rotated CA %d", round), Serial: int64(9100 + round)})
		os.WriteFile(env.trustFile, pki.PEMCert(ca.Cert), 0o644)
		os.WriteFile(env.respFile, pki.PEMCert(ca.Cert), 0o644)
		for _, syntax := range []string{"json", "caddyfile"} {
			v := &revocation.CertRevocationValidator{}
			var err error
			wd := env.workDir()
			if syntax == "json" {
				err = caddy.StrictUnmarshalJSON(env.renderJSON(r, wd), v)
			} else {
				err = v.UnmarshalCaddyfile(caddyfile.NewTestDispenser(env.renderCaddyfile(r, wd, 0)))
			}
			if err == nil {
				err = v.Provision(caddy.Context{})
			}
			n++
			c.Eval(fmt.Sprintf("file-contents|%s|%d", syntax, round))
			rep := map[string]any{"syntax": syntax, "round": round, "cfg": r}
			if err != nil {
				c.Violation(syntax+":rejects-valid-configuration:after-file-replaced", fmt.Sprintf("round %d: a valid configuration fails after its trusted certificate files were replaced in place: %v", round, err), rep)
				func() { defer func() { recover() }(); v.Cleanup() }()
				continue
			}
			sig, resp := serialOf(v)
			if sig != want {
				c.Violation(syntax+":effective-differs:crl.trusted-certificate-content", fmt.Sprintf("round %d: the trusted signature certificate in effect has serial %s, the file contains %s", round, sig, want), rep)
			}
			if resp != want {
				c.Violation(syntax+":effective-differs:ocsp.responder-certificate-content", fmt.Sprintf("round %d: the trusted responder certificate in effect has serial %s, the file contains %s", round, resp, want), rep)
			}
			v.Cleanup()
		}
	}
	return n
}

func rejectReason(r cfgRec) string {
	if r.Unknown != "none" {
		return "unknown-key@" + r.Unknown
	}
	for _, f := range [][2]string{{"mode", r.Mode}, {"storage", r.Storage}, {"interval", r.Interval}, {"sig", r.Sig}, {"fetch", r.Fetch}, {"cdpstrict", r.CdpStrict}, {"cache", r.Cache}, {"aiastrict", r.AiaStrict}} {
		if f[1] == "invalid" {
			return "invalid-" + f[0]
		}
	}
	return "missing-work_dir"
}

func classifyErr(e string) string {
	switch {
	case strings.Contains(e, "working directory"):
		return "work-dir"
	case strings.Contains(e, "unknown"):
		return "unknown-key"
	case strings.HasPrefix(e, "unmarshal"):
		return "unmarshal"
	}
	return "provision"
}

func effDiff(a, b effective) string {
	av, bv := reflect.ValueOf(a), reflect.ValueOf(b)
	if a.Mode != b.Mode {
		return "mode"
	}
	for i := 0; i < av.Field(2).NumField(); i++ {
		if av.Field(2).Field(i).Interface() != bv.Field(2).Field(i).Interface() {
			return "crl." + strings.ToLower(av.Field(2).Type().Field(i).Name)
		}
	}
	for i := 0; i < av.Field(3).NumField(); i++ {
		if av.Field(3).Field(i).Interface() != bv.Field(3).Field(i).Interface() {
			return "ocsp." + strings.ToLower(av.Field(3).Type().Field(i).Name)
		}
	}
	return ""
}
