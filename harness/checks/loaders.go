package checks

import (
	"encoding/json"
	"fmt"
	"math/rand"
	"sync"
	"time"

	"verif/harness/graph"
	"verif/harness/origin"
	"verif/harness/tlcrun"
	"verif/harness/vk"
	"verif/harness/world"
)

// ---------------------------------------------------------------------------------------------
// Loaders.tla: the handshake's active load and the pass's background load on one entry that is known but not yet loaded.
// TLC exports the loaders' transition system (no lookup process); random maximal behaviours are replayed on a real repository.
// Nothing but the origin is gated: a loader is "fetching" while its request is held; the version it fetches is fixed at the
// model's fetch step and delivered at the model's next step of that loader (bLock / aActivate) - a transfer that takes long.
// ---------------------------------------------------------------------------------------------

type loadersState struct {
	Origin int    `json:"origin"`
	Store  int    `json:"store"`
	Loaded bool   `json:"loaded"`
	Wlock  string `json:"wlock"`
	PcA    string `json:"pcA"`
	PcB    string `json:"pcB"`
}

func exportLoadersGraph(c *vk.Ctx) (*graph.Graph, tlcrun.Result) {
	cfg := "SPECIFICATION Spec\nCONSTANTS\n MaxVer = 3\n NoRecheck = FALSE\n TryRead = FALSE\n WithLookup = FALSE\n Export = TRUE\nINVARIANTS TypeOK LoadedHasList Provenance Effective\nPROPERTIES NoRollback\nCHECK_DEADLOCK FALSE\n"
	g := graph.New()
	var perr error
	res := tlcrun.Run(tlcrun.Options{SpecDir: vk.SpecDir(), Module: "Loaders", Config: cfg, Workers: 2,
		OnTagged: func(tag string, p json.RawMessage) {
			if tag == "EDGE" {
				if err := g.AddPayload(p); err != nil {
					perr = err
				}
			}
		}})
	if res.InfraErr != nil {
		c.Infra("tlc Loaders: %v", res.InfraErr)
	}
	if !res.OK {
		c.Infra("Loaders.tla does not satisfy its properties (specification problem, not a verdict about the code):\n%s", res.Violation)
	}
	if perr != nil {
		c.Infra("edge payload: %v", perr)
	}
	init := ""
	for s, raw := range g.State {
		var st loadersState
		json.Unmarshal(raw, &st)
		if st.Origin == 1 && st.Store == 0 && !st.Loaded && st.PcA == "idle" && st.PcB == "idle" {
			init = s
		}
	}
	g.Finish(init)
	if init == "" || len(g.Out[g.Init]) == 0 {
		c.Infra("initial state not found in the exported Loaders graph")
	}
	return g, res
}

type heldRequest struct{ resp chan []byte }

// loadersReplay replays random maximal behaviours of Loaders.tla; prop names the check on whose behalf it runs.
func loadersReplay(c *vk.Ctx, prop string) int {
	g, res := exportLoadersGraph(c)
	c.Add("states", res.Distinct)
	rng := rand.New(rand.NewSource(c.Seed*131 + 7))
	versionKeys := map[int]string{0: "", 1: "x", 2: "y", 3: "z"}
	n := 0
	seenPath := map[string]bool{}
	for round := 0; round < c.Pick(36, 600) && c.Violations() <= 6; round++ {
		disk := round%2 == 0
		// a random maximal behaviour
		var path []*graph.Edge
		key := ""
		for cur := g.Init; len(g.Out[cur]) > 0 && len(path) < 40; {
			e := g.Out[cur][rng.Intn(len(g.Out[cur]))]
			path = append(path, e)
			key += opName(e) + ","
			cur = e.To
		}
		if seenPath[key+backendName(disk)] {
			continue
		}
		seenPath[key+backendName(disk)] = true
		rw, err := newRepoWorld(disk, []string{"verify", "none"}[round/2%2], false, c.Seed*61+int64(round))
		if err != nil {
			c.Infra("repo world: %v", err)
		}
		bodies := map[int][]byte{1: rw.build("good", []string{"x"}), 2: rw.build("good", []string{"y"}), 3: rw.build("good", []string{"z"})}
		var mu sync.Mutex
		reqs := 0
		setup := true
		arrivals := make(chan *heldRequest, 8)
		rw.org.Set(pathRepo, origin.Behaviour{Kind: "func", Func: func([]byte) (int, []byte) {
			mu.Lock()
			reqs++
			first := setup
			mu.Unlock()
			if first { // while the entry is being made known (however often the loader asks), the origin is out of order
				return 200, []byte("<html>maintenance</html>")
			}
			h := &heldRequest{resp: make(chan []byte, 1)}
			arrivals <- h
			select {
			case b := <-h.resp:
				return 200, b
			case <-time.After(90 * time.Second):
				return 200, []byte("<html>gave up</html>")
			}
		}})
		rw.w.HandshakeTimeout(rw.chains["driver"], 60*time.Second) // the entry is known, nothing is loaded
		mu.Lock()
		setup = false
		mu.Unlock()
		var reqA, reqB *heldRequest
		var doneA, doneB chan struct{}
		fetchedA, fetchedB := 0, 0
		cur := 1
		var steps []map[string]any
		rep := func() map[string]any {
			return map[string]any{"backend": backendName(disk), "signature_validation_mode": rw.w.Cfg.Sig, "steps": steps}
		}
		drift := ""
		waitArrival := func(who string) *heldRequest {
			select {
			case h := <-arrivals:
				return h
			case <-time.After(30 * time.Second):
				drift = "loaders:" + who + "-did-not-reach-the-origin"
				return nil
			}
		}
		waitDone := func(ch chan struct{}, who string) {
			if ch == nil {
				return
			}
			select {
			case <-ch:
			case <-time.After(90 * time.Second):
				drift = "loaders:" + who + "-never-returned"
			}
		}
		judge := func(e *graph.Edge, at string) {
			var exp struct {
				Inforce int `json:"inforce"`
			}
			json.Unmarshal(e.Expect, &exp)
			res, _ := rw.probe(2 * time.Second)
			got, ok := listedOf(res)
			steps[len(steps)-1]["lookups"] = got
			want := versionKeys[exp.Inforce]
			if ok && got == want {
				return
			}
			older := false
			for v := 1; v < exp.Inforce; v++ {
				if ok && got == versionKeys[v] {
					older = true
				}
			}
			if older {
				c.Violation(fmt.Sprintf("%s:superseded-list-in-force:%s", backendName(disk), at),
					fmt.Sprintf("two loaders worked on one not yet loaded entry; by Loaders.tla the list in force is version %d {%s}, the lookups answer {%s}: an older list displaced its replacement", exp.Inforce, want, got), rep())
			} else {
				drift = fmt.Sprintf("loaders:in-force-differs:%s:want=%s:got=%s:ok=%v", at, want, got, ok)
			}
		}
		for _, e := range path {
			if drift != "" || c.Violations() > 6 {
				break
			}
			var to loadersState
			json.Unmarshal(g.State[e.To], &to)
			op := opName(e)
			steps = append(steps, map[string]any{"op": op, "to": to})
			switch op {
			case "publish":
				cur++
			case "aStart":
				if to.PcA == "done" { // the entry is loaded: the handshake loads nothing
					rw.w.HandshakeTimeout(rw.chains["driver"], 60*time.Second)
				}
			case "aLock":
				doneA = make(chan struct{})
				go func(d chan struct{}) { defer close(d); rw.w.HandshakeTimeout(rw.chains["driver"], 120*time.Second) }(doneA)
				if to.PcA == "done" {
					waitDone(doneA, "handshake")
				} else {
					reqA = waitArrival("handshake")
				}
			case "aFetch":
				fetchedA = cur
			case "aActivate":
				if reqA != nil {
					reqA.resp <- bodies[fetchedA]
				}
				waitDone(doneA, "handshake")
				if drift == "" {
					judge(e, "after-active-load")
				}
			case "bStart":
				doneB = make(chan struct{})
				go func(d chan struct{}) { defer close(d); rw.w.RefreshAll() }(doneB)
				reqB = waitArrival("pass")
			case "bFetch":
				fetchedB = cur
			case "bLock":
				if reqB != nil {
					reqB.resp <- bodies[fetchedB]
				}
			case "bFinish":
				waitDone(doneB, "pass")
				if drift == "" {
					judge(e, "after-background-load")
				}
			}
		}
		// let whatever is still in flight end (the behaviour was cut or drifted)
		for _, h := range []*heldRequest{reqA, reqB} {
			if h != nil {
				select {
				case h.resp <- bodies[cur]:
				default:
				}
			}
		}
		for {
			select {
			case h := <-arrivals:
				h.resp <- bodies[cur]
				continue
			default:
			}
			break
		}
		waitDone(doneA, "handshake")
		waitDone(doneB, "pass")
		if drift != "" {
			c.Drift(drift)
		}
		n++
		c.Eval("loaders|" + backendName(disk) + "|" + key)
		if n == 1 {
			c.Sample(map[string]any{"loaders_behaviour": key, "backend": backendName(disk)})
		}
		rw.close()
	}
	_ = prop
	_ = world.Accept
	return n
}
