package checks

import (
	"bytes"
	"crypto/tls"
	"crypto/x509"
	"crypto/x509/pkix"
	"encoding/asn1"
	"encoding/json"
	"fmt"
	"math/big"
	"math/rand"
	"net/http"
	"net/http/httptest"
	"sort"
	"strings"
	"sync"
	"time"

	"github.com/gr33nbl00d/caddy-revocation-validator/config"
	ocspchk "github.com/gr33nbl00d/caddy-revocation-validator/ocsp"
	"github.com/muesli/cache2go"
	"go.uber.org/zap"
	"golang.org/x/crypto/ocsp"

	"verif/harness/graph"
	"verif/harness/origin"
	"verif/harness/pki"
	"verif/harness/tlcrun"
	"verif/harness/vk"
	"verif/harness/world"
)

// OcspCfg is one element of CfgSpace of Ocsp.tla.
type OcspCfg struct {
	Strict map[string]bool     `json:"strict"`
	Dur    map[string]int      `json:"dur"`
	Nu     string              `json:"nu"`
	Lists  map[string][]string `json:"lists"`
	Alt    map[string][]string `json:"alt"`
}

func (o OcspCfg) TLA() string {
	seq := func(l []string) string {
		q := make([]string, len(l))
		for i, s := range l {
			q[i] = fmt.Sprintf("%q", s)
		}
		return "<<" + strings.Join(q, ", ") + ">>"
	}
	alt := o.Alt
	if alt == nil {
		alt = o.Lists
	}
	return fmt.Sprintf(`[strict |-> [v \in {"v1","v2"} |-> IF v = "v1" THEN %s ELSE %s], dur |-> [v \in {"v1","v2"} |-> IF v = "v1" THEN %d ELSE %d], nu |-> %q, lists |-> [c \in {"cA","cB"} |-> IF c = "cA" THEN %s ELSE %s], alt |-> [c \in {"cA","cB"} |-> IF c = "cA" THEN %s ELSE %s]]`,
		tlaBool(o.Strict["v1"]), tlaBool(o.Strict["v2"]), o.Dur["v1"], o.Dur["v2"], o.Nu, seq(o.Lists["cA"]), seq(o.Lists["cB"]), seq(alt["cA"]), seq(alt["cB"]))
}

func (o OcspCfg) Key() string {
	if o.Alt == nil {
		o.Alt = o.Lists
	}
	b, _ := json.Marshal(o)
	return string(b)
}

type ocspExpect struct {
	Kind       string `json:"kind"`
	V          string `json:"v"`
	C          string `json:"c"`
	Served     string `json:"served"`
	Status     string `json:"status"`
	Verdict    string `json:"verdict"`
	Contacted  []int  `json:"contacted"`
	CachedLife int    `json:"cachedLife"`
	ItemFor    string `json:"itemFor"`
	Age        int    `json:"age"`
	Life       int    `json:"life"`
}

const ocspProps = "PROPERTIES RevokedRejects StrictNeedsAnswer LenientNeverDenies WalkStops OnlyCounted KeyRight Bounded ZeroMeansNone FailuresNotCached\nINVARIANTS LifetimeRule\n"

// exportOcspGraphs runs TLC on Ocsp.tla for a set of configurations and splits the edges per configuration.
func exportOcspGraphs(c *vk.Ctx, cfgs []OcspCfg, maxTime, maxQueries int, expiry, keyBy string) ([]*graph.Graph, tlcrun.Result) {
	var recs []string
	index := map[string]int{}
	for i, cfg := range cfgs {
		recs = append(recs, cfg.TLA())
		index[cfg.Key()] = i
	}
	mc := fmt.Sprintf("---- MODULE MCOcsp ----\nEXTENDS Ocsp\nCfgVal == {%s}\n====\n", strings.Join(recs, ",\n  "))
	cfgText := fmt.Sprintf("SPECIFICATION Spec\nCONSTANTS\n CfgSpace <- CfgVal\n MaxTime = %d\n MaxQueries = %d\n Expiry = %q\n KeyBy = %q\n Export = TRUE\n%sCHECK_DEADLOCK FALSE\nVIEW View\n",
		maxTime, maxQueries, expiry, keyBy, ocspProps)
	gs := make([]*graph.Graph, len(cfgs))
	inits := make([]string, len(cfgs))
	for i := range gs {
		gs[i] = graph.New()
	}
	var perr error
	res := tlcrun.Run(tlcrun.Options{SpecDir: vk.SpecDir(), Module: "MCOcsp", Config: cfgText, Workers: 4,
		Files: map[string][]byte{"MCOcsp.tla": []byte(mc)},
		OnTagged: func(tag string, p json.RawMessage) {
			if tag != "EDGE" {
				return
			}
			var hdr struct {
				From struct {
					Cfg   OcspCfg             `json:"cfg"`
					Now   int                 `json:"now"`
					Lists map[string][]string `json:"lists"`
					Cache map[string]struct {
						Status string `json:"status"`
					} `json:"cache"`
				} `json:"from"`
			}
			if err := json.Unmarshal(p, &hdr); err != nil {
				perr = err
				return
			}
			i, ok := index[hdr.From.Cfg.Key()]
			if !ok {
				perr = fmt.Errorf("edge for unknown cfg %s", hdr.From.Cfg.Key())
				return
			}
			if err := gs[i].AddPayload(p); err != nil {
				perr = err
			}
		}})
	if res.InfraErr != nil {
		c.Infra("tlc Ocsp: %v", res.InfraErr)
	}
	if !res.OK {
		c.Infra("Ocsp.tla violates its properties (specification problem, not a verdict about the code):\n%s", res.Violation)
	}
	if perr != nil {
		c.Infra("edge payload: %v", perr)
	}
	for i, g := range gs {
		g.Finish("")
		for s, raw := range g.State {
			var st struct {
				Now   int                 `json:"now"`
				Lists map[string][]string `json:"lists"`
				Cache map[string]struct {
					Status string `json:"status"`
				} `json:"cache"`
			}
			json.Unmarshal(raw, &st)
			empty := true
			for _, it := range st.Cache {
				if it.Status != "none" {
					empty = false
				}
			}
			same := fmt.Sprint(st.Lists["cA"]) == fmt.Sprint(cfgs[i].Lists["cA"]) && fmt.Sprint(st.Lists["cB"]) == fmt.Sprint(cfgs[i].Lists["cB"])
			if st.Now == 0 && empty && same {
				inits[i] = s
			}
		}
		g.Init = inits[i]
		if g.Init == "" && len(g.Edges) > 0 {
			c.Infra("initial state of Ocsp graph not found for %s", cfgs[i].Key())
		}
	}
	return gs, res
}

// ---------------------------------------------------------------------------------------------
// concrete OCSP world
// ---------------------------------------------------------------------------------------------

const ocspTick = 120 * time.Millisecond

type ocspWorld struct {
	cfg      OcspCfg
	rng      *rand.Rand
	org      *origin.Server
	tlsSrv   *httptest.Server
	issuers  map[string]*pki.CA // "cA" -> I1, "cB" -> I2
	siblings map[string]*pki.CA
	stranger *pki.CA
	deleg    map[string]*pki.CA // delegated responder with EKU
	delegNo  map[string]*pki.CA // delegated responder without EKU
	leaves   map[string]*pki.Leaf
	chains   map[string][][]*x509.Certificate
	checkers map[string]*ocspchk.OCSPRevocationChecker
	lists    map[string][]string
	start    time.Time
	now      int
	mu       sync.Mutex
	lastLife map[string]time.Duration // cert -> lifetime reported by the ocsp.answer hook
	lastNU   map[string]time.Time
	answerN  int
	claim    map[string]int // claimed status of unauthentic answers per cert
	errBase  int            // first error status served by an "errStatus" responder (rotates afterwards)
	errN     int
	badReq   int // requests a real responder could not have answered (undecodable, or about another certificate)
	justPast bool
}

func ocspPath(c string, i int) string { return fmt.Sprintf("/ocsp/%s/%d", c, i) }

func newOcspWorld(cfg OcspCfg, seed int64) *ocspWorld {
	w := &ocspWorld{cfg: cfg, rng: rand.New(rand.NewSource(seed)), issuers: map[string]*pki.CA{}, siblings: map[string]*pki.CA{}, deleg: map[string]*pki.CA{}, delegNo: map[string]*pki.CA{},
		leaves: map[string]*pki.Leaf{}, chains: map[string][][]*x509.Certificate{}, checkers: map[string]*ocspchk.OCSPRevocationChecker{}, lists: map[string][]string{},
		lastLife: map[string]time.Duration{}, lastNU: map[string]time.Time{}, claim: map[string]int{}}
	w.errBase = int(((seed % 5) + 5) % 5)
	dim := rand.New(rand.NewSource(seed*0x9E3779B9 + 5)) // concretisation dimensions are drawn independently of each other
	issuerLikeness := dim.Intn(3)                        // 0: unlike, 1: same name, 2: same key identifier
	// (an operator who lists the other CA among the trusted responder certificates trusts it not to copy this CA's key identifier:
	// with both, issuer candidates found by key identifier alone include the other CA - DESIGN.md section 8)
	trustOthers := dim.Intn(2) == 0 && issuerLikeness != 2
	w.justPast = dim.Intn(2) == 0
	w.org = origin.New()
	w.tlsSrv = httptest.NewTLSServer(http.HandlerFunc(func(rw http.ResponseWriter, r *http.Request) { rw.WriteHeader(500) }))
	w.stranger = pki.NewCA(pki.CAOpts{Name: "Unrelated Stranger CA", Serial: 900})
	closed := origin.ClosedPortURL()
	for ci, c := range []string{"cA", "cB"} {
		io := pki.CAOpts{Name: "OCSP Issuer " + c, Serial: int64(200 + ci)}
		if ci == 1 {
			switch issuerLikeness {
			case 1:
				// the two issuers carry the SAME name (a CA whose key was renewed, or CAs named alike): different keys and key
				// identifiers. What was learnt about one says nothing about the other.
				io.Name = "OCSP Issuer cA"
			case 2:
				// key identifiers are free-form octets: the second issuer carries the first one's (different name, different key,
				// same identifier, same subject and serial of the leaves)
				io.SKI = w.issuers["cA"].Cert.SubjectKeyId
			}
			// (never both: two CAs with equal name AND equal key identifier are one issuer as far as a relying party can tell)
		}
		iss := pki.NewCA(io)
		w.issuers[c] = iss
		w.siblings[c] = pki.NewCA(pki.CAOpts{Name: "OCSP Issuer " + c, Serial: int64(210 + ci), SKI: iss.Cert.SubjectKeyId})
		w.deleg[c] = pki.NewCA(pki.CAOpts{Name: "Delegated Responder " + c, Parent: iss, NotCA: true, KeyUsage: x509.KeyUsageDigitalSignature, ExtKU: []x509.ExtKeyUsage{x509.ExtKeyUsageOCSPSigning}, Serial: int64(220 + ci)})
		w.delegNo[c] = pki.NewCA(pki.CAOpts{Name: "Not A Responder " + c, Parent: iss, NotCA: true, KeyUsage: x509.KeyUsageDigitalSignature, ExtKU: []x509.ExtKeyUsage{x509.ExtKeyUsageClientAuth}, Serial: int64(230 + ci)})
		var urls []string
		classesForURLs := cfg.Lists[c]
		if cfg.Alt != nil && len(cfg.Alt[c]) > len(classesForURLs) {
			classesForURLs = cfg.Alt[c]
		}
		for i, cl := range classesForURLs {
			switch cl {
			case "ldap":
				urls = append(urls, fmt.Sprintf("ldap://directory.example/ocsp-%s-%d", c, i+1))
			case "refused":
				urls = append(urls, closed+ocspPath(c, i+1))
			case "httpsUntrusted":
				urls = append(urls, w.tlsSrv.URL+ocspPath(c, i+1))
			default:
				urls = append(urls, w.org.URL+ocspPath(c, i+1))
			}
		}
		// same subject and serial under both issuers
		w.leaves[c] = iss.Leaf(pki.LeafOpts{CN: "shared subject", Serial: big.NewInt(4242), OCSP: urls})
		w.chains[c] = pki.Chain(w.leaves[c].Cert, iss)
		w.lists[c] = append([]string(nil), cfg.Lists[c]...)
	}
	for _, v := range []string{"v1", "v2"} {
		ch := &ocspchk.OCSPRevocationChecker{}
		dur := time.Duration(0)
		if cfg.Dur[v] > 0 {
			dur = time.Duration(cfg.Dur[v])*ocspTick - ocspTick/2
		}
		oc := &config.OCSPConfig{OCSPAIAStrict: cfg.Strict[v], DefaultCacheDurationParsed: dur}
		if trustOthers {
			// trusted_responder_certs_files of an operator who serves several CAs: the delegated responders of BOTH issuers (each
			// authorised by its own issuer only) and the issuers themselves
			oc.TrustedResponderCerts = []*x509.Certificate{w.deleg["cA"].Cert, w.deleg["cB"].Cert, w.issuers["cA"].Cert, w.issuers["cB"].Cert}
		}
		ch.Provision(oc, zap.NewNop())
		w.checkers[v] = ch
	}
	cache2go.Cache("ocsp_client").Flush()
	world.SetHandler(func(site string, kv ...any) {
		if site == "ocsp.answer" && len(kv) >= 3 {
			if d, ok := kv[2].(time.Duration); ok {
				w.mu.Lock()
				w.lastLife["last"] = d
				w.answerN++
				w.mu.Unlock()
			}
		}
	})
	w.install()
	w.start = time.Now()
	return w
}

func (w *ocspWorld) close() {
	world.SetHandler(nil)
	for _, ch := range w.checkers {
		ch.Cleanup()
	}
	cache2go.Cache("ocsp_client").Flush()
	w.org.Close()
	w.tlsSrv.Close()
}

// install (re)binds every responder URL to its class behaviour.
func (w *ocspWorld) install() {
	for _, c := range []string{"cA", "cB"} {
		for i, cl := range w.lists[c] {
			c, cl := c, cl
			w.org.Set(ocspPath(c, i+1), origin.Behaviour{Kind: "func", Func: func(req []byte) (int, []byte) { return w.serve(c, cl, req) }})
		}
	}
}

func (w *ocspWorld) nextUpdate() time.Time {
	switch w.cfg.Nu {
	case "past":
		// long past, or past by less than the clock-skew allowance (still past: the default duration applies)
		if w.justPast {
			return time.Now().Add(-4 * time.Minute)
		}
		return time.Now().Add(-time.Hour)
	case "future":
		return time.Now().Add(time.Hour)
	}
	return time.Time{}
}

// malformedRequest, internalError, tryLater, sigRequired, unauthorized
var ocspErrCodes = []int{1, 2, 3, 5, 6}

// serve is what a responder does with a request: the classes that stand for real responder software decode it first and answer
// only a request that names the certificate they are responsible for, as a real responder would.
func (w *ocspWorld) serve(c, cl string, req []byte) (int, []byte) {
	if authenticClasses[cl] {
		if code := w.requestProblem(c, req); code != 0 {
			w.mu.Lock()
			w.badReq++
			w.mu.Unlock()
			return 200, pki.OCSPErrorResponse(code)
		}
	}
	return w.respond(c, cl)
}

// requestProblem returns the OCSP error status a real responder would answer to this request body, 0 if it is a well-formed
// request about certificate c under its issuer.
func (w *ocspWorld) requestProblem(c string, raw []byte) int {
	r, err := ocsp.ParseRequest(raw)
	if err != nil {
		return 1
	}
	if !r.HashAlgorithm.Available() {
		return 2
	}
	iss := w.issuers[c].Cert
	var spki struct {
		Algorithm pkix.AlgorithmIdentifier
		PublicKey asn1.BitString
	}
	if _, err := asn1.Unmarshal(iss.RawSubjectPublicKeyInfo, &spki); err != nil {
		return 2
	}
	h := r.HashAlgorithm.New()
	h.Write(iss.RawSubject)
	nameHash := h.Sum(nil)
	h.Reset()
	h.Write(spki.PublicKey.RightAlign())
	keyHash := h.Sum(nil)
	if !bytes.Equal(nameHash, r.IssuerNameHash) || !bytes.Equal(keyHash, r.IssuerKeyHash) || r.SerialNumber == nil || r.SerialNumber.Cmp(w.leaves[c].Cert.SerialNumber) != 0 {
		return 6
	}
	return 0
}

// respond produces the HTTP answer of a responder of class cl for certificate c.
func (w *ocspWorld) respond(c, cl string) (int, []byte) {
	iss := w.issuers[c]
	serial := w.leaves[c].Cert.SerialNumber
	nu := w.nextUpdate()
	w.mu.Lock()
	w.lastNU[c] = nu
	claim := w.claim[c]
	w.mu.Unlock()
	mk := func(status int, signer *pki.CA, signerCert *x509.Certificate, embed bool, ser *big.Int) []byte {
		return pki.OCSPResponse(pki.OCSPOpts{Status: status, Serial: ser, Issuer: iss.Cert, Signer: signer, SignerCert: signerCert, Embed: embed,
			ThisUpdate: time.Now().Add(-time.Minute), NextUpdate: nu})
	}
	switch cl {
	case "good":
		return 200, mk(ocsp.Good, iss, iss.Cert, false, serial)
	case "revoked":
		return 200, mk(ocsp.Revoked, iss, iss.Cert, false, serial)
	case "unknown":
		return 200, mk(ocsp.Unknown, iss, iss.Cert, false, serial)
	case "delegGood":
		return 200, mk(ocsp.Good, w.deleg[c], w.deleg[c].Cert, true, serial)
	case "delegRevoked":
		return 200, mk(ocsp.Revoked, w.deleg[c], w.deleg[c].Cert, true, serial)
	case "stranger":
		return 200, mk(claim, w.stranger, w.stranger.Cert, false, serial)
	case "strangerEmbedded":
		return 200, mk(claim, w.stranger, w.stranger.Cert, true, serial)
	case "lookalikeEmbedded":
		// a self-signed certificate that copies the issuer's subject name and serial number (another key), embedded: what names an
		// issuer is not what binds a response to it
		look := pki.NewCA(pki.CAOpts{Name: iss.Cert.Subject.CommonName, Serial: iss.Cert.SerialNumber.Int64(), RawName: iss.Cert.RawSubject})
		return 200, mk(claim, look, look.Cert, true, serial)
	case "ownCert":
		own := &pki.CA{Key: w.leaves[c].Key, Cert: w.leaves[c].Cert}
		return 200, mk(claim, own, own.Cert, true, serial)
	case "ownCertBare": // the same key, but the certificate is not embedded
		own := &pki.CA{Key: w.leaves[c].Key, Cert: w.leaves[c].Cert}
		return 200, mk(claim, own, own.Cert, false, serial)
	case "ownCertAsIssuer":
		// signed with the client's own key, its (issuer-signed) certificate embedded, but the responder id inside the signed data
		// names the ISSUER: whoever signs chooses that field
		own := &pki.CA{Key: w.leaves[c].Key, Cert: w.leaves[c].Cert}
		return 200, pki.OCSPResponse(pki.OCSPOpts{Status: claim, Serial: serial, Issuer: iss.Cert, Signer: own, SignerCert: iss.Cert, EmbedCert: own.Cert,
			ThisUpdate: time.Now().Add(-time.Minute), NextUpdate: nu})
	case "delegNoEkuAsIssuer":
		return 200, pki.OCSPResponse(pki.OCSPOpts{Status: claim, Serial: serial, Issuer: iss.Cert, Signer: w.delegNo[c], SignerCert: iss.Cert, EmbedCert: w.delegNo[c].Cert,
			ThisUpdate: time.Now().Add(-time.Minute), NextUpdate: nu})
	case "otherDelegBare", "otherDelegEmbedded":
		// signed by the delegated responder of the OTHER issuer (it has the OCSPSigning extended key usage, and the operator may
		// have configured it as a trusted responder): this issuer never authorised it
		other := map[string]string{"cA": "cB", "cB": "cA"}[c]
		return 200, mk(claim, w.deleg[other], w.deleg[other].Cert, cl == "otherDelegEmbedded", serial)
	case "delegNoEku":
		return 200, mk(claim, w.delegNo[c], w.delegNo[c].Cert, true, serial)
	case "delegNoEkuBare":
		return 200, mk(claim, w.delegNo[c], w.delegNo[c].Cert, false, serial)
	case "sibling":
		return 200, mk(claim, w.siblings[c], w.siblings[c].Cert, false, serial)
	case "otherSerial":
		return 200, mk(claim, iss, iss.Cert, false, big.NewInt(777))
	case "errStatus":
		w.mu.Lock()
		code := ocspErrCodes[(w.errBase+w.errN)%len(ocspErrCodes)]
		w.errN++
		w.mu.Unlock()
		return 200, pki.OCSPErrorResponse(code)
	case "http500":
		return 500, []byte("internal server error\n")
	case "garbage":
		b := make([]byte, 300)
		w.rng.Read(b)
		return 200, b
	case "wrongContent":
		if w.rng.Intn(2) == 0 {
			return 200, []byte("<html><body>It works!</body></html>")
		}
		return 200, iss.SimpleCRL(1, 4242)
	}
	return 404, []byte("no such responder class")
}

type ocspReal struct {
	Verdict   string        `json:"verdict"`
	Err       string        `json:"err,omitempty"`
	Contacted []int         `json:"contacted"`
	CacheN    int           `json:"cache_items"`
	Life      time.Duration `json:"life_reported"`
	Answered  bool          `json:"answered"`
}

func (w *ocspWorld) hitsOf(c string) []int {
	out := make([]int, len(w.lists[c]))
	for i := range w.lists[c] {
		out[i] = w.org.Hits(ocspPath(c, i+1))
	}
	return out
}

// query runs one IsRevoked on checker v for certificate c.
func (w *ocspWorld) query(v, c string) ocspReal {
	before := w.hitsOf(c)
	w.mu.Lock()
	ansBefore := w.answerN
	w.mu.Unlock()
	var r ocspReal
	func() {
		defer func() {
			if p := recover(); p != nil {
				r.Verdict = "panic"
				r.Err = fmt.Sprint(p)
			}
		}()
		st, err := w.checkers[v].IsRevoked(w.leaves[c].Cert, w.chains[c])
		switch {
		case err != nil:
			r.Verdict, r.Err = "error", err.Error()
		case st != nil && st.Revoked:
			r.Verdict = "revoked"
		default:
			r.Verdict = "accept"
		}
	}()
	after := w.hitsOf(c)
	for i := range after {
		if after[i] > before[i] {
			r.Contacted = append(r.Contacted, i+1)
		}
	}
	sort.Ints(r.Contacted)
	r.CacheN = cache2go.Cache("ocsp_client").Count()
	w.mu.Lock()
	r.Answered = w.answerN > ansBefore
	r.Life = w.lastLife["last"]
	w.mu.Unlock()
	return r
}

// tick advances the discrete clock: sleep until the absolute schedule start + now*T.
func (w *ocspWorld) tick() {
	w.now++
	target := w.start.Add(time.Duration(w.now) * ocspTick)
	if d := time.Until(target); d > 0 {
		time.Sleep(d)
	}
}

// switchLists: the responders of c turn into the alternative behaviour list of the configuration.
func (w *ocspWorld) switchLists(c string) {
	// (a configuration without alternative lists switches back to its original lists, as in the specification)
	alt := w.cfg.Alt
	if alt == nil {
		alt = w.cfg.Lists
	}
	w.lists[c] = append([]string(nil), alt[c]...)
	w.install()
}

func (w *ocspWorld) flip(c string) {
	for i, cl := range w.lists[c] {
		switch cl {
		case "good":
			w.lists[c][i] = "revoked"
		case "delegGood":
			w.lists[c][i] = "delegRevoked"
		}
	}
	w.install()
}

var _ = tls.VersionTLS12
