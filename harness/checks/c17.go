package checks

import (
	"bufio"
	"bytes"
	"crypto"
	"crypto/ed25519"
	crand "crypto/rand"
	"crypto/x509/pkix"
	"encoding/asn1"
	"encoding/json"
	"fmt"
	"math/big"
	"net/http"
	"net/http/httptest"
	"os"
	"os/exec"
	"path/filepath"
	"runtime"
	"runtime/debug"
	"strconv"
	"strings"
	"sync/atomic"
	"time"

	"github.com/caddyserver/caddy/v2"
	revocation "github.com/gr33nbl00d/caddy-revocation-validator"
	"github.com/gr33nbl00d/caddy-revocation-validator/core"
	"github.com/gr33nbl00d/caddy-revocation-validator/crl/crlreader"
	"github.com/gr33nbl00d/caddy-revocation-validator/crl/crlstore"
	"go.uber.org/zap"

	"verif/harness/derbuild"
	"verif/harness/pki"
	"verif/harness/tlcrun"
	"verif/harness/vk"
)

// ---- worker side (child process) -----------------------------------------------------------------

type memEvent struct {
	Ev   string `json:"ev"`
	Run  string `json:"run,omitempty"`
	N    int    `json:"n"`
	Heap int64  `json:"heap"` // KiB of live heap after a forced GC
}

func liveHeapKiB() int64 {
	runtime.GC()
	var m runtime.MemStats
	runtime.ReadMemStats(&m)
	return int64(m.HeapAlloc / 1024)
}

type memProc struct {
	inner crlreader.CRLProcessor
	every int
	n     int
	out   *json.Encoder
	// closeAfter > 0: after that many entries the store underneath stops taking writes (closeStore is called once)
	closeAfter int
	closeStore func()
}

func (p *memProc) StartUpdateCrl(m *crlreader.CRLMetaInfo) error {
	if p.inner != nil {
		return p.inner.StartUpdateCrl(m)
	}
	return nil
}
func (p *memProc) InsertRevokedCertificate(e *crlreader.CRLEntry) error {
	p.n++
	if p.n%p.every == 0 {
		p.out.Encode(memEvent{Ev: "sample", N: p.n, Heap: liveHeapKiB()})
	}
	if p.closeAfter > 0 && p.n == p.closeAfter && p.closeStore != nil {
		p.closeStore()
	}
	if p.inner != nil {
		return p.inner.InsertRevokedCertificate(e)
	}
	return nil
}
func (p *memProc) UpdateExtendedMetaInfo(i *crlreader.ExtendedCRLMetaInfo) error {
	if p.inner != nil {
		return p.inner.UpdateExtendedMetaInfo(i)
	}
	return nil
}
func (p *memProc) UpdateSignatureCertificate(e *core.CertificateChainEntry) error { return nil }

// workerC17: args = mode path n store out
//
//	mode "reader": real reader + real store (disk | memory | none) with a sampling consumer
//	mode "validator": Provision of a real validator with crl_urls = path (an URL) on disk storage, sampler goroutine
func workerC17(args []string) int {
	if len(args) < 5 {
		return 2
	}
	mode, path, store, outPath := args[0], args[1], args[3], args[4]
	n, _ := strconv.Atoi(args[2])
	f, err := os.Create(outPath)
	if err != nil {
		return 2
	}
	defer f.Close()
	enc := json.NewEncoder(f)
	debug.SetGCPercent(20)
	// "validator:<mode>": the signature validation mode of the validator path (default none)
	sigMode := "none"
	if i := strings.Index(mode, ":"); i > 0 {
		mode, sigMode = mode[:i], mode[i+1:]
	}
	switch mode {
	case "reader":
		var inner crlreader.CRLProcessor
		dir, _ := os.MkdirTemp("", "verif.c17.")
		defer os.RemoveAll(dir)
		faulty := store == "disk-fault"
		if faulty {
			store = "disk"
		}
		var closeStore func()
		if store != "none" {
			st := crlstore.Map
			if store == "disk" {
				st = crlstore.LevelDB
			}
			factory, err := crlstore.CreateStoreFactory(st, dir, zap.NewNop())
			if err != nil {
				return 2
			}
			s, err := factory.CreateStore("c17", false)
			if err != nil {
				return 2
			}
			defer s.Close()
			closeStore = s.Close
			inner = crlstore.CRLPersisterProcessor{CRLStore: s}
		}
		every := n / 20
		if every == 0 {
			every = 1
		}
		p := &memProc{inner: inner, every: every, out: enc}
		if faulty {
			p.closeAfter, p.closeStore = 1000, closeStore
		}
		enc.Encode(memEvent{Ev: "reset", Run: fmt.Sprintf("%s/%s/%d", mode, store, n), Heap: liveHeapKiB()})
		_, err := crlreader.StreamingCRLFileReader{}.ReadCRL(p, path)
		if err != nil && faulty {
			// the store stopped taking writes: the read is expected to fail - what is bounded is what it costs until it has failed
			enc.Encode(memEvent{Ev: "sample", N: p.n, Heap: liveHeapKiB()})
			enc.Encode(memEvent{Ev: "done", N: p.n, Heap: liveHeapKiB()})
			return 0
		}
		if err != nil {
			fmt.Fprintln(os.Stderr, "read:", err)
			return 3
		}
		enc.Encode(memEvent{Ev: "done", N: p.n, Heap: liveHeapKiB()})
	case "validator":
		dir, _ := os.MkdirTemp("", "verif.c17v.")
		defer os.RemoveAll(dir)
		var maxHeap atomic.Int64
		stop := make(chan struct{})
		go func() {
			var m runtime.MemStats
			for {
				select {
				case <-stop:
					return
				case <-time.After(5 * time.Millisecond):
					runtime.ReadMemStats(&m)
					if h := int64(m.HeapAlloc / 1024); h > maxHeap.Load() {
						maxHeap.Store(h)
					}
				}
			}
		}()
		cfg := fmt.Sprintf(`{"mode":"crl_only","crl_config":{"work_dir":%q,"storage_type":%q,"signature_validation_mode":%q,"update_interval":"1h","crl_urls":[%q]}}`, dir, store, sigMode, path)
		v := &revocation.CertRevocationValidator{}
		if len(args) >= 6 {
			// history: the big list is named by a certificate's distribution point and arrives AFTER the validator has met a
			// damaged store of another location in its work_dir (left by a crash of an earlier run)
			cfg = fmt.Sprintf(`{"mode":"crl_only","crl_config":{"work_dir":%q,"storage_type":%q,"signature_validation_mode":%q,"update_interval":"1h"}}`, dir, store, sigMode)
			ca := pki.NewCA(pki.CAOpts{Name: "C17 CA", Serial: 1700})
			chainA := pki.Chain(ca.Leaf(pki.LeafOpts{CN: "sibling", Serial: big.NewInt(1701), CDP: []string{args[5]}}).Cert, ca)
			chainB := pki.Chain(ca.Leaf(pki.LeafOpts{CN: "big", Serial: big.NewInt(1702), CDP: []string{path}}).Cert, ca)
			v0 := &revocation.CertRevocationValidator{}
			if err := caddy.StrictUnmarshalJSON([]byte(cfg), v0); err != nil {
				return 2
			}
			if err := v0.Provision(caddy.Context{}); err != nil {
				fmt.Fprintln(os.Stderr, "provision (earlier run):", err)
				return 3
			}
			v0.VerifyClientCertificate(nil, chainA)
			v0.Cleanup()
			damaged := 0
			filepath.Walk(dir, func(p string, info os.FileInfo, err error) error {
				if err == nil && !info.IsDir() && (info.Name() == "CURRENT" || strings.HasPrefix(info.Name(), "MANIFEST")) {
					os.WriteFile(p, []byte("MAN"), 0o644)
					damaged++
				}
				return nil
			})
			if damaged == 0 {
				fmt.Fprintln(os.Stderr, "no store of the earlier run found to damage")
				return 3
			}
			if err := caddy.StrictUnmarshalJSON([]byte(cfg), v); err != nil {
				return 2
			}
			if err := v.Provision(caddy.Context{}); err != nil {
				fmt.Fprintln(os.Stderr, "provision:", err)
				return 3
			}
			v.VerifyClientCertificate(nil, chainA) // meets the damaged store; whatever the verdict
			enc.Encode(memEvent{Ev: "reset", Run: fmt.Sprintf("%s/%s/%d/after-damaged-sibling", mode, store, n), Heap: liveHeapKiB()})
			v.VerifyClientCertificate(nil, chainB)
			time.Sleep(50 * time.Millisecond)
			close(stop)
			enc.Encode(memEvent{Ev: "sample", N: n, Heap: maxHeap.Load()})
			enc.Encode(memEvent{Ev: "done", N: n, Heap: liveHeapKiB()})
			v.Cleanup()
			return 0
		}
		if err := caddy.StrictUnmarshalJSON([]byte(cfg), v); err != nil {
			return 2
		}
		enc.Encode(memEvent{Ev: "reset", Run: fmt.Sprintf("%s/%s/%d", mode, store, n), Heap: liveHeapKiB()})
		if err := v.Provision(caddy.Context{}); err != nil {
			fmt.Fprintln(os.Stderr, "provision:", err)
			return 3
		}
		time.Sleep(50 * time.Millisecond)
		close(stop)
		enc.Encode(memEvent{Ev: "sample", N: n, Heap: maxHeap.Load()})
		enc.Encode(memEvent{Ev: "done", N: n, Heap: liveHeapKiB()})
		v.Cleanup()
	}
	return 0
}

func init() { workers["c17"] = workerC17 }

// ---- parent side ---------------------------------------------------------------------------------

func buildBigCRL(path string, n int, pem bool, fat bool) error {
	_, err := buildBigCRLAlphabet(path, n, pem, fat, false)
	return err
}

// noLF maps i to a 6-byte string that is free of the byte 0x0A (digits in base 255, the digit 0x0A skipped).
func noLF(i int) []byte {
	out := make([]byte, 6)
	for k := 5; k >= 0; k-- {
		d := byte(i % 255)
		i /= 255
		if d >= 0x0a {
			d++
		}
		out[k] = d
	}
	return out
}

// buildBigCRLAlphabet: with lfFree the DER encoding contains no line feed byte before its crlExtensions (RSA algorithm identifier,
// serials and length fields chosen accordingly; the entry count is raised until the length fields comply): the reader decides by a
// line-oriented look at the head of the file whether it is PEM, and a list without line ends is as well-formed as any other.
// Returns the offset of the first 0x0A byte of the DER encoding.
// buildBigCRLAlg: the same list signed under another algorithm of the signature registry (the key is made for the occasion)
func buildBigCRLAlg(path string, n int, fat bool, alg string) error {
	ca := pki.NewCA(pki.CAOpts{Name: "Big List CA", Serial: 70})
	now := time.Now().Add(-time.Minute).UTC().Truncate(time.Second)
	nu := now.Add(24 * time.Hour)
	doc := &derbuild.Doc{Version: 2, Alg: derbuild.Algs[alg], IssuerRaw: ca.Cert.RawSubject, ThisUpdate: now, NextUpdate: &nu, ListPresent: true, ExtsPresent: true}
	var fatExt []pkix.Extension
	if fat {
		fatExt = []pkix.Extension{{Id: asn1.ObjectIdentifier{1, 3, 6, 1, 4, 1, 99999, 17}, Value: derbuild.OctetString(bytes.Repeat([]byte{0x42}, 400))}}
	}
	base := new(big.Int).Lsh(big.NewInt(0x5e), 64)
	doc.Entries = make([]derbuild.Entry, n)
	for i := range doc.Entries {
		doc.Entries[i] = derbuild.Entry{Serial: new(big.Int).Add(base, big.NewInt(int64(i))), Date: now, Exts: fatExt}
	}
	var key crypto.Signer
	switch derbuild.Algs[alg].Key {
	case "ed25519":
		_, k, _ := ed25519.GenerateKey(crand.Reader)
		key = k
	default:
		key = ca.Key
	}
	b, err := doc.Build(key)
	if err != nil {
		return err
	}
	return os.WriteFile(path, b.DER, 0o644)
}

func buildBigCRLAlphabet(path string, n int, pem bool, fat bool, lfFree bool) (int, error) {
	ca := pki.NewCA(pki.CAOpts{Name: "Big List CA", Serial: 70})
	alg := "ecdsaWithSHA256"
	if lfFree {
		// (the organisation attribute type 2.5.4.10 itself encodes with a 0x0A: a name of common name and unit only)
		ca = pki.NewCA(pki.CAOpts{Name: "Big List CA", Alg: "rsa", RSAIndex: 0, Serial: 70,
			RawName: pki.RawName([]pki.Attr{{OID: pki.OidOU, Value: "verif lists"}}, []pki.Attr{{OID: pki.OidCN, Value: "Big List CA"}})})
		alg = "sha256WithRSA"
	}
	now := time.Now().Add(-time.Minute).UTC().Truncate(time.Second)
	nu := now.Add(24 * time.Hour)
	var fatExt []pkix.Extension
	if fat {
		// every entry carries a 400-byte extension: the file is large compared with every allowance below
		fatExt = []pkix.Extension{{Id: asn1.ObjectIdentifier{1, 3, 6, 1, 4, 1, 99999, 17}, Value: derbuild.OctetString(bytes.Repeat([]byte{0x42}, 400))}}
	}
	for try := 0; ; try++ {
		doc := &derbuild.Doc{Version: 2, Alg: derbuild.Algs[alg], IssuerRaw: ca.Cert.RawSubject, ThisUpdate: now, NextUpdate: &nu, ListPresent: true, ExtsPresent: true}
		base := new(big.Int).Lsh(big.NewInt(0x5d), 64)
		doc.Entries = make([]derbuild.Entry, n+try)
		for i := range doc.Entries {
			serial := new(big.Int).Add(base, big.NewInt(int64(i)))
			if lfFree {
				serial = new(big.Int).SetBytes(append([]byte{0x5d, 0x01, 0x02}, noLF(i)...))
			}
			doc.Entries[i] = derbuild.Entry{Serial: serial, Date: now, Exts: fatExt}
		}
		b, err := doc.Build(ca.Key)
		if err != nil {
			return 0, err
		}
		first := bytes.IndexByte(b.DER, 0x0a)
		if lfFree && first >= 0 && first < len(b.DER)*9/10 {
			if try > 40 {
				return first, fmt.Errorf("no line-feed-free encoding found for %d entries (first 0x0A at %d of %d)", n, first, len(b.DER))
			}
			continue
		}
		body := b.DER
		if pem {
			body = derbuild.PEM(body, false)
		}
		return first, os.WriteFile(path, body, 0o644)
	}
}

type c17Run struct {
	Mode  string
	Store string
	N     int
	Pem   bool
	NoLF  bool   // DER without any line feed byte before its crlExtensions
	Alg   string // "" = ecdsaWithSHA256; otherwise another algorithm (a list the implementation does not accept is no case)
	Sig   string // validator path: signature validation mode ("" = none); the signer of the big lists is not configured as trusted
	// Sibling: the big list is named by a distribution point and arrives after the validator met the damaged store of another location
	Sibling bool
	// Fault: the store stops taking writes after 1000 entries (closed underneath): the read fails, and what it costs until then is bounded too
	Fault bool
}

// C17 — streaming memory bound.
func C17(c *vk.Ctx) {
	c.Level = "other"
	self, err := os.Executable()
	if err != nil {
		c.Infra("executable: %v", err)
	}
	dir, _ := os.MkdirTemp("", "verif.c17p.")
	defer os.RemoveAll(dir)
	n1, n2 := c.Pick(20000, 100000), c.Pick(200000, 1000000)
	files := map[string]string{}
	for _, n := range []int{n1, n2} {
		for _, pem := range []bool{false, true} {
			for _, fat := range []bool{false, true} {
				p := filepath.Join(dir, fmt.Sprintf("list-%d-%v-%v.crl", n, pem, fat))
				if err := buildBigCRL(p, n, pem, fat); err != nil {
					c.Infra("build big crl: %v", err)
				}
				files[fmt.Sprintf("%d-%v-%v", n, pem, fat)] = p
			}
		}
	}
	for _, n := range []int{n1, n2} {
		for _, fat := range []bool{false, true} {
			p := filepath.Join(dir, fmt.Sprintf("list-%d-nolf-%v.crl", n, fat))
			first, err := buildBigCRLAlphabet(p, n, false, fat, true)
			if err != nil {
				c.Infra("build line-feed-free crl: %v", err)
			}
			c.Set(fmt.Sprintf("first_lf_offset:%d:fat=%v", n, fat), int64(first))
			files[fmt.Sprintf("%d-nolf-%v", n, fat)] = p
		}
	}
	// signature algorithms beyond the usual ones: whatever the implementation accepts must be read within the same bound
	for _, n := range []int{n1, n2} {
		for _, fat := range []bool{false, true} {
			p := filepath.Join(dir, fmt.Sprintf("list-%d-ed25519-%v.crl", n, fat))
			if err := buildBigCRLAlg(p, n, fat, "ed25519"); err != nil {
				c.Infra("build ed25519 crl: %v", err)
			}
			files[fmt.Sprintf("%d-ed25519-%v", n, fat)] = p
		}
	}
	if err := buildBigCRL(filepath.Join(dir, "sibling.crl"), 50, false, false); err != nil {
		c.Infra("build sibling crl: %v", err)
	}
	srv := httptest.NewServer(http.FileServer(http.Dir(dir)))
	defer srv.Close()
	runs := []c17Run{}
	for _, n := range []int{n1, n2} {
		runs = append(runs, c17Run{Mode: "reader", Store: "none", N: n, Pem: false, NoLF: false}, c17Run{Mode: "reader", Store: "none", N: n, Pem: true, NoLF: false}, c17Run{Mode: "reader", Store: "disk", N: n, Pem: false, NoLF: false},
			c17Run{Mode: "validator", Store: "disk", N: n, Pem: true, NoLF: false}, c17Run{Mode: "validator", Store: "disk", N: n, Pem: false, NoLF: false},
			c17Run{Mode: "reader", Store: "none", N: n, NoLF: true}, c17Run{Mode: "validator", Store: "disk", N: n, NoLF: true},
			// the list is taken in although its signer cannot be verified (verify_log): that path reads the same file
			c17Run{Mode: "validator", Store: "disk", N: n, Sig: "verify_log"},
			c17Run{Mode: "reader", Store: "none", N: n, Alg: "ed25519"}, c17Run{Mode: "validator", Store: "disk", N: n, Alg: "ed25519"},
			// the bound is a bound of the configured path whatever happened before: a store of another location that a crash left damaged
			c17Run{Mode: "validator", Store: "disk", N: n, Sibling: true},
			c17Run{Mode: "reader", Store: "disk", N: n, Fault: true})
	}
	if c.Thorough() {
		runs = append(runs, c17Run{Mode: "reader", Store: "disk", N: n2, Pem: true, NoLF: false}, c17Run{Mode: "reader", Store: "memory", N: n1, Pem: false, NoLF: false}, c17Run{Mode: "reader", Store: "disk", N: n2, NoLF: true})
	}
	var states, trans int64
	validated := 0
	maxHeap := map[string]map[int]int64{}
	for _, r := range runs {
		path := files[fmt.Sprintf("%d-%v-%v", r.N, r.Pem, r.Mode == "validator")]
		if r.NoLF {
			path = files[fmt.Sprintf("%d-nolf-%v", r.N, r.Mode == "validator")]
		}
		if r.Alg != "" {
			path = files[fmt.Sprintf("%d-%s-%v", r.N, r.Alg, r.Mode == "validator")]
		}
		arg := path
		if r.Mode == "validator" {
			arg = srv.URL + "/" + filepath.Base(path)
		}
		out := filepath.Join(dir, "trace.ndjson")
		wmode := r.Mode
		if r.Sig != "" {
			wmode += ":" + r.Sig
		}
		wstore := r.Store
		if r.Fault {
			wstore = "disk-fault"
		}
		wargs := []string{"worker", "c17", wmode, arg, strconv.Itoa(r.N), wstore, out}
		if r.Sibling {
			wargs = append(wargs, srv.URL+"/sibling.crl")
		}
		cmd := exec.Command(self, wargs...)
		cmd.Env = os.Environ()
		if b, err := cmd.CombinedOutput(); err != nil {
			if r.Alg != "" {
				// the implementation does not take lists of this algorithm: nothing to bound
				c.Eval(fmt.Sprintf("%+v (not accepted)", r))
				continue
			}
			c.Infra("c17 worker %+v: %v\n%s", r, err, string(b))
		}
		trace, err := os.ReadFile(out)
		if err != nil {
			c.Infra("trace: %v", err)
		}
		// constants of the trace specification: C0 = first sample + 24 MiB slack (+ LevelDB's constant buffers), C1 = 0 unless memory store
		var first memEvent
		sc := bufio.NewScanner(bytesReader(trace))
		var peak int64
		for sc.Scan() {
			var e memEvent
			json.Unmarshal(sc.Bytes(), &e)
			if e.Ev == "reset" {
				first = e
			}
			if e.Heap > peak {
				peak = e.Heap
			}
		}
		key := fmt.Sprintf("%s/%s/pem=%v", r.Mode, r.Store, r.Pem)
		if r.NoLF {
			key += "/nolf"
		}
		if r.Sig != "" {
			key += "/sig=" + r.Sig
		}
		if r.Alg != "" {
			key += "/alg=" + r.Alg
		}
		if r.Sibling {
			key += "/after-damaged-sibling"
		}
		if r.Fault {
			key += "/store-stops-taking-writes"
		}
		if maxHeap[key] == nil {
			maxHeap[key] = map[int]int64{}
		}
		maxHeap[key][r.N] = peak
		c.Set("peak_kib:"+key+fmt.Sprintf(":%d", r.N), peak)
		c0 := first.Heap + 4*1024
		if r.Store == "disk" {
			c0 += 28 * 1024 // memtables + block cache of the LevelDB handles (constant)
		}
		if r.Mode == "validator" {
			c0 += 16 * 1024 // peak (not post-GC) heap of the whole validator incl. HTTP client buffers
		}
		c1 := 0
		if r.Store == "memory" {
			c1 = 1
		}
		cfg := fmt.Sprintf("SPECIFICATION Spec\nCONSTANTS\n C0 = %d\n C1 = %d\n Block = %d\nINVARIANT MemBound\nPOSTCONDITION Accepted\nCHECK_DEADLOCK FALSE\n", c0, c1, r.N/20+r.N)
		res := tlcrun.Run(tlcrun.Options{SpecDir: vk.SpecDir(), Module: "TraceMem", Config: cfg, Workers: 1,
			Files: map[string][]byte{"trace.ndjson": trace}, Env: map[string]string{"TRACE": "trace.ndjson"}})
		if res.InfraErr != nil && res.Violation == "" {
			c.Infra("tlc TraceMem: %v", res.InfraErr)
		}
		states += res.Distinct
		trans += res.Generated
		validated++
		c.Eval(fmt.Sprintf("%+v", r))
		if res.Violation != "" {
			c.Violation(fmt.Sprintf("memory-grows-with-entries:%s:store=%s:pem=%v:nolf=%v:sig=%s%s", r.Mode, r.Store, r.Pem, r.NoLF, r.Sig, map[bool]string{true: ":after-damaged-sibling"}[r.Sibling]+map[bool]string{true: ":store-stops-taking-writes"}[r.Fault]),
				fmt.Sprintf("trace of reading %d entries violates heap <= C0 + C1*(held+resident) with C0 = %d KiB, C1 = %d: peak live heap %d KiB (first sample %d KiB)", r.N, c0, c1, peak, first.Heap),
				map[string]any{"run": r, "peak_kib": peak, "first_kib": first.Heap, "tlc": firstLines(res.Violation, 6)})
		}
		if validated <= 2 {
			c.Sample(map[string]any{"run": r, "first_kib": first.Heap, "peak_kib": peak, "C0_kib": c0})
		}
	}
	// independence of N: ten times the entries must not cost more than the slack
	for key, m := range maxHeap {
		if m[n1] > 0 && m[n2] > 0 && m[n2]-m[n1] > 32*1024 {
			c.Violation("memory-scales-with-entries:"+key, fmt.Sprintf("peak heap %d KiB for %d entries but %d KiB for %d entries", m[n1], n1, m[n2], n2), map[string]any{"key": key, "heaps": m})
		}
	}
	c.Set("states", states)
	c.Set("transitions", trans)
	c.Set("traces_validated_against_impl", int64(validated))
	c.Set("explanation", "A child process reads N and 10N entries (DER and PEM; reader alone, reader into the LevelDB store, and the whole validator path HTTP download -> parse -> disk store) and logs the live heap after a forced GC at every 1/20 of the list (validator path: peak HeapAlloc from a 5 ms sampler). TLC validates each trace against TraceMem.tla: the entry counter follows the reader's Deliver steps and the invariant heap <= C0 + C1*(held + resident) holds at every event with C0 = first sample + 4 MiB (+28 MiB for LevelDB's constant buffers, +16 MiB for the peak-sampled validator path whose input files are 9 MB and 90 MB) and C1 = 0 on the disk path; in addition peak(10N) - peak(N) <= 32 MiB per path.")
	c.Set("rule", "a case is one (path, store, encoding, N) run in a child process; distinct = distinct runs")
	c.Assume("a measured resource bound observed through a trace: TLC contributes the abstraction (held <= 1 is proved on CrlReader.tla as OneResident) and the invariant, not a proof about the Go allocator")
}

func firstLines(s string, n int) string {
	out := ""
	k := 0
	for _, ch := range s {
		out += string(ch)
		if ch == '\n' {
			k++
			if k >= n {
				break
			}
		}
	}
	return out
}
