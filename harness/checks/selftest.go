package checks

import (
	"fmt"
	"strings"

	"verif/harness/tlcrun"
	"verif/harness/vk"
	"verif/harness/world"
)

// Selftest demonstrates that the machinery is bound and not vacuous:
//  1. every invariant bites: the specification with one named deviation enabled (= the code before a repair) is REJECTED by TLC;
//  2. the trace specifications reject a corrupted trace and a trace with a dropped event;
//  3. every action of the model-checking configurations is taken at least once (coverage).
func Selftest() int {
	fail := 0
	expectViolation := func(name string, o tlcrun.Options, want string) {
		res := tlcrun.Run(o)
		ok := res.InfraErr == nil && res.Violation != "" && strings.Contains(res.Violation, want)
		fmt.Printf("%-70s %s\n", name, map[bool]string{true: "ok (rejected: " + want + ")", false: "FAILED"}[ok])
		if !ok {
			fail++
			fmt.Println(firstLines(res.Violation+res.Tail, 12))
		}
	}
	expectOK := func(name string, o tlcrun.Options) tlcrun.Result {
		res := tlcrun.Run(o)
		ok := res.InfraErr == nil && res.OK
		fmt.Printf("%-70s %s\n", name, map[bool]string{true: fmt.Sprintf("ok (%d distinct states)", res.Distinct), false: "FAILED"}[ok])
		if !ok {
			fail++
			fmt.Println(firstLines(res.Violation+res.Tail, 12))
		}
		return res
	}
	sd := vk.SpecDir()
	// ---- 1. model mutants -----------------------------------------------------------------------
	hubCfg := HubCfg{Mode: "crl_only", Sig: "verify", Strict: true, Fetch: "actively", Disk: true, TrustA: false, Conf: "none", Ocsp: "noaia"}
	hub := func(cfg HubCfg, dev string) tlcrun.Options {
		mc := fmt.Sprintf("---- MODULE MCRev ----\nEXTENDS Revocation\nCfgVal == {%s}\nDevVal == {%q}\n====\n", cfg.TLA(), dev)
		return tlcrun.Options{SpecDir: sd, Module: "MCRev", Workers: 4, Files: map[string][]byte{"MCRev.tla": []byte(mc)},
			Config: "SPECIFICATION Spec\nCONSTANTS\n Dev <- DevVal\n CfgSpace <- CfgVal\n MaxSteps = 0\n Export = FALSE\n" + hubProps + "CHECK_DEADLOCK FALSE\nVIEW View\n"}
	}
	expectViolation("Revocation.tla + D9 (first load streams into the live store)", hub(hubCfg, "D9"), "Refines")
	lenient := hubCfg
	lenient.Strict = false
	expectViolation("Revocation.tla + D8 (ldap CDP denies in lenient mode)", hub(lenient, "D8"), "LenientNeverDenies")
	vlog := HubCfg{Mode: "crl_only", Sig: "verify_log", Strict: false, Fetch: "actively", Disk: false, TrustA: false, Conf: "url", Ocsp: "noaia"}
	expectViolation("Revocation.tla + D13 (refresh ignores the signature mode)", hub(vlog, "D13"), "ProvisionAcceptsAcceptable")
	bg := HubCfg{Mode: "crl_only", Sig: "none", Strict: false, Fetch: "background", Disk: false, TrustA: false, Conf: "url", Ocsp: "noaia"}
	expectViolation("Revocation.tla + D23 (background mode never records locations)", hub(bg, "D23"), "ProvisionAcceptsAcceptable")
	expectViolation("CrlReader.tla with BoundByTbs = FALSE (optional parts by next tag only)", tlcrun.Options{SpecDir: sd, Module: "CrlReader", Config: "MC_CrlReader_asis.cfg", Workers: 4}, "RejectsOutOfProfile")
	expectViolation("Refresher.tla with Global = TRUE (process-wide finish timestamp)", tlcrun.Options{SpecDir: sd, Module: "Refresher", Config: "MC_Refresher_asis.cfg", Workers: 2}, "BoundedRefresh")
	expectViolation("EntryLocks.tla with Relock = TRUE (callee re-locks)", tlcrun.Options{SpecDir: sd, Module: "EntryLocks", Workers: 2,
		Config: "SPECIFICATION Spec\nCONSTANTS\n Relock = TRUE\n Recheck = TRUE\nINVARIANTS NoDeadlock\nCHECK_DEADLOCK FALSE\n"}, "NoDeadlock")
	expectViolation("EntryLocks.tla with Recheck = FALSE (callee trusts the caller's earlier read)", tlcrun.Options{SpecDir: sd, Module: "EntryLocks", Workers: 2,
		Config: "SPECIFICATION Spec\nCONSTANTS\n Relock = FALSE\n Recheck = FALSE\nINVARIANTS NoCrash\nCHECK_DEADLOCK FALSE\n"}, "NoCrash")
	expectViolation("Authz.tla + D18 (end-entity / no cRLSign accepted as CRL signer)", tlcrun.Options{SpecDir: sd, Module: "MCAuthz", Config: "MC_Authz_asis.cfg", Workers: 4}, "OnlyEntitled")
	oc := ocspCfg(false, 2, "absent", []string{"good"}, []string{"revoked"})
	ocspMut := func(expiry, key string) tlcrun.Options {
		mc := fmt.Sprintf("---- MODULE MCOcsp ----\nEXTENDS Ocsp\nCfgVal == {%s}\n====\n", oc.TLA())
		return tlcrun.Options{SpecDir: sd, Module: "MCOcsp", Workers: 4, Files: map[string][]byte{"MCOcsp.tla": []byte(mc)},
			Config: fmt.Sprintf("SPECIFICATION Spec\nCONSTANTS\n CfgSpace <- CfgVal\n MaxTime = 4\n MaxQueries = 4\n Expiry = %q\n KeyBy = %q\n Export = FALSE\n%sCHECK_DEADLOCK FALSE\nVIEW View\n", expiry, key, ocspProps)}
	}
	expectViolation("Ocsp.tla with Expiry = sliding (every read renews the lifetime)", ocspMut("sliding", "issuer"), "Bounded")
	expectViolation("Ocsp.tla with KeyBy = subject (subject + serial as cache key)", ocspMut("absolute", "subject"), "KeyRight")
	expectViolation("Refresher.tla with DropWhenBusy = TRUE (a tick that meets a taken mutex is dropped)", tlcrun.Options{SpecDir: sd, Module: "Refresher", Config: "MC_Refresher_drop.cfg", Workers: 2}, "BoundedRefresh")
	expectViolation("Refresher.tla with LeakOnSibling = TRUE (cleaning up a failed sibling leaks the refresh mutex)", tlcrun.Options{SpecDir: sd, Module: "Refresher", Config: "MC_Refresher_leak.cfg", Workers: 2}, "Live")
	expectViolation("Loaders.tla with NoRecheck = TRUE (the background load activates whatever it staged)", tlcrun.Options{SpecDir: sd, Module: "Loaders", Config: "MC_Loaders_norecheck.cfg", Workers: 2}, "NoRollback")
	expectViolation("Loaders.tla with TryRead = TRUE (a lookup does not wait for a writer and answers 'not revoked')", tlcrun.Options{SpecDir: sd, Module: "Loaders", Config: "MC_Loaders_tryread.cfg", Workers: 2}, "LookupSound")
	expectViolation("CrlRepo.tla with LoadedBeforeSwap (the entry is marked loaded before a swap that then fails)", tlcrun.Options{SpecDir: sd, Module: "CrlRepo", Config: "MC_CrlRepo_loadedfirst.cfg", Workers: 4}, "CrashSafe")
	expectViolation("LockOrder.tla with Registered = TRUE (repository lock asked for under the entry lock)", tlcrun.Options{SpecDir: sd, Module: "LockOrder", Config: "MC_LockOrder_asis.cfg", Workers: 2}, "Ordered")
	expectViolation("LockOrder.tla with Registered = TRUE: the deadlock itself", tlcrun.Options{SpecDir: sd, Module: "LockOrder", Workers: 2,
		Config: "SPECIFICATION Spec\nCONSTANTS\n Registered = TRUE\nINVARIANTS NoDeadlock\nCHECK_DEADLOCK FALSE\n"}, "NoDeadlock")
	expectOK("LockOrder.tla as the code is (NoDeadlock, Ordered)", tlcrun.Options{SpecDir: sd, Module: "LockOrder", Config: "MC_LockOrder.cfg", Workers: 2})
	flight := func(merge string) tlcrun.Options {
		mc := "---- MODULE MCOcspFlight ----\nEXTENDS OcspFlight\nCfgVal == {[cls |-> k, strict |-> [v \\in {\"v1\",\"v2\"} |-> v = \"v2\"], cacheOn |-> b] : k \\in [{\"cA\",\"cB\"} -> {\"good\",\"revoked\",\"http500\"}], b \\in BOOLEAN}\n====\n"
		return tlcrun.Options{SpecDir: sd, Module: "MCOcspFlight", Workers: 4, Files: map[string][]byte{"MCOcspFlight.tla": []byte(mc)},
			Config: "SPECIFICATION Spec\nCONSTANTS\n CfgSpace <- CfgVal\n MaxBegins = 3\n Merge = " + merge + "\n Export = FALSE\nPROPERTIES OwnAnswerOnly RevokedRejects StrictNeedsAnswer\nINVARIANTS KeyRight\nCHECK_DEADLOCK FALSE\nVIEW View\n"}
	}
	expectViolation("OcspFlight.tla with Merge = TRUE (a query takes over the result of another one in flight)", flight("TRUE"), "OwnAnswerOnly")
	expectOK("OcspFlight.tla as the code is", flight("FALSE"))
	dyn := HubCfg{Mode: "prefer_ocsp", Sig: "none", Strict: false, Fetch: "actively", Disk: false, TrustA: false, Conf: "none", Ocsp: "dyncache", Aia: true}
	expectOK("Revocation.tla with a responder that changes (ocsp = dyncache): all properties + OcacheSound", func() tlcrun.Options {
		o := hub(dyn, "none")
		o.Config = strings.Replace(o.Config, "ProvisionAcceptsAcceptable", "ProvisionAcceptsAcceptable OcacheSound", 1)
		return o
	}())
	expectOK("CrlStores.tla (Isolation, StagedStable)", tlcrun.Options{SpecDir: sd, Module: "CrlStores", Workers: 4,
		Config: "SPECIFICATION Spec\nCONSTANTS\n Ids = {\"a\", \"b\"}\n Slots = {\"s1\", \"s2\"}\n Keys = {\"k1\", \"k2\"}\n Export = FALSE\nINVARIANTS TypeOK\nPROPERTIES Isolation StagedStable\nCHECK_DEADLOCK FALSE\n"})
	// ---- 2. trace specifications reject corrupted traces -------------------------------------------
	good := `{"ev":"swap","ver":1}
{"ev":"lookup","r":"r0","probe":"marker","j":1,"s":1,"e":1,"ans":"revoked","ver":0}
{"ev":"swap","ver":2}
{"ev":"lookup","r":"r0","probe":"marker","j":1,"s":1,"e":2,"ans":"accept","ver":0}
{"ev":"lookup","r":"r1","probe":"common","j":0,"s":2,"e":2,"ans":"revoked","ver":0}
`
	tr := func(body string) tlcrun.Options {
		return tlcrun.Options{SpecDir: sd, Module: "TraceRepo", Config: "TraceRepo.cfg", Workers: 1, Files: map[string][]byte{"trace.ndjson": []byte(body)}, Env: map[string]string{"TRACE": "trace.ndjson"}}
	}
	expectOK("TraceRepo.tla accepts a legal trace", tr(good))
	expectViolation("TraceRepo.tla rejects a stale answer (old list after the new one)", tr(strings.Replace(good, `"j":1,"s":1,"e":2,"ans":"accept"`, `"j":1,"s":2,"e":2,"ans":"revoked"`, 1)), "Accepted")
	expectViolation("TraceRepo.tla rejects an empty/partial observation (common probe accepted)", tr(strings.Replace(good, `"probe":"common","j":0,"s":2,"e":2,"ans":"revoked"`, `"probe":"common","j":0,"s":2,"e":2,"ans":"accept"`, 1)), "Accepted")
	expectViolation("TraceRepo.tla rejects a trace with the swap event dropped", tr(strings.Replace(good, `{"ev":"swap","ver":2}`+"\n", "", 1)), "Accepted")
	mem := `{"ev":"reset","run":"x","n":0,"heap":2000}
{"ev":"sample","n":1000,"heap":2100}
{"ev":"sample","n":2000,"heap":2200}
{"ev":"done","n":2000,"heap":2100}
`
	mtr := func(body string) tlcrun.Options {
		return tlcrun.Options{SpecDir: sd, Module: "TraceMem", Workers: 1, Files: map[string][]byte{"trace.ndjson": []byte(body)}, Env: map[string]string{"TRACE": "trace.ndjson"},
			Config: "SPECIFICATION Spec\nCONSTANTS\n C0 = 6000\n C1 = 0\n Block = 1000\nINVARIANT MemBound\nPOSTCONDITION Accepted\nCHECK_DEADLOCK FALSE\n"}
	}
	expectOK("TraceMem.tla accepts a flat heap trace", mtr(mem))
	expectViolation("TraceMem.tla rejects a heap that grows with the entries", mtr(strings.Replace(mem, `"n":2000,"heap":2200`, `"n":2000,"heap":9200`, 1)), "MemBound")
	expectViolation("TraceMem.tla rejects a counter that jumps more than one block", mtr(strings.Replace(mem, `"n":1000,"heap":2100`, `"n":1500,"heap":2100`, 1)), "Accepted")
	// hook traces against the transition system of CrlRepo.tla (hooktrace.go)
	{
		c := vk.New("C08", "quick")
		ent := new(int)
		mk := func(sites ...string) []world.Event {
			var l []world.Event
			for i, s := range sites {
				l = append(l, world.Event{Seq: int64(i + 1), Site: s, Args: []any{nil, ent}})
			}
			return l
		}
		okTrace := mk("repo.load.tmp", "repo.load.fetched", "repo.load.parsed", "repo.load.accepting", "map.update.replaced", "repo.load.accepted",
			"repo.refresh.tmp", "repo.refresh.info", "repo.refresh.fetched", "repo.refresh.staged", "repo.refresh.parsed", "repo.refresh.swapping", "repo.swap.locked", "map.update.replaced", "repo.swap.unlocking", "repo.refresh.swapped",
			"repo.refresh.tmp", "repo.refresh.info", "repo.refresh.fetched", "repo.refresh.staged", "repo.refresh.tmp", "repo.refresh.info")
		for _, tc := range []struct {
			name   string
			log    []world.Event
			reject string
		}{
			{"accepts a first load, a refresh, a refresh that fails while parsing, the start of another", okTrace, ""},
			{"rejects a store replaced before the list was parsed", mk("repo.load.tmp", "repo.load.fetched", "map.update.replaced"), "map.update.replaced"},
			{"rejects a refresh that swaps without taking the entry lock", mk("repo.load.tmp", "repo.load.fetched", "repo.load.parsed", "repo.load.accepting", "map.update.replaced", "repo.refresh.tmp", "repo.refresh.info", "repo.refresh.fetched", "repo.refresh.staged", "repo.refresh.parsed", "repo.refresh.swapping", "map.update.replaced"), "map.update.replaced"},
			{"rejects a refresh of an entry that was never loaded", mk("repo.refresh.tmp"), "repo.refresh.tmp"},
		} {
			_, n, rej := checkHookTrace(c, false, tc.log)
			ok := rej == tc.reject && n > 0
			fmt.Printf("%-70s %s\n", "hook trace vs CrlRepo.tla "+tc.name, map[bool]string{true: "ok", false: "FAILED (rejected at " + rej + ")"}[ok])
			if !ok {
				fail++
			}
		}
	}
	// ---- 3. coverage: every action of the property configurations is taken ---------------------------
	for _, cfg := range []struct{ mod, cfg string }{{"CrlStore", "MC_CrlStore_fault.cfg"}, {"CrlReader", "MC_CrlReader_fault.cfg"}, {"CrlRepo", "MC_CrlRepo.cfg"}, {"CrlRepo", "MC_CrlRepo_mem.cfg"}, {"Refresher", "MC_Refresher.cfg"}, {"EntryLocks", "MC_EntryLocks.cfg"}, {"Loaders", "MC_Loaders.cfg"}} {
		res := tlcrun.Run(tlcrun.Options{SpecDir: sd, Module: cfg.mod, Config: cfg.cfg, Workers: 4, Coverage: true})
		// actions that are disabled by construction in that configuration (covered by the sibling configuration)
		expectedZero := map[string]bool{"LMapSwap": cfg.cfg == "MC_CrlRepo.cfg", "TickDropped": cfg.mod == "Refresher"}
		if cfg.cfg == "MC_CrlRepo_mem.cfg" {
			for _, a := range []string{"LCloseOld", "LCloseNew", "LMvAside", "LMvNew", "LRmOld", "LReopen", "Crash", "Restart"} {
				expectedZero[a] = true
			}
		}
		var zero []string
		for _, z := range res.ZeroActions {
			if !expectedZero[z] {
				zero = append(zero, z)
			}
		}
		res.ZeroActions = zero
		ok := res.InfraErr == nil && res.OK && len(res.ZeroActions) == 0
		fmt.Printf("%-70s %s\n", "coverage "+cfg.mod+" ("+cfg.cfg+")", map[bool]string{true: fmt.Sprintf("ok (%d states, no action with count 0)", res.Distinct), false: fmt.Sprintf("FAILED zero=%v", res.ZeroActions)}[ok])
		if !ok {
			fail++
		}
	}
	if fail > 0 {
		fmt.Printf("selftest: %d FAILED\n", fail)
		return 1
	}
	fmt.Println("selftest: all binding / vacuity demonstrations passed")
	return 0
}
