package checks

import "github.com/muesli/cache2go"

func cacheTableCount() int { return cache2go.Cache("ocsp_client").Count() }
