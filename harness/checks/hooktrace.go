package checks

import (
	"encoding/json"
	"fmt"
	"os"
	"sort"
	"strings"
	"sync"

	"verif/harness/graph"
	"verif/harness/tlcrun"
	"verif/harness/vk"
	"verif/harness/world"
)

// ---------------------------------------------------------------------------------------------
// code -> spec for the loader protocol: the hook events that the real repository emits while the hub campaigns run
// (thousands of first loads and refreshes that nobody steers) are checked for inclusion in the transition system of
// CrlRepo.tla. TLC exports that system (no readers, one key: 2-3 k states per backend); the runs counter is projected away so
// that a trace may hold any number of runs; what the trace does not log (what the origin serves, staging and parsing steps
// without a hook, publish steps) is resolved by subset construction over the silent edges. A trace that dies is model drift
// (the model does not describe the code), reported in the evidence, never a violation by itself.
// ---------------------------------------------------------------------------------------------

type repoNFA struct {
	n       int
	silent  [][]int
	byEvent []map[string][]int
	idleAny []int // every state in which no run is in progress (a new instance may find any store on disk)
	idleNew []int // ... and nothing is stored
	events  map[string]bool
}

var (
	repoNFAMu    sync.Mutex
	repoNFACache = map[bool]*repoNFA{}
)

func getRepoNFA(c *vk.Ctx, disk bool) *repoNFA {
	repoNFAMu.Lock()
	defer repoNFAMu.Unlock()
	if n, ok := repoNFACache[disk]; ok {
		return n
	}
	cfg := fmt.Sprintf("SPECIFICATION Spec\nCONSTANTS\n Readers = {}\n Keys = {\"x\"}\n MaxRuns = 3\n Disk = %s\n WithCrash = FALSE\n Export = TRUE\n%sCHECK_DEADLOCK FALSE\nVIEW View\n", tlaBool(disk), repoProps)
	g := graph.New()
	var perr error
	res := tlcrun.Run(tlcrun.Options{SpecDir: vk.SpecDir(), Module: "CrlRepo", Config: cfg, Workers: 4,
		OnTagged: func(tag string, p json.RawMessage) {
			if tag == "EDGE" {
				if err := g.AddPayload(p); err != nil {
					perr = err
				}
			}
		}})
	if res.InfraErr != nil || !res.OK || perr != nil {
		c.Infra("tlc CrlRepo (trace automaton): %v %v %s", res.InfraErr, perr, res.Violation)
	}
	g.Finish("")
	nfa := &repoNFA{events: map[string]bool{}}
	id := map[string]int{}
	proj := func(state string) (int, repoState) {
		var m map[string]any
		json.Unmarshal([]byte(state), &m)
		delete(m, "runs")
		b, _ := json.Marshal(m)
		var st repoState
		json.Unmarshal([]byte(state), &st)
		k := string(b)
		if i, ok := id[k]; ok {
			return i, st
		}
		i := len(id)
		id[k] = i
		nfa.silent = append(nfa.silent, nil)
		nfa.byEvent = append(nfa.byEvent, map[string][]int{})
		if st.Lpc == "idle" && st.Up && !st.Closed {
			nfa.idleAny = append(nfa.idleAny, i)
			if !st.Loaded && !st.Final.Meta && len(st.Final.Keys) == 0 {
				nfa.idleNew = append(nfa.idleNew, i)
			}
		}
		return i, st
	}
	for _, e := range g.Edges {
		from, _ := proj(e.From)
		to, tst := proj(e.To)
		site := ""
		switch opName(e) {
		case "publish", "shutdown", "reprovision", "done", "fail", "swapClosed":
		default:
			site = siteFor(tst.Kind, tst.Lpc)
			if site == "origin.midbody" || tst.Lpc == "failed" {
				site = "" // (the transfer gate is not a hook; a failing step is known by the hooks that do NOT follow)
			}
		}
		if site == "" {
			nfa.silent[from] = append(nfa.silent[from], to)
		} else {
			nfa.byEvent[from][site] = append(nfa.byEvent[from][site], to)
			nfa.events[site] = true
		}
	}
	nfa.n = len(id)
	repoNFACache[disk] = nfa
	return nfa
}

func (n *repoNFA) closure(set map[int]bool) map[int]bool {
	stack := make([]int, 0, len(set))
	for s := range set {
		stack = append(stack, s)
	}
	for len(stack) > 0 {
		s := stack[len(stack)-1]
		stack = stack[:len(stack)-1]
		for _, t := range n.silent[s] {
			if !set[t] {
				set[t] = true
				stack = append(stack, t)
			}
		}
	}
	return set
}

func (n *repoNFA) step(set map[int]bool, site string) map[int]bool {
	out := map[int]bool{}
	for s := range set {
		for _, t := range n.byEvent[s][site] {
			out[t] = true
		}
	}
	return n.closure(out)
}

// checkHookTrace validates the hook log of one world against CrlRepo.tla; returns the number of per-entry traces and events
// checked and, for a rejected trace, where it died.
func checkHookTrace(c *vk.Ctx, disk bool, log []world.Event) (traces, events int, rejected string) {
	nfa := getRepoNFA(c, disk)
	sets := map[any]map[int]bool{}
	var current any // the entry of the run in progress (store events carry the store, not the entry)
	var order []any
	for _, ev := range log {
		site := ev.Site
		if !nfa.events[site] {
			continue
		}
		var entry any
		if strings.HasPrefix(site, "repo.") {
			if len(ev.Args) < 2 {
				continue
			}
			entry = ev.Args[1]
			current = entry
		} else {
			entry = current
		}
		if entry == nil {
			continue
		}
		set, ok := sets[entry]
		if !ok {
			start := nfa.idleNew
			if disk {
				start = nfa.idleAny
			}
			set = map[int]bool{}
			for _, s := range start {
				set[s] = true
			}
			set = nfa.closure(set)
			order = append(order, entry)
		}
		if set == nil {
			continue // this entry's trace was rejected before
		}
		next := nfa.step(set, site)
		events++
		if len(next) == 0 {
			if rejected == "" {
				rejected = site
			}
			sets[entry] = nil
			continue
		}
		sets[entry] = next
	}
	traces = len(order)
	return
}

// hookTraceStats accumulates over a campaign.
type hookTraceStats struct {
	mu       sync.Mutex
	traces   int
	events   int
	rejected map[string]int
}

var hookStats = &hookTraceStats{rejected: map[string]int{}}

func (h *hookTraceStats) add(c *vk.Ctx, disk bool, log []world.Event, context func() string) {
	if len(log) == 0 {
		return
	}
	t, e, rej := checkHookTrace(c, disk, log)
	h.mu.Lock()
	h.traces += t
	h.events += e
	if rej != "" {
		h.rejected[rej]++
	}
	h.mu.Unlock()
	if rej != "" {
		c.Drift("hook-trace-not-a-path-of-CrlRepo:at=" + rej)
		if os.Getenv("VERIF_DEBUG") != "" {
			var sites []string
			for _, ev := range log {
				sites = append(sites, ev.Site)
			}
			fmt.Fprintf(os.Stderr, "HOOKTRACE rejected at %s: %s\n  %s\n", rej, context(), strings.Join(sites, " "))
		}
	}
}

func (h *hookTraceStats) report(c *vk.Ctx) {
	h.mu.Lock()
	defer h.mu.Unlock()
	if h.traces == 0 {
		return
	}
	c.Set("hook_traces_checked_against_CrlRepo", int64(h.traces))
	c.Set("hook_events_checked", int64(h.events))
	var rej []string
	for k, v := range h.rejected {
		rej = append(rej, fmt.Sprintf("%s x%d", k, v))
	}
	sort.Strings(rej)
	c.Set("hook_traces_rejected", rej)
}

// ReportHookTraces puts the campaign's hook-trace numbers into the evidence (called once before the check finishes).
func ReportHookTraces(c *vk.Ctx) { hookStats.report(c) }
