package checks

import (
	"bytes"
	"crypto/x509"
	"encoding/json"
	"fmt"
	"math/big"
	"math/rand"
	"os"
	"os/exec"
	"path/filepath"
	"regexp"
	"runtime"
	"strconv"
	"strings"
	"sync"
	"sync/atomic"
	"time"

	"github.com/gr33nbl00d/caddy-revocation-validator/config"
	ocspchk "github.com/gr33nbl00d/caddy-revocation-validator/ocsp"
	"go.uber.org/zap"

	"verif/harness/origin"
	"verif/harness/pki"
	"verif/harness/tlcrun"
	"verif/harness/vk"
	"verif/harness/world"
)

// ---------------------------------------------------------------------------------------------
// worker: runs inside a -race build of the harness
// ---------------------------------------------------------------------------------------------

type lookupEv struct {
	Ev    string `json:"ev"`
	R     string `json:"r,omitempty"`
	Probe string `json:"probe,omitempty"`
	J     int64  `json:"j"`
	S     int64  `json:"s"`
	E     int64  `json:"e"`
	Ans   string `json:"ans,omitempty"`
	Ver   int64  `json:"ver"`
}

// workerC13: args = seed tier tracePath
func workerC13(args []string) int {
	seed, _ := strconv.ParseInt(args[0], 10, 64)
	thorough := args[1] == "thorough"
	tracePath := args[2]
	rng := rand.New(rand.NewSource(seed))
	fmt.Println("PHASE gated")
	c := vk.New("C13", args[1])
	// (1) gated schedules: the loader parked at every hook with lookups running concurrently, under the race detector
	for _, disk := range []bool{true, false} {
		g, _ := exportRepoGraph(c, disk, 3)
		init := freshInit(g)
		for wi, plans := range repoScenarios(rng, thorough) {
			if !thorough && wi >= 5 {
				break
			}
			runRepoWalk(c, "C13", disk, guidedWalk(g, init, plans), seed*31+int64(wi), "", nil)
		}
	}
	fmt.Println("PHASE sigretry")
	c13SigRetry(thorough)
	if hungOnce.Load() {
		return 0
	}
	fmt.Println("PHASE background")
	c13Background(rng, thorough)
	if hungOnce.Load() {
		return 0
	}
	fmt.Println("PHASE parallel")
	c13ParallelLoads(rng, thorough)
	if hungOnce.Load() {
		return 0
	}
	fmt.Println("PHASE twin")
	c13TwinLoads(thorough)
	if hungOnce.Load() {
		return 0
	}
	fmt.Println("PHASE shutdown")
	c13CleanupDuringLoad(thorough)
	if hungOnce.Load() {
		return 0
	}
	fmt.Println("PHASE ocsp")
	c13Ocsp(rng, thorough)
	fmt.Println("PHASE stress")
	for _, disk := range []bool{false, true} {
		if hungOnce.Load() {
			return 0
		}
		if err := c13Stress(disk, rng, thorough, tracePath+"."+backendName(disk)); err != nil {
			fmt.Println("WORKER-ERROR", err)
			return 3
		}
	}
	fmt.Println("PHASE done")
	return 0
}

func init() { workers["c13race"] = workerC13 }

// hungOnce: some call did not return. The objects involved hold their locks forever, so every further call would only wait out
// its watchdog as well: the remaining calls of the worker are skipped and the HANG line decides.
var hungOnce atomic.Bool

func watchdog(name string, d time.Duration, f func()) {
	if hungOnce.Load() {
		return
	}
	done := make(chan struct{})
	go func() { defer close(done); f() }()
	select {
	case <-done:
	case <-time.After(d):
		if !hungOnce.Swap(true) {
			fmt.Printf("HANG %s did not return within %v\n", name, d)
		}
	}
}

// c13TwinLoads: an entry that is known but not loaded (its first load failed) is loaded by a pass and by a handshake at the same
// time: the pass downloads without the entry lock, the handshake under it. The distribution-point set has two members, so both
// go through the same multi-location loader. The origin lets both transfers end together.
func c13TwinLoads(thorough bool) {
	rounds := 2
	if thorough {
		rounds = 12
	}
	for i := 0; i < rounds; i++ {
		disk := i%2 == 1
		org := origin.New()
		ca := pki.NewCA(pki.CAOpts{Name: "Twin CA", Serial: 721})
		serial := big.NewInt(7201)
		cdp := []string{origin.ClosedPortURL() + "/mirror/twin.crl", org.URL + "/twin.crl"}
		if i%4 >= 2 {
			cdp = []string{org.URL + "/twin.crl", org.URL + "/twin-b.crl"}
		}
		leaf := ca.Leaf(pki.LeafOpts{CN: "twin", Serial: serial, CDP: cdp})
		chain := pki.Chain(leaf.Cert, ca)
		// the first load fails in the transfer itself (no member of the set delivers), so nothing was learnt about the members
		org.Set("/twin.crl", origin.Behaviour{Kind: "hangup", Body: []byte("0123456789")})
		org.Set("/twin-b.crl", origin.Behaviour{Kind: "hangup", Body: []byte("0123456789")})
		w, err := world.New(world.Cfg{Mode: "crl_only", Storage: backendName(disk), Sig: "verify", Fetch: "fetch_actively", CdpStrict: false, Interval: "1h"})
		if err != nil {
			fmt.Println("WORKER-ERROR", err)
			return
		}
		if err := w.Provision(); err != nil {
			fmt.Println("WORKER-ERROR", err)
			return
		}
		watchdog("twin: failing first load", 60*time.Second, func() { w.Handshake(chain) })
		// now the location serves a list that revokes the certificate; transfers wait for each other
		body := BuildCRL(CRLSpec{Signer: ca, Listed: []*big.Int{serial}, Number: 2}, Shape{Size: "s300", Pos: "last", Width: "w8", Ext: "none", Enc: "der"})
		var mu sync.Mutex
		arrived := 0
		gate := make(chan struct{})
		first := make(chan struct{})
		twin := origin.Behaviour{Kind: "func", Func: func([]byte) (int, []byte) {
			mu.Lock()
			arrived++
			if arrived == 1 {
				close(first)
			}
			if arrived == 2 {
				close(gate)
			}
			mu.Unlock()
			select {
			case <-gate:
			case <-time.After(3 * time.Second):
			}
			return 200, body
		}}
		org.Set("/twin.crl", twin)
		org.Set("/twin-b.crl", twin)
		var wg sync.WaitGroup
		var got world.Result
		wg.Add(2)
		go func() {
			defer wg.Done()
			watchdog("twin: pass loading the entry", 60*time.Second, func() { w.RefreshAll() })
		}()
		// the handshake starts once the pass is inside its transfer (the pass looks at the entry before it downloads)
		select {
		case <-first:
		case <-time.After(5 * time.Second):
		}
		go func() {
			defer wg.Done()
			watchdog("twin: handshake loading the entry", 60*time.Second, func() { got = w.Handshake(chain) })
		}()
		wg.Wait()
		if !hungOnce.Load() {
			if got.Verdict == "panic" {
				fmt.Println("CRASH twin first-load handshake panicked:", got.Panic)
			}
			var after world.Result
			watchdog("twin: handshake afterwards", 30*time.Second, func() { after = w.Handshake(chain) })
			if !hungOnce.Load() && after.Verdict != "revoked" {
				fmt.Printf("WRONG twin-loads: after both loads ended the listed certificate gets %s %s\n", after.Verdict, after.Err)
			}
		}
		if hungOnce.Load() {
			return
		}
		w.Destroy()
		org.Close()
	}
}

// c13CleanupDuringLoad: shutdown overlaps a first-use download (LockOrder.tla: Close holds the repository lock and asks for every
// entry lock; the load holds its entry lock for the whole download). The handshake is kept inside its transfer by the origin,
// Cleanup is called, a second handshake asks for the same entry, then the transfer ends: every call must return.
func c13CleanupDuringLoad(thorough bool) {
	rounds := 4
	if thorough {
		rounds = 12
	}
	for i := 0; i < rounds; i++ {
		disk := i%2 == 1
		org := origin.New()
		ca := pki.NewCA(pki.CAOpts{Name: "Shutdown CA", Serial: 731})
		serial := big.NewInt(7301)
		leaf := ca.Leaf(pki.LeafOpts{CN: "shutdown", Serial: serial, CDP: []string{org.URL + "/shutdown.crl"}})
		chain := pki.Chain(leaf.Cert, ca)
		body := BuildCRL(CRLSpec{Signer: ca, Listed: []*big.Int{serial}, Number: 1}, Shape{Size: "s300", Pos: "first", Width: "w8", Ext: "none", Enc: "pem"})
		inside := make(chan struct{}, 4)
		release := make(chan struct{})
		org.Set("/shutdown.crl", origin.Behaviour{Kind: "gated", Body: body, Gate: func() {
			inside <- struct{}{}
			select {
			case <-release:
			case <-time.After(20 * time.Second):
			}
		}})
		fetch := []string{"fetch_actively", "fetch_background"}[(i/2)%2]
		w, err := world.New(world.Cfg{Mode: "crl_only", Storage: backendName(disk), Sig: "verify", Fetch: fetch, CdpStrict: i%3 == 0, Interval: "1h"})
		if err != nil {
			fmt.Println("WORKER-ERROR", err)
			return
		}
		if err := w.Provision(); err != nil {
			fmt.Println("WORKER-ERROR", err)
			return
		}
		v := w.V
		var wg sync.WaitGroup
		// a CRL that the instance knows already (so that passes which start late have something to iterate over)
		known := ca.Leaf(pki.LeafOpts{CN: "known", Serial: big.NewInt(7302), CDP: []string{org.URL + "/known.crl"}})
		org.SetBody("/known.crl", BuildCRL(CRLSpec{Signer: ca, Listed: []*big.Int{big.NewInt(7302)}, Number: 1}, Shape{Size: "s5", Pos: "first", Width: "w8", Ext: "none", Enc: "der"}))
		for k := 0; k < 100; k++ {
			var r world.Result
			watchdog("shutdown: handshake of the known CRL", 60*time.Second, func() { r = w.Handshake(pki.Chain(known.Cert, ca)) })
			if r.Verdict == "revoked" || hungOnce.Load() {
				break
			}
			time.Sleep(10 * time.Millisecond)
		}
		wg.Add(1)
		go func() {
			defer wg.Done()
			watchdog("shutdown: handshake with a first-use download", 60*time.Second, func() { w.Handshake(chain) })
		}()
		select {
		case <-inside:
		case <-time.After(10 * time.Second):
		}
		wg.Add(2)
		go func() {
			defer wg.Done()
			watchdog("shutdown: Cleanup during a first-use download", 60*time.Second, func() { v.Cleanup() })
		}()
		go func() {
			defer wg.Done()
			time.Sleep(20 * time.Millisecond)
			watchdog("shutdown: second handshake during Cleanup", 60*time.Second, func() { w.Handshake(chain) })
		}()
		// ticks and forced passes that start while Cleanup is under way (the ticker is stopped only after the repository is closed;
		// a handshake in fetch_background mode spawns a forced pass)
		wg.Add(1)
		go func() {
			defer wg.Done()
			for k := 0; k < 6; k++ {
				time.Sleep(25 * time.Millisecond)
				watchdog("shutdown: pass starting during Cleanup", 60*time.Second, func() {
					if ch := v.VerifCRLChecker(); ch != nil {
						ch.VerifUpdateCRLs(k%2 == 0)
					}
				})
			}
		}()
		time.Sleep(150 * time.Millisecond)
		close(release)
		wg.Wait()
		if hungOnce.Load() {
			return
		}
		w.V = nil
		w.Destroy()
		org.Close()
	}
}

// c13SigRetry replays the schedule of EntryLocks.tla in which a refresh resets the 'last refresh failed signature
// verification' state between a handshake's read of the flag (under the read lock) and its retry under the write lock:
// the handshake is parked at the hook right after it released the read lock, a good refresh runs to completion, then the
// handshake continues. It must neither crash nor hang.
func c13SigRetry(thorough bool) {
	for _, disk := range []bool{false, true} {
		rw, err := newRepoWorld(disk, "verify", false, 99)
		if err != nil {
			fmt.Println("WORKER-ERROR", err)
			return
		}
		// loaded with a good list, then a refresh with a bad signature: flag set, pending signature kept
		rw.serve("good", []string{"x", "z"})
		rw.w.Handshake(rw.chains["driver"])
		rw.serve("badsig", []string{"y", "z"})
		rw.w.RefreshAll()
		parked := make(chan struct{})
		resume := make(chan struct{})
		var once sync.Once
		world.SetHandler(func(site string, kv ...any) {
			if site == "repo.add.unlocked" && len(kv) >= 3 {
				if flag, _ := kv[2].(bool); flag {
					first := false
					once.Do(func() { first = true })
					if first {
						close(parked)
						<-resume
					}
				}
			}
		})
		done := make(chan world.Result, 1)
		go func() { done <- rw.w.Handshake(rw.chains["driver"]) }()
		select {
		case <-parked:
			rw.serve("good", []string{"y", "z"})
			rw.w.RefreshAll() // resets the flag and the pending signature
			close(resume)
		case r := <-done:
			fmt.Println("NOTE sigretry: the handshake did not see the flag:", r.Verdict)
			done <- r
		case <-time.After(20 * time.Second):
			fmt.Println("HANG sigretry handshake never reached the retry point")
		}
		select {
		case r := <-done:
			if r.Verdict == "panic" {
				fmt.Println("CRASH handshake after a concurrent reset of the failed-signature state panicked:", r.Panic)
			}
		case <-time.After(30 * time.Second):
			fmt.Println("HANG sigretry handshake did not return")
		}
		world.SetHandler(nil)
		rw.close()
	}
}

// c13Background: fetch_background: the forced update spawned by the first handshake loads the CRL while other
// handshakes look at the same entry (the state 'loaded' flips underneath them).
func c13Background(rng *rand.Rand, thorough bool) {
	rounds := 6
	if thorough {
		rounds = 40
	}
	for i := 0; i < rounds; i++ {
		disk := i%2 == 0
		org := origin.New()
		ca := pki.NewCA(pki.CAOpts{Name: "Background CA", Serial: 701})
		org.SetBody("/bg.crl", BuildCRL(CRLSpec{Signer: ca, Listed: []*big.Int{big.NewInt(71)}, Number: 1}, Shape{Size: "big", Pos: "last", Width: "w1", Ext: "none", Enc: "der"}))
		w, err := world.New(world.Cfg{Mode: "crl_only", Storage: backendName(disk), Sig: "verify", Fetch: "fetch_background", CdpStrict: i%3 == 0, Interval: "1h"})
		if err != nil {
			fmt.Println("WORKER-ERROR", err)
			return
		}
		if err := w.Provision(); err != nil {
			fmt.Println("WORKER-ERROR", err)
			return
		}
		// readers keep looking at the entry until the forced background pass has finished (and a little longer)
		var forcedExits atomic.Int64
		world.SetHandler(func(site string, kv ...any) {
			if site == "crl.update.exit" && len(kv) >= 2 {
				if f, _ := kv[1].(bool); f {
					forcedExits.Add(1)
				}
			}
		})
		var wg sync.WaitGroup
		for g := 0; g < 4; g++ {
			leaf := ca.Leaf(pki.LeafOpts{CN: "bg", Serial: big.NewInt(int64(71 + g%2)), CDP: []string{org.URL + "/bg.crl"}})
			chain := pki.Chain(leaf.Cert, ca)
			wg.Add(1)
			go func() {
				defer wg.Done()
				after := 0
				for k := 0; k < 5000 && after < 10; k++ {
					watchdog("background handshake", 30*time.Second, func() { w.Handshake(chain) })
					time.Sleep(2 * time.Millisecond)
					if forcedExits.Load() > 0 {
						after++
					}
				}
			}()
		}
		wg.Wait()
		world.SetHandler(nil)
		time.Sleep(20 * time.Millisecond)
		watchdog("cleanup", 30*time.Second, func() { w.Cleanup() })
		watchdog("destroy", 30*time.Second, func() { w.Destroy() })
		org.Close()
	}
}

// c13ParallelLoads: first-use downloads of DISTINCT locations at the same time (plus a refresh pass): whatever the parsers,
// verifiers and stores share across CRLs is exercised under the race detector, and every verdict must be the one any sequential
// order gives (each certificate is judged by its own location's list).
func c13ParallelLoads(rng *rand.Rand, thorough bool) {
	rounds := 4
	if thorough {
		rounds = 24
	}
	const k = 4
	for i := 0; i < rounds; i++ {
		disk := i%2 == 0
		org := origin.New()
		alg := []string{"ecdsa", "rsa"}[(i/2)%2]
		ca := pki.NewCA(pki.CAOpts{Name: "Parallel CA", Serial: 711, Alg: alg, RSAIndex: 0})
		// the handshakes that overlap come from two CAs, and the configuration names a few trusted signer certificates of CAs that
		// sign none of these lists (0, 3, 1 or 5 of them): whatever the checker prepares once per configuration is shared by all
		ca2 := pki.NewCA(pki.CAOpts{Name: "Parallel CA two", Serial: 712})
		tdir, _ := os.MkdirTemp("", "verif.c13trusted.")
		var trusted []string
		for t := 0; t < []int{0, 3, 1, 5}[i%4]; t++ {
			f := filepath.Join(tdir, fmt.Sprintf("trusted-%d.pem", t))
			os.WriteFile(f, pki.PEMCert(pki.NewCA(pki.CAOpts{Name: fmt.Sprintf("Bystander CA %d", t), Serial: int64(730 + t)}).Cert), 0o644)
			trusted = append(trusted, f)
		}
		var chains [][][]*x509.Certificate
		var want []string
		// the downloads are released together
		var mu sync.Mutex
		arrived := 0
		gate := make(chan struct{})
		for j := 0; j < k; j++ {
			serial := big.NewInt(int64(7100 + j))
			path := fmt.Sprintf("/par/%d.crl", j)
			issuer := ca
			if j >= k/2 {
				issuer = ca2
			}
			leaf := issuer.Leaf(pki.LeafOpts{CN: fmt.Sprintf("par %d", j), Serial: serial, CDP: []string{org.URL + path}})
			chains = append(chains, pki.Chain(leaf.Cert, issuer))
			var listed []*big.Int
			var avoid []*big.Int
			if j%2 == 0 {
				listed = []*big.Int{serial}
				want = append(want, "revoked")
			} else {
				avoid = []*big.Int{serial}
				want = append(want, "accept")
			}
			body := BuildCRL(CRLSpec{Signer: issuer, Listed: listed, Avoid: avoid, Number: int64(j + 1)}, Shape{Size: "s300", Pos: "middle", Width: "w8", Ext: "reason", Enc: []string{"der", "pem"}[j%2]})
			org.Set(path, origin.Behaviour{Kind: "func", Func: func([]byte) (int, []byte) {
				mu.Lock()
				arrived++
				if arrived == k {
					close(gate)
				}
				mu.Unlock()
				select {
				case <-gate:
				case <-time.After(2 * time.Second):
				}
				return 200, body
			}})
		}
		w, err := world.New(world.Cfg{Mode: "crl_only", Storage: backendName(disk), Sig: "verify", Fetch: "fetch_actively", CdpStrict: true, Interval: "1h", Trusted: trusted})
		if err != nil {
			fmt.Println("WORKER-ERROR", err)
			return
		}
		if err := w.Provision(); err != nil {
			fmt.Println("WORKER-ERROR", err)
			return
		}
		defer os.RemoveAll(tdir)
		got := make([]world.Result, k)
		var wg sync.WaitGroup
		for j := 0; j < k; j++ {
			j := j
			wg.Add(1)
			go func() {
				defer wg.Done()
				watchdog("parallel first load", 30*time.Second, func() { got[j] = w.Handshake(chains[j]) })
			}()
		}
		wg.Add(1)
		go func() {
			defer wg.Done()
			time.Sleep(time.Millisecond)
			watchdog("refresh", 60*time.Second, func() { w.RefreshAll() })
		}()
		wg.Wait()
		for j := 0; j < k && !hungOnce.Load(); j++ {
			if got[j].Verdict == "panic" {
				fmt.Println("CRASH parallel first-load handshake panicked:", got[j].Panic)
			} else if got[j].Verdict != want[j] {
				fmt.Printf("WRONG parallel-first-loads handshake %d of %s/%s answered %q (%s), every sequential order gives %q\n", j, backendName(disk), alg, got[j].Verdict, got[j].Err, want[j])
			}
		}
		watchdog("cleanup", 30*time.Second, func() { w.Cleanup() })
		watchdog("destroy", 30*time.Second, func() { w.Destroy() })
		org.Close()
	}
}

// c13Ocsp: concurrent OCSP lookups on one checker while cache entries expire.
var wrongOcsp atomic.Int64

func c13Ocsp(rng *rand.Rand, thorough bool) {
	cfg := ocspCfg(false, 1, "absent", []string{"good"}, []string{"revoked"})
	w := newOcspWorld(cfg, rng.Int63())
	defer w.close()
	world.SetHandler(nil)
	ch := &ocspchk.OCSPRevocationChecker{}
	ch.Provision(&config.OCSPConfig{DefaultCacheDurationParsed: 15 * time.Millisecond}, zap.NewNop())
	n := 120
	if thorough {
		n = 600
	}
	var wg sync.WaitGroup
	for g := 0; g < 8; g++ {
		cert := []string{"cA", "cB"}[g%2]
		wg.Add(1)
		go func() {
			defer wg.Done()
			for k := 0; k < n; k++ {
				watchdog("ocsp lookup", 30*time.Second, func() {
					st, err := ch.IsRevoked(w.leaves[cert].Cert, w.chains[cert])
					// the responders never change: cA's says good, cB's says revoked (authentic answers); whatever the other lookups
					// do meanwhile, each verdict is the one the lookup yields alone
					revoked := err == nil && st != nil && st.Revoked
					if err != nil || revoked != (cert == "cB") {
						if wrongOcsp.Add(1) == 1 {
							fmt.Printf("WRONG ocsp-concurrent: lookup of %s (its responder: %s) under concurrent lookups of the other certificate gave revoked=%v err=%v\n", cert, map[string]string{"cA": "good", "cB": "revoked"}[cert], revoked, err)
						}
					}
				})
				if k%7 == 0 {
					time.Sleep(5 * time.Millisecond)
				}
			}
		}()
	}
	wg.Wait()
	ch.Cleanup()
}

// c13Stress: readers, a refresher alternating lists and injected failures, ticks and a final Cleanup, free running.
// Every lookup and every swap is logged for validation against TraceRepo.tla.
func c13Stress(disk bool, rng *rand.Rand, thorough bool, tracePath string) error {
	org := origin.New()
	defer org.Close()
	ca := pki.NewCA(pki.CAOpts{Name: "Stress CA", Serial: 801})
	evil := pki.NewCA(pki.CAOpts{Name: "Stress CA", Serial: 802, SKI: ca.Cert.SubjectKeyId})
	const commonSerial = 100
	marker := func(k int64) *big.Int { return big.NewInt(1000 + k) }
	var published atomic.Int64
	publish := func(k int64, ok bool) {
		if !ok {
			org.SetBody("/s.crl", []byte("bad gateway"))
			return
		}
		org.SetBody("/s.crl", BuildCRL(CRLSpec{Signer: ca, Listed: []*big.Int{big.NewInt(commonSerial), marker(k)}, Number: k}, Shape{Size: "s300", Pos: "last", Width: "w1", Ext: "none", Enc: "der"}))
		published.Store(k)
	}
	var ver atomic.Int64
	var mu sync.Mutex
	var events []lookupEv
	logEv := func(e lookupEv) {
		mu.Lock()
		events = append(events, e)
		mu.Unlock()
	}
	world.SetHandler(func(site string, kv ...any) {
		// fires under the entry write lock: the linearization point of a swap
		if site == "repo.swap.unlocking" || site == "repo.load.accepted" {
			k := published.Load()
			if k > ver.Load() {
				mu.Lock()
				ver.Store(k)
				events = append(events, lookupEv{Ev: "swap", Ver: k})
				mu.Unlock()
			}
		}
	})
	defer world.SetHandler(nil)
	w, err := world.New(world.Cfg{Mode: "crl_only", Storage: backendName(disk), Sig: "verify", Fetch: "fetch_actively", Interval: "1h"})
	if err != nil {
		return err
	}
	defer watchdog("destroy", 30*time.Second, func() { w.Destroy() })
	if err := w.Provision(); err != nil {
		return err
	}
	publish(1, true)
	driver := ca.Leaf(pki.LeafOpts{CN: "stress driver", Serial: big.NewInt(5), CDP: []string{org.URL + "/s.crl"}})
	w.Handshake(pki.Chain(driver.Cert, ca))
	if ver.Load() != 1 {
		return fmt.Errorf("stress: first load did not come into force")
	}
	common := ca.Leaf(pki.LeafOpts{CN: "common", Serial: big.NewInt(commonSerial)})
	maxK := int64(12)
	if thorough {
		maxK = 60
	}
	markers := map[int64][][]*x509.Certificate{}
	for k := int64(1); k <= maxK+1; k++ {
		l := ca.Leaf(pki.LeafOpts{CN: "marker", Serial: marker(k)})
		markers[k] = pki.Chain(l.Cert, ca)
	}
	stop := make(chan struct{})
	var wg sync.WaitGroup
	for r := 0; r < 4; r++ {
		name := fmt.Sprintf("r%d", r)
		rr := rand.New(rand.NewSource(rng.Int63()))
		wg.Add(1)
		go func() {
			defer wg.Done()
			for {
				select {
				case <-stop:
					return
				default:
				}
				ev := lookupEv{Ev: "lookup", R: name}
				var chain [][]*x509.Certificate
				if rr.Intn(3) == 0 {
					ev.Probe, chain = "common", pki.Chain(common.Cert, ca)
				} else {
					cur := ver.Load()
					ev.J = cur + int64(rr.Intn(3)) - 1
					if ev.J < 1 {
						ev.J = 1
					}
					ev.Probe, chain = "marker", markers[ev.J]
				}
				if rr.Intn(4) == 0 {
					chain = append(chain[:0:0], chain...)
				}
				ev.S = ver.Load()
				var res world.Result
				watchdog("stress handshake", 30*time.Second, func() { res = w.Handshake(chain) })
				ev.E = ver.Load()
				ev.Ans = res.Verdict
				if res.Verdict == "panic" {
					fmt.Println("CRASH stress handshake panicked:", res.Panic)
				}
				logEv(ev)
			}
		}()
	}
	// a handshake naming the CDP keeps hitting AddCRL (shared location) while refreshes run
	wg.Add(1)
	go func() {
		defer wg.Done()
		for {
			select {
			case <-stop:
				return
			default:
			}
			watchdog("cdp handshake", 30*time.Second, func() {
				if r := w.Handshake(pki.Chain(driver.Cert, ca)); r.Verdict == "panic" {
					fmt.Println("CRASH cdp handshake panicked:", r.Panic)
				}
			})
			time.Sleep(time.Millisecond)
		}
	}()
	for k := int64(2); k <= maxK; k++ {
		if k%4 == 0 {
			publish(k, false) // a failing refresh in between: the previous list stays
			watchdog("refresh", 60*time.Second, func() { w.RefreshAll() })
		}
		if k%5 == 0 {
			// a refresh that fails signature verification: sets the 'last refresh failed verification' state
			org.SetBody("/s.crl", BuildCRL(CRLSpec{Signer: evil, Listed: []*big.Int{big.NewInt(commonSerial)}, Number: k}, Shape{Size: "s5", Pos: "last", Width: "w1", Ext: "none", Enc: "der"}))
			watchdog("refresh", 60*time.Second, func() { w.RefreshAll() })
		}
		publish(k, true)
		if k%3 == 0 {
			watchdog("tick", 60*time.Second, func() { w.Tick() })
			watchdog("refresh", 60*time.Second, func() { w.RefreshAll() })
		} else {
			watchdog("refresh", 60*time.Second, func() { w.RefreshAll() })
		}
		time.Sleep(2 * time.Millisecond)
	}
	close(stop)
	wg.Wait()
	// shutdown while the last lookups drain
	watchdog("cleanup", 30*time.Second, func() { w.Cleanup() })
	mu.Lock()
	defer mu.Unlock()
	var buf bytes.Buffer
	enc := json.NewEncoder(&buf)
	for _, e := range events {
		enc.Encode(e)
	}
	return os.WriteFile(tracePath, buf.Bytes(), 0o644)
}

// ---------------------------------------------------------------------------------------------
// parent side
// ---------------------------------------------------------------------------------------------

var reRaceFn = regexp.MustCompile(`caddy-revocation-validator/([\w/]+)\.(\(\*?\w+\)\.)?(\w+)`)

// raceSignatures extracts one signature per DATA RACE block: the repository functions of the two conflicting accesses.
func raceSignatures(out string) map[string]string {
	sigs := map[string]string{}
	blocks := strings.Split(out, "WARNING: DATA RACE")
	for _, b := range blocks[1:] {
		if i := strings.Index(b, "=================="); i > 0 {
			b = b[:i]
		}
		var fns []string
		sections := regexp.MustCompile(`(?m)^(Write at|Read at|Previous write at|Previous read at)`).Split(b, -1)
		for _, sec := range sections[1:] {
			if end := strings.Index(sec, "\n\n"); end > 0 {
				sec = sec[:end]
			}
			if m := reRaceFn.FindStringSubmatch(sec); m != nil {
				fns = append(fns, m[1]+"."+m[3])
			} else {
				fns = append(fns, "?")
			}
		}
		sig := "race:" + strings.Join(fns, "<->")
		if _, ok := sigs[sig]; !ok {
			sigs[sig] = "WARNING: DATA RACE" + firstLines(b, 40)
		}
	}
	return sigs
}

func init() {
	c13Concurrent = func(c *vk.Ctx) {
		raceBin := filepath.Join(vk.Root(), ".build", "check-race")
		if _, err := os.Stat(raceBin); err != nil {
			c.Infra("race build of the harness is missing (%s): %v", raceBin, err)
		}
		dir, _ := os.MkdirTemp("", "verif.c13.")
		defer os.RemoveAll(dir)
		trace := filepath.Join(dir, "trace")
		limit := 10 * time.Minute
		if c.Thorough() {
			limit = 40 * time.Minute
		}
		// runWorker starts the race-built child (optionally with address space randomisation off: the race runtime refuses to
		// start under some kernels' mmap layouts) and returns its combined output; timedOut = the time limit was reached.
		runWorker := func(noASLR bool) (text string, err error, timedOut bool) {
			args := []string{raceBin, "worker", "c13race", strconv.FormatInt(c.Seed, 10), c.Tier, trace}
			if noASLR {
				args = append([]string{"setarch", runtimeArch(), "-R"}, args...)
			}
			cmd := exec.Command(args[0], args[1:]...)
			cmd.Env = append(os.Environ(), "GORACE=halt_on_error=0 exitcode=0")
			var out bytes.Buffer
			cmd.Stdout = &out
			cmd.Stderr = &out
			done := make(chan error, 1)
			if err := cmd.Start(); err != nil {
				return "", err, false
			}
			go func() { done <- cmd.Wait() }()
			select {
			case err := <-done:
				return out.String(), err, false
			case <-time.After(limit):
				cmd.Process.Kill()
				<-done
				return out.String(), nil, true
			}
		}
		text, err, timedOut := runWorker(false)
		if !timedOut && !strings.Contains(text, "PHASE ") {
			// the child never reached its first phase: not a statement about the repository; one more attempt without ASLR
			first := tailStr(text, 15)
			text, err, timedOut = runWorker(true)
			if !timedOut && !strings.Contains(text, "PHASE ") {
				c.Infra("the race-built worker does not start (plain: %s) (setarch -R: %v %s)", first, err, tailStr(text, 15))
			}
			c.Set("race_worker_started_without_aslr", true)
		}
		if timedOut {
			c.Violation("no-termination:race-worker", "the concurrent scenarios did not finish within the time limit (deadlock)", map[string]any{"output_tail": tailStr(text, 60)})
			return
		}
		if !strings.Contains(text, "PHASE done") && !strings.Contains(text, "HANG ") && !strings.Contains(text, "panic:") && !strings.Contains(text, "fatal error:") && !strings.Contains(text, "CRASH ") {
			// ended early without saying why (killed, out of memory, start-up failure): nothing was decided
			c.Infra("race worker ended before its last phase: %v\n%s", err, tailStr(text, 40))
		}
		for sig, block := range raceSignatures(text) {
			c.Violation(sig, "the race detector reported a data race while the explored schedules were executing", map[string]any{"report": block})
		}
		for _, line := range strings.Split(text, "\n") {
			if strings.HasPrefix(line, "HANG ") {
				c.Violation("deadlock:"+strings.Fields(line)[1], line, map[string]any{"output_tail": tailStr(text, 60)})
			}
			if strings.HasPrefix(line, "WRONG ") {
				c.Violation("verdict-not-sequential:"+strings.Fields(line)[1], line, map[string]any{"output_tail": tailStr(text, 40)})
			}
			if strings.HasPrefix(line, "CRASH ") {
				c.Violation("crash:"+strings.Join(strings.Fields(line)[1:4], "-"), line, map[string]any{"output_tail": tailStr(text, 40)})
			}
			if strings.HasPrefix(line, "panic:") || strings.HasPrefix(line, "fatal error:") {
				c.Violation("crash:"+line, "the process crashed during the concurrent scenarios", map[string]any{"output_tail": tailStr(text, 80)})
			}
		}
		// linearizability of the verdicts of the free-running stress: trace validation by TLC
		traces := 0
		for _, b := range []string{"memory", "disk"} {
			tr, err := os.ReadFile(trace + "." + b)
			if err != nil {
				c.Drift("stress-trace-missing:" + b)
				continue
			}
			res := tlcrun.Run(tlcrun.Options{SpecDir: vk.SpecDir(), Module: "TraceRepo", Config: "TraceRepo.cfg", Workers: 1,
				Files: map[string][]byte{"trace.ndjson": tr}, Env: map[string]string{"TRACE": "trace.ndjson"}})
			traces++
			c.Add("states", res.Distinct)
			c.Add("transitions", res.Generated)
			c.Add("stress_events", int64(bytes.Count(tr, []byte("\n"))))
			c.Eval("stress-trace|" + b)
			if res.Violation != "" || !res.OK {
				c.Violation("stress-verdict-not-explainable:"+b, "a lookup of the free-running stress run returned an answer that no complete list version in its call window explains (TraceRepo.tla rejects the trace)",
					map[string]any{"backend": b, "tlc": firstLines(res.Violation+res.Tail, 25)})
			}
		}
		c.Add("traces_validated_against_impl", int64(traces))
		c.Sample(map[string]any{"race_worker_phases": strings.Count(text, "PHASE "), "stress_traces": traces})
	}
}

func runtimeArch() string {
	if runtime.GOARCH == "arm64" {
		return "aarch64"
	}
	return "x86_64"
}

func tailStr(s string, n int) string {
	lines := strings.Split(s, "\n")
	if len(lines) > n {
		lines = lines[len(lines)-n:]
	}
	return strings.Join(lines, "\n")
}
