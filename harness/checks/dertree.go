package checks

import (
	"verif/harness/derbuild"
)

// derNode is one TLV of a DER document at any nesting depth (also inside OCTET STRING / BIT STRING wrappers whose
// content is itself DER, e.g. extension values).
type derNode struct {
	Off, Hdr, Len int
	Tag           byte
	Path          []int // indices of the ancestors in the node list
}

// derTree lists every TLV of der (depth first).
func derTree(der []byte) []derNode {
	var nodes []derNode
	var walk func(lo, hi int, path []int, depth int)
	walk = func(lo, hi int, path []int, depth int) {
		for p := lo; p < hi && depth < 12; {
			hdr, l := derHeader(der, p)
			if hdr == 0 || p+hdr+l > hi || l < 0 {
				return
			}
			idx := len(nodes)
			nodes = append(nodes, derNode{Off: p, Hdr: hdr, Len: l, Tag: der[p], Path: append([]int(nil), path...)})
			tag := der[p]
			inner := append(append([]int(nil), path...), idx)
			switch {
			case tag&0x20 != 0: // constructed
				walk(p+hdr, p+hdr+l, inner, depth+1)
			case tag == 0x04 && l >= 2 && wellFormedDER(der[p+hdr:p+hdr+l]): // OCTET STRING wrapping DER (extension values)
				walk(p+hdr, p+hdr+l, inner, depth+1)
			}
			p += hdr + l
		}
	}
	walk(0, len(der), nil, 0)
	return nodes
}

func wellFormedDER(b []byte) bool {
	p := 0
	for p < len(b) {
		hdr, l := derHeader(b, p)
		if hdr == 0 || p+hdr+l > len(b) {
			return false
		}
		p += hdr + l
	}
	return p == len(b) && len(b) > 0
}

// replaceNode returns der with node i replaced by repl (a complete TLV or raw bytes); the lengths of all ancestors are
// re-encoded so that the document stays well formed around the mutation.
func replaceNode(der []byte, nodes []derNode, i int, repl []byte) []byte {
	n := nodes[i]
	out := append(append(append([]byte{}, der[:n.Off]...), repl...), der[n.Off+n.Hdr+n.Len:]...)
	delta := len(repl) - (n.Hdr + n.Len)
	// fix ancestors from the innermost outwards; each fix may change the header size of that ancestor
	for k := len(n.Path) - 1; k >= 0; k-- {
		a := nodes[n.Path[k]]
		newLen := a.Len + delta
		if newLen < 0 {
			return out
		}
		newHdr := append([]byte{a.Tag}, derbuild.Len(newLen)...)
		out = append(append(append([]byte{}, out[:a.Off]...), newHdr...), out[a.Off+a.Hdr:]...)
		delta += len(newHdr) - a.Hdr
	}
	return out
}

// deepMutations: structure-aware mutations of every TLV at every depth: content emptied, content cut to one byte,
// hostile length forms, tag swapped - each with consistent enclosing lengths.
func deepMutations(der []byte) [][]byte {
	nodes := derTree(der)
	var out [][]byte
	for i, n := range nodes {
		content := der[n.Off+n.Hdr : n.Off+n.Hdr+n.Len]
		out = append(out, replaceNode(der, nodes, i, []byte{n.Tag, 0x00})) // empty content (e.g. INTEGER of length 0)
		if n.Len > 1 {
			out = append(out, replaceNode(der, nodes, i, derbuild.TLV(n.Tag, content[:1]))) // cut to one byte
		}
		out = append(out, replaceNode(der, nodes, i, append([]byte{n.Tag, 0x84, 0x7f, 0xff, 0xff, 0xff}, content...))) // length beyond the data
		out = append(out, replaceNode(der, nodes, i, append([]byte{n.Tag, 0x80}, content...)))                         // indefinite form
		out = append(out, replaceNode(der, nodes, i, derbuild.TLV(n.Tag^0x01, content)))                               // neighbouring tag
		if n.Tag == 0x02 && n.Len > 0 {
			neg := append([]byte{}, content...)
			neg[0] |= 0x80
			out = append(out, replaceNode(der, nodes, i, derbuild.TLV(n.Tag, neg))) // negative INTEGER
		}
	}
	return out
}
