package checks

import (
	"bytes"
	"crypto"
	"crypto/x509/pkix"
	"encoding/asn1"
	"encoding/json"
	"fmt"
	"math/big"
	"math/rand"
	"os"
	"path/filepath"
	"sync"
	"time"

	"github.com/gr33nbl00d/caddy-revocation-validator/core"
	"github.com/gr33nbl00d/caddy-revocation-validator/crl/crlreader"

	"verif/harness/derbuild"
	"verif/harness/pki"
	"verif/harness/tlcrun"
	"verif/harness/vk"
)

// ---- abstract documents exported by CrlReader.tla -------------------------------------------------

type rdEntry struct {
	Ext bool `json:"ext"`
	Gen bool `json:"gen"`
}

type rdDoc struct {
	Ver  string `json:"ver"`
	Next bool   `json:"next"`
	List struct {
		Present bool      `json:"present"`
		Es      []rdEntry `json:"es"`
	} `json:"list"`
	Exts string `json:"exts"`
}

type rdCase struct {
	Doc     rdDoc   `json:"doc"`
	Fault   string  `json:"fault"`
	FaultAt string  `json:"faultAt"`
	St      string  `json:"st"`
	Result  []any   `json:"result"`
	Events  [][]any `json:"events"`
}

func exportReaderDocs(c *vk.Ctx, maxEntries int, faulty bool) ([]rdCase, tlcrun.Result) {
	cfg := fmt.Sprintf("SPECIFICATION Spec\nCONSTANTS\n MaxEntries = %d\n BoundByTbs = TRUE\n Faulty = %s\n Export = TRUE\nINVARIANTS Agree RejectsOutOfProfile DigestExact NoPanic Total AllocBounded OneResident\nPROPERTIES QuietAfterReject\nCHECK_DEADLOCK FALSE\n",
		maxEntries, tlaBool(faulty))
	var cases []rdCase
	var perr error
	res := tlcrun.Run(tlcrun.Options{SpecDir: vk.SpecDir(), Module: "CrlReader", Config: cfg, Workers: 4,
		OnTagged: func(tag string, p json.RawMessage) {
			if tag != "DOC" {
				return
			}
			var rc rdCase
			if err := json.Unmarshal(p, &rc); err != nil {
				perr = err
				return
			}
			cases = append(cases, rc)
		}})
	if res.InfraErr != nil {
		c.Infra("tlc CrlReader: %v", res.InfraErr)
	}
	if !res.OK {
		c.Infra("CrlReader.tla violates its properties (specification problem):\n%s", res.Violation)
	}
	if perr != nil {
		c.Infra("DOC payload: %v", perr)
	}
	return cases, res
}

// ---- concretisation --------------------------------------------------------------------------------

// rdShape: the concrete classes of one materialisation.
type rdShape struct {
	Alg     string `json:"alg"`
	Enc     string `json:"enc"`     // der | pem | pemcrlf
	Rep     int    `json:"rep"`     // every abstract entry stands for a block of Rep concrete entries
	Width   string `json:"width"`   // serial width class
	BigExt  bool   `json:"big_ext"` // entry extension content > 127 / > 255 bytes (2- and 3-byte lengths)
	Align   string `json:"align"`   // none | entry | exts | sig | next
	AlignAt int    `json:"align_at"`
	// the ORDER of the extensions inside crlExtensions (RFC 5280 fixes none) and which unimplemented critical extension a "crit"
	// document carries: 0 = authorityKeyIdentifier, private, cRLNumber, critical; 1 = critical first; 2 = reversed; 3 = cRLNumber first
	ExtOrder int `json:"ext_order,omitempty"`
	CritKind int `json:"crit_kind,omitempty"` // 0 deltaCRLIndicator, 1 issuingDistributionPoint, 2 private OID
	// Huge: one element that the reader decodes as a whole is larger than any buffer it works with (64 KiB < size < 80 KiB): "" |
	// "entry" (an entry extension of the first entry that has extensions) | "crlext" (a non-critical private CRL extension)
	Huge string `json:"huge,omitempty"`
}

var readerKeys = map[string]crypto.Signer{}

func readerKey(kind string) crypto.Signer {
	if k, ok := readerKeys[kind]; ok {
		return k
	}
	var k crypto.Signer
	switch kind {
	case "rsa":
		k = pki.RSAKey(2)
	case "ecdsa":
		k = pki.ECKey()
	}
	readerKeys[kind] = k
	return k
}

var supportedAlgs = []string{"sha256WithRSA", "ecdsaWithSHA256", "sha1WithRSA", "sha224WithRSA", "sha384WithRSA", "sha512WithRSA", "ecdsaWithSHA1", "ecdsaWithSHA224", "ecdsaWithSHA384", "ecdsaWithSHA512"}

var akiOID = asn1.ObjectIdentifier{2, 5, 29, 35}
var crlNumberOID = asn1.ObjectIdentifier{2, 5, 29, 20}

func widthSerial(width string, n int) *big.Int {
	base := Shape{Width: width}.Serial(1)
	return new(big.Int).Add(base, big.NewInt(int64(n)*3))
}

// materialise renders an abstract document.
func materialise(d rdDoc, sh rdShape, pad int) (*derbuild.Doc, error) {
	alg := derbuild.Algs[sh.Alg]
	doc := &derbuild.Doc{Alg: alg, IssuerRaw: derbuild.RDN("Reader CA ÄÖ", pad), ThisUpdate: time.Date(2024, 5, 1, 10, 0, 0, 0, time.UTC)}
	switch d.Ver {
	case "v2":
		doc.Version = 2
	case "v3":
		doc.Version = 3
	}
	if d.Next {
		nu := time.Date(2049, 12, 31, 23, 59, 59, 0, time.UTC)
		doc.NextUpdate = &nu
	}
	doc.ListPresent = d.List.Present
	n := 0
	hugeDone := false
	for _, e := range d.List.Es {
		for r := 0; r < sh.Rep; r++ {
			ent := derbuild.Entry{Serial: widthSerial(sh.Width, n), Date: time.Date(2023, 1, 1+n%28, 12, 0, n%60, 0, time.UTC), GenTime: e.Gen}
			if e.Gen {
				ent.Date = time.Date(2051, 6, 1+n%28, 12, 0, n%60, 0, time.UTC)
			}
			if e.Ext {
				reason, _ := asn1.Marshal(asn1.Enumerated(1 + n%5))
				ent.Exts = []pkix.Extension{{Id: asn1.ObjectIdentifier{2, 5, 29, 21}, Value: reason}}
				if sh.BigExt && r == 0 {
					ent.Exts = append(ent.Exts, pkix.Extension{Id: asn1.ObjectIdentifier{1, 3, 6, 1, 4, 1, 99999, 3}, Value: derbuild.OctetString(bytes.Repeat([]byte{0x5a}, 130+170*(n%2)))})
				}
				if sh.Huge == "entry" && !hugeDone {
					hugeDone = true
					pat := make([]byte, 70000)
					for i := range pat {
						pat[i] = byte(i*31 + i>>8) // no period that a stale buffer could imitate
					}
					ent.Exts = append(ent.Exts, pkix.Extension{Id: asn1.ObjectIdentifier{1, 3, 6, 1, 4, 1, 99999, 6}, Value: derbuild.OctetString(pat)})
				}
			}
			doc.Entries = append(doc.Entries, ent)
			n++
		}
	}
	if d.Exts != "absent" {
		doc.ExtsPresent = true
		aki, _ := asn1.Marshal(struct {
			KeyID []byte `asn1:"tag:0,optional"`
		}{KeyID: []byte{1, 2, 3, 4, 5, 6, 7, 8}})
		doc.Exts = []pkix.Extension{{Id: akiOID, Value: aki}, {Id: asn1.ObjectIdentifier{1, 3, 6, 1, 4, 1, 99999, 4}, Value: []byte{0x05, 0x00}}}
		if d.Exts == "number" || d.Exts == "crit" {
			num, _ := asn1.Marshal(big.NewInt(70000 + int64(n)))
			doc.Exts = append(doc.Exts, pkix.Extension{Id: crlNumberOID, Value: num})
		}
		if sh.Huge == "crlext" {
			pat := make([]byte, 66000+len(d.List.Es)*997)
			for i := range pat {
				pat[i] = byte(i*17 + i>>9)
			}
			doc.Exts = append(doc.Exts, pkix.Extension{Id: asn1.ObjectIdentifier{1, 3, 6, 1, 4, 1, 99999, 7}, Value: derbuild.OctetString(pat)})
		}
		if d.Exts == "crit" {
			crit := pkix.Extension{Id: asn1.ObjectIdentifier{2, 5, 29, 27}, Critical: true, Value: derbuild.SmallInt(3)} // deltaCRLIndicator
			switch sh.CritKind % 3 {
			case 1: // issuingDistributionPoint { onlyContainsUserCerts TRUE }
				crit = pkix.Extension{Id: asn1.ObjectIdentifier{2, 5, 29, 28}, Critical: true, Value: []byte{0x30, 0x03, 0x81, 0x01, 0xff}}
			case 2:
				crit = pkix.Extension{Id: asn1.ObjectIdentifier{1, 3, 6, 1, 4, 1, 99999, 5}, Critical: true, Value: []byte{0x05, 0x00}}
			}
			doc.Exts = append(doc.Exts, crit)
		}
		switch sh.ExtOrder % 4 {
		case 1: // the last one (the critical one, if any) first
			doc.Exts = append([]pkix.Extension{doc.Exts[len(doc.Exts)-1]}, doc.Exts[:len(doc.Exts)-1]...)
		case 2:
			for i, j := 0, len(doc.Exts)-1; i < j; i, j = i+1, j-1 {
				doc.Exts[i], doc.Exts[j] = doc.Exts[j], doc.Exts[i]
			}
		case 3: // cRLNumber (if any) first
			for i, e := range doc.Exts {
				if e.Id.Equal(crlNumberOID) {
					doc.Exts = append([]pkix.Extension{e}, append(append([]pkix.Extension{}, doc.Exts[:i]...), doc.Exts[i+1:]...)...)
					break
				}
			}
		}
	}
	return doc, nil
}

// build renders doc and, if an alignment is requested, pads the issuer so that the chosen element starts at AlignAt.
func buildAligned(d rdDoc, sh rdShape) (*derbuild.Built, error) {
	key := readerKey(derbuild.Algs[sh.Alg].Key)
	offOf := func(b *derbuild.Built) int {
		switch sh.Align {
		case "entry":
			if len(b.Entries) > 0 {
				return b.Entries[len(b.Entries)/2]
			}
		case "exts":
			if b.ExtsOff > 0 {
				return b.ExtsOff
			}
		case "sig":
			return b.SigOff
		case "alg":
			return b.AlgOff
		}
		return -1
	}
	doc, _ := materialise(d, sh, 0)
	b, err := doc.Build(key)
	if err != nil {
		return nil, err
	}
	if sh.Align == "none" || sh.Align == "" {
		return b, nil
	}
	cur := offOf(b)
	if cur < 0 || cur > sh.AlignAt {
		return b, nil
	}
	pad := sh.AlignAt - cur
	for tries := 0; tries < 6 && pad > 0; tries++ {
		doc, _ = materialise(d, sh, pad)
		b, err = doc.Build(key)
		if err != nil {
			return nil, err
		}
		diff := sh.AlignAt - offOf(b)
		if diff == 0 {
			return b, nil
		}
		pad += diff
	}
	return b, nil
}

// ---- recording consumer ------------------------------------------------------------------------------

type recEvent struct {
	Kind string
	Meta *crlreader.CRLMetaInfo
	Ent  *pkix.RevokedCertificate
	Iss  string
	Num  *big.Int
}

type recProcessor struct {
	events []recEvent
	// onFirstInsert (optional) runs inside the first InsertRevokedCertificate callback: whatever else the process does while this
	// read is under way
	onFirstInsert func()
}

func (p *recProcessor) StartUpdateCrl(m *crlreader.CRLMetaInfo) error {
	cp := *m
	p.events = append(p.events, recEvent{Kind: "start", Meta: &cp})
	return nil
}
func (p *recProcessor) InsertRevokedCertificate(e *crlreader.CRLEntry) error {
	if f := p.onFirstInsert; f != nil {
		p.onFirstInsert = nil
		f()
	}
	cp := *e.RevokedCertificate
	p.events = append(p.events, recEvent{Kind: "insert", Ent: &cp, Iss: e.Issuer.String()})
	return nil
}
func (p *recProcessor) UpdateExtendedMetaInfo(i *crlreader.ExtendedCRLMetaInfo) error {
	p.events = append(p.events, recEvent{Kind: "extmeta", Num: i.CRLNumber})
	return nil
}
func (p *recProcessor) UpdateSignatureCertificate(*core.CertificateChainEntry) error { return nil }

type readOutcome struct {
	Err    string
	Panic  string
	Result *crlreader.CRLReadResult
	Events []recEvent
}

func readWithRealReader(path string) (out readOutcome) { return readWithRealReaderDuring(path, nil) }

// readWithRealReaderDuring: during runs in the middle of the read (inside the consumer's first entry callback).
func readWithRealReaderDuring(path string, during func()) (out readOutcome) {
	p := &recProcessor{onFirstInsert: during}
	defer func() {
		if r := recover(); r != nil {
			out.Panic = fmt.Sprint(r)
			out.Events = p.events
		}
	}()
	res, err := crlreader.StreamingCRLFileReader{}.ReadCRL(p, path)
	out.Events = p.events
	out.Result = res
	if err != nil {
		out.Err = err.Error()
	}
	return
}

// abstractEvents collapses the concrete callbacks into the model's alphabet.
func abstractEvents(ev []recEvent, rep int) [][]any {
	var out [][]any
	i := 0
	idx := 0
	for i < len(ev) {
		e := ev[i]
		switch e.Kind {
		case "start":
			out = append(out, []any{"start", !e.Meta.NextUpdate.IsZero()})
			i++
		case "extmeta":
			out = append(out, []any{"extmeta", e.Num != nil})
			i++
		case "insert":
			// one abstract entry = a block of rep concrete entries with equal flags
			idx++
			hasExt := len(e.Ent.Extensions) > 0
			gen := e.Ent.RevocationTime.Year() >= 2050
			out = append(out, []any{"insert", float64(idx), hasExt, gen})
			i += rep
		}
	}
	return out
}

func normEvents(ev [][]any) string {
	b, _ := json.Marshal(ev)
	return string(b)
}

// referenceCheck compares the concrete callbacks and the digest with a whole-document decoder.
func referenceCheck(der []byte, alg derbuild.Alg, out readOutcome) string {
	var ref pkix.CertificateList
	if _, err := asn1.Unmarshal(der, &ref); err != nil {
		return "" // the reference cannot decode it (out of profile for encoding/asn1): nothing to compare
	}
	var ins []recEvent
	var start *recEvent
	var extm *recEvent
	for i := range out.Events {
		switch out.Events[i].Kind {
		case "insert":
			ins = append(ins, out.Events[i])
		case "start":
			start = &out.Events[i]
		case "extmeta":
			extm = &out.Events[i]
		}
	}
	if start == nil {
		return "no StartUpdateCrl callback"
	}
	var refIssuer pkix.RDNSequence = ref.TBSCertList.Issuer
	if start.Meta.Issuer.String() != refIssuer.String() {
		return fmt.Sprintf("issuer %q != reference %q", start.Meta.Issuer.String(), refIssuer.String())
	}
	if !start.Meta.ThisUpdate.Equal(ref.TBSCertList.ThisUpdate) {
		return fmt.Sprintf("thisUpdate %v != reference %v", start.Meta.ThisUpdate, ref.TBSCertList.ThisUpdate)
	}
	if !(start.Meta.NextUpdate.Equal(ref.TBSCertList.NextUpdate) || (start.Meta.NextUpdate.IsZero() && ref.TBSCertList.NextUpdate.IsZero())) {
		return fmt.Sprintf("nextUpdate %v != reference %v", start.Meta.NextUpdate, ref.TBSCertList.NextUpdate)
	}
	if len(ins) != len(ref.TBSCertList.RevokedCertificates) {
		return fmt.Sprintf("%d entries delivered, reference has %d", len(ins), len(ref.TBSCertList.RevokedCertificates))
	}
	for i, r := range ref.TBSCertList.RevokedCertificates {
		g := ins[i].Ent
		if g.SerialNumber.Cmp(r.SerialNumber) != 0 || !g.RevocationTime.Equal(r.RevocationTime) || !extEqual(g.Extensions, r.Extensions) {
			return fmt.Sprintf("entry %d differs: %v@%v vs reference %v@%v", i, g.SerialNumber, g.RevocationTime, r.SerialNumber, r.RevocationTime)
		}
		if ins[i].Iss != refIssuer.String() {
			return fmt.Sprintf("entry %d issuer %q", i, ins[i].Iss)
		}
	}
	var refNum *big.Int
	for _, e := range ref.TBSCertList.Extensions {
		if e.Id.Equal(crlNumberOID) {
			refNum = new(big.Int)
			asn1.Unmarshal(e.Value, &refNum)
		}
	}
	if extm == nil {
		return "no UpdateExtendedMetaInfo callback"
	}
	if (refNum == nil) != (extm.Num == nil) || (refNum != nil && refNum.Cmp(extm.Num) != 0) {
		return fmt.Sprintf("CRL number %v != reference %v", extm.Num, refNum)
	}
	if out.Result != nil && alg.Hash != 0 {
		h := alg.Hash.New()
		h.Write(ref.TBSCertList.Raw)
		if !bytes.Equal(h.Sum(nil), out.Result.CalculatedSignature) {
			return "digest differs from the digest of the DER tbsCertList"
		}
		if !bytes.Equal(out.Result.Signature.Bytes, ref.SignatureValue.Bytes) {
			return "signature bits differ"
		}
	}
	return ""
}

func writeCRL(dir string, body []byte) string {
	p := filepath.Join(dir, "in.crl")
	os.WriteFile(p, body, 0o644)
	return p
}

func encode(der []byte, enc string) []byte {
	switch enc {
	case "pem":
		return derbuild.PEM(der, false)
	case "pemcrlf":
		return derbuild.PEM(der, true)
	}
	return der
}

func docClass(d rdDoc) string {
	return fmt.Sprintf("ver=%s:next=%v:list=%v/%d:exts=%s", d.Ver, d.Next, d.List.Present, len(d.List.Es), d.Exts)
}

// runReaderCase materialises one abstract document in one shape and compares the real reader with the
// specification (abstract events, accept/reject) and with the reference decoder (concrete values, digest).
func runReaderCase(c *vk.Ctx, rc rdCase, sh rdShape, dir string) {
	b, err := buildAligned(rc.Doc, sh)
	if err != nil {
		c.Infra("build: %v", err)
	}
	path := writeCRL(dir, encode(b.DER, sh.Enc))
	out := readWithRealReader(path)
	c.Eval(docClass(rc.Doc) + fmt.Sprintf("|%+v", sh))
	rep := map[string]any{"doc": rc.Doc, "shape": sh, "model": map[string]any{"st": rc.St, "events": rc.Events}, "real": map[string]any{"err": out.Err, "panic": out.Panic, "events": normEvents(abstractEvents(out.Events, sh.Rep))}, "der_len": len(b.DER)}
	if out.Panic != "" {
		c.Violation("reader:panic:"+docClass(rc.Doc), "ReadCRL panicked on a well-formed CRL: "+out.Panic, rep)
		return
	}
	if rc.St == "Done" {
		if out.Err != "" {
			c.Violation("reader:rejects-wellformed:"+docClass(rc.Doc), fmt.Sprintf("a well-formed CRL of the supported profile is rejected: %s (shape %+v)", out.Err, sh), rep)
			return
		}
		if got, want := normEvents(abstractEvents(out.Events, sh.Rep)), normEvents(rc.Events); got != want {
			c.Violation("reader:events-differ:"+docClass(rc.Doc), fmt.Sprintf("callbacks %s differ from the specification's %s (shape %+v)", got, want, sh), rep)
			return
		}
		if why := referenceCheck(b.DER, derbuild.Algs[sh.Alg], out); why != "" {
			c.Violation("reader:reference-disagrees:"+fmt.Sprintf("enc=%s:align=%s", sh.Enc, sh.Align), fmt.Sprintf("%s (doc %s, shape %+v)", why, docClass(rc.Doc), sh), rep)
		}
	} else { // out of profile: must be rejected
		if out.Err == "" {
			c.Violation("reader:accepts-out-of-profile:"+docClass(rc.Doc), "a CRL with an unknown version / unimplemented critical extension was not rejected", rep)
		}
	}
}

// c06Overlapping: two instances of CrlReader.tla share no variable - a read is not alone in the process (a handshake loads one list
// while the ticker refreshes another, two handshakes name different distribution points), and what one read reports is a function
// of its own bytes only. Pairs of accepted documents with the same signature algorithm are read (a) nested: the second one
// completely inside the first one's entry callback, in both orders after earlier reads have completed, (b) by two goroutines that
// start together. Every read is judged exactly like a read that is alone (events, reference decoder, digest).
func c06Overlapping(c *vk.Ctx, cases []rdCase, rng *rand.Rand, dir string) int {
	var withEntries []rdCase
	for _, rc := range cases {
		if rc.St == "Done" && len(rc.Doc.List.Es) > 0 {
			withEntries = append(withEntries, rc)
		}
	}
	if len(withEntries) < 2 {
		return 0
	}
	type built struct {
		rc   rdCase
		sh   rdShape
		b    *derbuild.Built
		path string
	}
	mk := func(i int, alg string) *built {
		rc := withEntries[rng.Intn(len(withEntries))]
		sh := readerShapes(c, rng, i)
		sh.Alg, sh.Huge, sh.Align = alg, "", "none"
		b, err := buildAligned(rc.Doc, sh)
		if err != nil {
			return nil
		}
		path := filepath.Join(dir, fmt.Sprintf("overlap-%d.crl", i%2))
		os.WriteFile(path, encode(b.DER, sh.Enc), 0o644)
		return &built{rc, sh, b, path}
	}
	judge := func(how string, x *built, out readOutcome) {
		rep := map[string]any{"doc": x.rc.Doc, "shape": x.sh, "overlap": how, "real": map[string]any{"err": out.Err, "panic": out.Panic}}
		switch {
		case out.Panic != "":
			c.Violation("reader:overlap:panic:"+how, "ReadCRL panicked on a well-formed CRL while another read was under way: "+out.Panic, rep)
		case out.Err != "":
			c.Violation("reader:overlap:rejects-wellformed:"+how, "a well-formed CRL is rejected while another read is under way: "+out.Err, rep)
		default:
			if got, want := normEvents(abstractEvents(out.Events, x.sh.Rep)), normEvents(x.rc.Events); got != want {
				c.Violation("reader:overlap:events-differ:"+how, fmt.Sprintf("callbacks %s differ from the specification's %s", got, want), rep)
			} else if why := referenceCheck(x.b.DER, derbuild.Algs[x.sh.Alg], out); why != "" {
				c.Violation("reader:overlap:reference-disagrees:"+how, why+" (while another read was under way)", rep)
			}
		}
	}
	n := 0
	for round := 0; round < c.Pick(24, 400) && c.Violations() <= 10; round++ {
		alg := supportedAlgs[round%len(supportedAlgs)]
		x, y := mk(round*2, alg), mk(round*2+1, alg)
		if x == nil || y == nil {
			continue
		}
		// (a) nested
		var inner readOutcome
		outer := readWithRealReaderDuring(x.path, func() { inner = readWithRealReader(y.path) })
		judge("nested-outer", x, outer)
		judge("nested-inner", y, inner)
		c.Eval(fmt.Sprintf("overlap|nested|%s|%d", alg, round))
		n += 2
		// (b) two goroutines
		if round%3 == 0 {
			var ox, oy readOutcome
			start := make(chan struct{})
			var wg sync.WaitGroup
			wg.Add(2)
			go func() { defer wg.Done(); <-start; ox = readWithRealReader(x.path) }()
			go func() { defer wg.Done(); <-start; oy = readWithRealReader(y.path) }()
			close(start)
			wg.Wait()
			judge("parallel", x, ox)
			judge("parallel", y, oy)
			c.Eval(fmt.Sprintf("overlap|parallel|%s|%d", alg, round))
			n += 2
		}
	}
	return n
}

func readerShapes(c *vk.Ctx, rng *rand.Rand, i int) rdShape {
	algs := supportedAlgs
	sh := rdShape{Alg: algs[i%len(algs)], Enc: []string{"der", "pem", "pemcrlf"}[i%3], Rep: []int{1, 1, 40, 130}[i%4], Width: shapeWidths[i%len(shapeWidths)], BigExt: i%2 == 0, Align: "none"}
	if !c.Thorough() {
		sh.Alg = algs[i%2]
	}
	sh.ExtOrder, sh.CritKind = rng.Intn(4), rng.Intn(3)
	return sh
}

// C06 — the streaming reader agrees with a whole-document reference decoder.
func C06(c *vk.Ctx) {
	cases, res := exportReaderDocs(c, 2, false)
	c.Set("states", res.Distinct)
	c.Set("transitions", res.Generated)
	rng := rand.New(rand.NewSource(c.Seed))
	dir, _ := os.MkdirTemp("", "verif.reader.")
	defer os.RemoveAll(dir)
	n := 0
	for i, rc := range cases {
		if c.Violations() > 10 {
			break
		}
		// every document: one plain shape + one aligned shape; thorough: all encodings x alignments
		sh := readerShapes(c, rng, i+int(c.Seed))
		runReaderCase(c, rc, sh, dir)
		n++
		// one whole-decoded element beyond 64 KiB (still inside the reader's structure limit)
		hasEntryExt := false
		for _, e := range rc.Doc.List.Es {
			hasEntryExt = hasEntryExt || e.Ext
		}
		if hasEntryExt && i%5 == 0 {
			s4 := sh
			s4.Huge, s4.Rep = "entry", 1
			runReaderCase(c, rc, s4, dir)
			n++
		}
		if rc.Doc.Exts != "absent" && i%7 == 0 {
			s4 := sh
			s4.Huge = "crlext"
			runReaderCase(c, rc, s4, dir)
			n++
		}
		if rc.Doc.Exts == "crit" || (rc.Doc.Exts == "number" && i%3 == 0) {
			// the order of the extensions decides nothing: every order, every kind of unimplemented critical extension
			for o := 0; o < 4; o++ {
				s3 := sh
				s3.ExtOrder, s3.CritKind = o, (o+i)%3
				if s3 != sh {
					runReaderCase(c, rc, s3, dir)
					n++
				}
			}
		}
		aligns := []string{"entry", "exts", "sig", "alg"}
		ks := []int{1}
		// the element starts at 4096k+delta: its tag, its length-of-length octet or its length octets (two of them for every
		// element above 255 bytes) straddle the window boundary for delta = -1, -2, -3
		deltas := []int{-3, -2, -1, 0, 1}
		if c.Thorough() {
			ks = []int{1, 2, 3}
			deltas = []int{-4, -3, -2, -1, 0, 1, 2}
		}
		for ai, al := range aligns {
			if !c.Thorough() && (ai+i)%4 != 0 {
				continue
			}
			for _, k := range ks {
				for _, dl := range deltas {
					s2 := sh
					s2.Align, s2.AlignAt = al, 4096*k+dl
					if al == "entry" && s2.Rep == 1 {
						s2.Rep = 40
					}
					encs := []string{s2.Enc}
					if c.Thorough() {
						encs = []string{"der", "pem", "pemcrlf"}
					}
					for _, enc := range encs {
						s2.Enc = enc
						runReaderCase(c, rc, s2, dir)
						n++
					}
				}
			}
		}
		if i%90 == 0 {
			c.Sample(map[string]any{"doc": rc.Doc, "model_events": rc.Events, "model_state": rc.St, "shape": sh})
		}
	}
	if c.Thorough() {
		// long lists: 10^4 entries
		for i, rc := range cases {
			if len(rc.Doc.List.Es) == 2 && rc.St == "Done" && i%9 == 0 {
				sh := readerShapes(c, rng, i)
				sh.Rep = 5000
				runReaderCase(c, rc, sh, dir)
				n++
			}
		}
	}
	n += c06Overlapping(c, cases, rng, dir)
	c.Set("traces_validated_against_impl", int64(n))
	c.Set("exhaustive", true)
	c.Set("spec", "CrlReader.tla (BoundByTbs = TRUE, MaxEntries = 2): all 396 documents of the bounded RFC 5280 grammar; invariants Agree (events and hashed elements equal the reference semantics), RejectsOutOfProfile, DigestExact, OneResident")
	c.Set("rule", "a case is (abstract document, shape) materialised by derbuild with a real signature and read by the real StreamingCRLFileReader with a recording consumer; compared with (1) the specification's event sequence and accept/reject, (2) a whole-document decoder (encoding/asn1 into pkix.CertificateList) for serials, dates, entry extensions, issuer, update times, CRL number, and the digest of TBSCertList.Raw under the declared hash; shapes: signature algorithm, DER/PEM-LF/PEM-CRLF, block replication 1/40/130 (5000 thorough), serial width, 2- and 3-byte extension lengths, alignment of an entry / crlExtensions / outer algorithm / signature at 4096k+delta; reads that overlap (a second document read inside the first one's entry callback, and pairs read by two goroutines at once) are each judged like a read that is alone")
	c.Assume("the model enumerates structure (which optional parts exist, entry flags), bytes inside a class are seeded; encode/decode fidelity is decided by the differential oracle, not by TLC")
}
