package checks

import (
	"crypto/x509/pkix"
	"encoding/asn1"
	"fmt"
	"math/big"
	"math/rand"
	"os"
	"time"
	"verif/harness/derbuild"

	"verif/harness/pki"
)

// Shape is the concrete instance of the abstract document classes of the specification (DESIGN 3.2):
// the model enumerates histories and key sets, the concretiser picks the bytes.
type Shape struct {
	Size   string `json:"size"`          // "min" | "s5" | "straddle" | "s300" | "big"
	Pos    string `json:"pos"`           // "first" | "middle" | "last"
	Width  string `json:"width"`         // "w1" | "w8" | "w9" | "w16" | "w20"
	Ext    string `json:"ext"`           // "none" | "reason" | "multi" | "certissuer" (entries of a CRL of another CA claim the probe's issuer, 2.5.29.29)
	Enc    string `json:"enc"`           // "der" | "pem" | "pemcrlf"
	Garble string `json:"garble"`        // kind of garbage body: "text" | "random" | "empty" | "truncated"
	Aki    string `json:"aki,omitempty"` // authorityKeyIdentifier of the lists, where the signature policy does not need it to find the signer: "" (keyIdentifier) | "empty" (SEQUENCE {}) | "issueronly" | "issuerserial" | "absent"
	Num    string `json:"num"`           // cRLNumber policy of successive lists: "inc" | "same" (reissued under the same number) | "absent" (no cRLNumber; v1 or v2 without it)
}

var (
	shapeSizes  = []string{"min", "s5", "straddle", "s300"}
	shapePos    = []string{"first", "middle", "last"}
	shapeWidths = []string{"w1", "w8", "w9", "w16", "w20"}
	shapeExts   = []string{"none", "reason", "multi", "certissuer"}
	shapeEncs   = []string{"der", "pem", "pemcrlf"}
	shapeGarble = []string{"text", "random", "empty", "truncated"}
)

func RandomShape(rng *rand.Rand) Shape {
	s := randomShape(rng)
	if e := os.Getenv("VERIF_SHAPE_EXT"); e != "" { // debugging aid
		s.Ext = e
	}
	return s
}

func randomShape(rng *rand.Rand) Shape {
	return Shape{
		Size:   shapeSizes[rng.Intn(len(shapeSizes))],
		Pos:    shapePos[rng.Intn(len(shapePos))],
		Width:  shapeWidths[rng.Intn(len(shapeWidths))],
		Ext:    shapeExts[rng.Intn(len(shapeExts))],
		Enc:    shapeEncs[rng.Intn(len(shapeEncs))],
		Garble: shapeGarble[rng.Intn(len(shapeGarble))],
		Num:    []string{"inc", "inc", "same", "absent"}[rng.Intn(4)],
		Aki:    []string{"", "", "", "empty", "issueronly", "issuerserial", "absent"}[rng.Intn(7)],
	}
}

// Serial maps the abstract serial (1, 2) to a concrete serial of the shape's width.
func (s Shape) Serial(abstract int) *big.Int {
	var b []byte
	switch s.Width {
	case "w1":
		return big.NewInt(int64(0x10 + abstract))
	case "w8":
		b = []byte{0x7a, 0x01, 0x02, 0x03, 0x04, 0x05, 0x06, byte(0x10 + abstract)}
	case "w9": // 8 bytes with the high bit set: DER needs a leading zero octet
		b = []byte{0xfa, 0x01, 0x02, 0x03, 0x04, 0x05, 0x06, byte(0x10 + abstract)}
	case "w16":
		b = []byte{0x9c, 0x11, 0x22, 0x33, 0x44, 0x55, 0x66, 0x77, 0x88, 0x99, 0xaa, 0xbb, 0xcc, 0xdd, 0xee, byte(0x10 + abstract)}
	default: // w20: the RFC 5280 maximum of 20 octets
		b = []byte{0x7f, 0xee, 0xdd, 0xcc, 0xbb, 0xaa, 0x99, 0x88, 0x77, 0x66, 0x55, 0x44, 0x33, 0x22, 0x11, 0x00, 0xa5, 0x5a, 0xc3, byte(0x10 + abstract)}
	}
	return new(big.Int).SetBytes(b)
}

// nearMisses are serials that resemble a probe serial without being equal: off by one, one byte
// shorter / longer, decimal prefix. They are used as filler entries so that precision is exercised.
func nearMisses(x *big.Int) []*big.Int {
	one := big.NewInt(1)
	out := []*big.Int{
		new(big.Int).Add(x, big.NewInt(16)), // differs in a bit that is not part of the abstract number
		new(big.Int).Lsh(x, 8),              // one byte longer
		new(big.Int).Neg(x),                 // sign variant: the same magnitude, negative
	}
	if x.BitLen() > 8 {
		out = append(out, new(big.Int).Rsh(x, 8)) // one byte shorter
	}
	dec := x.String()
	if len(dec) > 1 {
		p, _ := new(big.Int).SetString(dec[:len(dec)-1], 10)
		out = append(out, p)
	}
	p2, _ := new(big.Int).SetString(dec+"0", 10)
	out = append(out, p2)
	_ = one
	return out
}

func (s Shape) fillerCount(listed int) int {
	switch s.Size {
	case "min":
		return 0
	case "s5":
		return 5
	case "straddle":
		return 130 // ~4.5 KiB of entries: the list crosses the 4096-byte buffer window
	case "s300":
		return 300
	case "big":
		return 20000
	}
	return 0
}

func (s Shape) entryExt(i int) (int, []pkix.Extension) {
	switch s.Ext {
	case "reason", "certissuer":
		return 1 + i%6, nil
	case "multi":
		inval, _ := asn1.Marshal(time.Date(2020, 1, 1, 0, 0, 0, 0, time.UTC))
		return 4, []pkix.Extension{
			{Id: asn1.ObjectIdentifier{2, 5, 29, 24}, Value: inval},
			{Id: asn1.ObjectIdentifier{1, 3, 6, 1, 4, 1, 99999, 7}, Value: []byte{0x0c, 0x03, 'a', 'b', 'c'}},
		}
	}
	return 0, nil
}

// CRLSpec: what the abstract document says, independent of bytes.
type CRLSpec struct {
	Signer  *pki.CA
	Listed  []*big.Int // serials that must be listed
	Avoid   []*big.Int // serials that must NOT be listed (other probes)
	CritExt bool       // carries an unknown critical CRL extension
	Number  int64
	// OddAKI: the shape's unusual authorityKeyIdentifier form may be used (set by the caller when the configured signature
	// policy accepts every parseable list, so that the signer need not be found through the extension)
	OddAKI bool
	// ForeignIssuerRaw: the DER name of the CA whose certificates are probed, given when Signer is another CA. With the shape
	// "certissuer" every entry then carries a certificateIssuer entry extension naming that CA. The CRL is not an indirect CRL and no
	// certificate delegates revocation to Signer, so the entries still concern nobody but Signer's own certificates.
	ForeignIssuerRaw []byte
}

// certificateIssuerExt renders the CRL entry extension 2.5.29.29 (GeneralNames with one directoryName).
func certificateIssuerExt(nameRaw []byte, critical bool) pkix.Extension {
	dn, _ := asn1.Marshal(asn1.RawValue{Class: asn1.ClassContextSpecific, Tag: 4, IsCompound: true, Bytes: nameRaw})
	gns, _ := asn1.Marshal(asn1.RawValue{Class: asn1.ClassUniversal, Tag: asn1.TagSequence, IsCompound: true, Bytes: dn})
	return pkix.Extension{Id: asn1.ObjectIdentifier{2, 5, 29, 29}, Critical: critical, Value: gns}
}

// BuildCRL renders a CRLSpec in the given shape.
func BuildCRL(spec CRLSpec, s Shape) []byte {
	avoid := map[string]bool{}
	for _, a := range spec.Avoid {
		avoid[a.String()] = true
	}
	for _, l := range spec.Listed {
		avoid[l.String()] = true
	}
	var fillers []*big.Int
	n := s.fillerCount(len(spec.Listed))
	if n > 0 {
		// near misses of every probe first, then a deterministic sequence
		for _, p := range append(append([]*big.Int{}, spec.Listed...), spec.Avoid...) {
			for _, m := range nearMisses(p) {
				if !avoid[m.String()] && len(fillers) < n {
					avoid[m.String()] = true
					fillers = append(fillers, m)
				}
			}
		}
		base := new(big.Int).SetBytes([]byte{0x33, 0x00, 0x00, 0x00, 0x00, 0x00})
		for i := 0; len(fillers) < n; i++ {
			f := new(big.Int).Add(base, big.NewInt(int64(i)))
			if !avoid[f.String()] {
				fillers = append(fillers, f)
			}
		}
	}
	var serials []*big.Int
	switch s.Pos {
	case "first":
		serials = append(append(serials, spec.Listed...), fillers...)
	case "last":
		serials = append(append(serials, fillers...), spec.Listed...)
	default:
		h := len(fillers) / 2
		serials = append(append(append(serials, fillers[:h]...), spec.Listed...), fillers[h:]...)
	}
	var entries []pki.CRLEntry
	now := time.Now().Add(-time.Minute).UTC().Truncate(time.Second)
	for i, sn := range serials {
		reason, extra := s.entryExt(i)
		if s.Ext == "certissuer" && spec.ForeignIssuerRaw != nil {
			extra = append(extra, certificateIssuerExt(spec.ForeignIssuerRaw, i%4 == 3))
		}
		entries = append(entries, pki.CRLEntry{Serial: sn, Time: now.Add(-time.Duration(i) * time.Second), Reason: reason, Extra: extra})
	}
	var crlExtra []pkix.Extension
	if spec.CritExt {
		crlExtra = []pkix.Extension{{Id: asn1.ObjectIdentifier{1, 3, 6, 1, 4, 1, 99999, 9}, Critical: true, Value: []byte{0x05, 0x00}}}
	}
	var der []byte
	if spec.OddAKI && s.Aki != "" {
		der = buildDER(spec, entries, now, crlExtra, s.Num, s.Aki)
	} else {
		der = buildStd(spec, entries, now, crlExtra, s.Num)
	}
	switch s.Enc {
	case "pem":
		return pki.PEMCRL(der, false)
	case "pemcrlf":
		return pki.PEMCRL(der, true)
	}
	return der
}

func buildStd(spec CRLSpec, entries []pki.CRLEntry, now time.Time, crlExtra []pkix.Extension, num string) []byte {
	var der []byte
	switch num {
	case "same":
		der = spec.Signer.StdCRLExt(7, entries, now, now.Add(24*time.Hour), crlExtra)
	case "absent":
		der = buildWithoutNumber(spec, entries, now, crlExtra)
	default:
		der = spec.Signer.StdCRLExt(spec.Number, entries, now, now.Add(24*time.Hour), crlExtra)
	}
	return der
}

// buildDER renders a v2 list with derbuild, with the authorityKeyIdentifier in the given form and the cRLNumber policy num.
func buildDER(spec CRLSpec, entries []pki.CRLEntry, now time.Time, crlExtra []pkix.Extension, num, akiForm string) []byte {
	alg := derbuild.Algs["ecdsaWithSHA256"]
	if spec.Signer.Alg == "rsa" {
		alg = derbuild.Algs["sha256WithRSA"]
	}
	nu := now.Add(24 * time.Hour)
	doc := &derbuild.Doc{Version: 2, Alg: alg, IssuerRaw: spec.Signer.Cert.RawSubject, ThisUpdate: now, NextUpdate: &nu, ListPresent: len(entries) > 0, ExtsPresent: true}
	rawName := asn1.RawValue{Class: asn1.ClassContextSpecific, Tag: 4, IsCompound: true, Bytes: spec.Signer.Cert.RawIssuer}
	dn, _ := asn1.Marshal(rawName)
	issuerField := asn1.RawValue{Class: asn1.ClassContextSpecific, Tag: 1, IsCompound: true, Bytes: dn}
	serialBytes := spec.Signer.Cert.SerialNumber.Bytes()
	if len(serialBytes) == 0 || serialBytes[0]&0x80 != 0 {
		serialBytes = append([]byte{0}, serialBytes...)
	}
	serialField := asn1.RawValue{Class: asn1.ClassContextSpecific, Tag: 2, Bytes: serialBytes}
	var akiVal []byte
	switch akiForm {
	case "empty":
		akiVal = []byte{0x30, 0x00}
	case "issueronly":
		akiVal, _ = asn1.Marshal([]asn1.RawValue{issuerField})
	case "issuerserial":
		akiVal, _ = asn1.Marshal([]asn1.RawValue{issuerField, serialField})
	}
	if akiVal != nil {
		doc.Exts = append(doc.Exts, pkix.Extension{Id: asn1.ObjectIdentifier{2, 5, 29, 35}, Value: akiVal})
	}
	if num != "absent" {
		n := spec.Number
		if num == "same" {
			n = 7
		}
		nv, _ := asn1.Marshal(big.NewInt(n))
		doc.Exts = append(doc.Exts, pkix.Extension{Id: asn1.ObjectIdentifier{2, 5, 29, 20}, Value: nv})
	}
	doc.Exts = append(doc.Exts, crlExtra...)
	if len(doc.Exts) == 0 {
		doc.ExtsPresent = false
	}
	for _, e := range entries {
		de := derbuild.Entry{Serial: e.Serial, Date: e.Time}
		if e.Reason != 0 {
			r, _ := asn1.Marshal(asn1.Enumerated(e.Reason))
			de.Exts = append(de.Exts, pkix.Extension{Id: asn1.ObjectIdentifier{2, 5, 29, 21}, Value: r})
		}
		de.Exts = append(de.Exts, e.Extra...)
		doc.Entries = append(doc.Entries, de)
	}
	b, err := doc.Build(spec.Signer.Key)
	if err != nil {
		panic(err)
	}
	return b.DER
}

// Garbage returns an unparseable body of the shape's kind.
func (s Shape) Garbage(valid []byte, rng *rand.Rand) []byte {
	switch s.Garble {
	case "text":
		return []byte("<html><body>404 not found</body></html>\n")
	case "random":
		b := make([]byte, 200+rng.Intn(300))
		rng.Read(b)
		b[0] = 0x30 // looks like a SEQUENCE at first
		return b
	case "empty":
		return []byte{}
	default: // truncated valid CRL
		if len(valid) > 40 {
			return valid[:len(valid)/2]
		}
		return []byte{0x30, 0x82}
	}
}

func (s Shape) String() string {
	return fmt.Sprintf("%s/%s/%s/%s/%s", s.Size, s.Pos, s.Width, s.Ext, s.Enc)
}

// buildWithoutNumber renders the list with derbuild: a CRL without cRLNumber (a v1 CRL when there are no other
// extensions to carry, otherwise v2 with the authority key identifier only).
func buildWithoutNumber(spec CRLSpec, entries []pki.CRLEntry, now time.Time, crlExtra []pkix.Extension) []byte {
	alg := derbuild.Algs["ecdsaWithSHA256"]
	if spec.Signer.Alg == "rsa" {
		alg = derbuild.Algs["sha256WithRSA"]
	}
	nu := now.Add(24 * time.Hour)
	doc := &derbuild.Doc{Version: 2, Alg: alg, IssuerRaw: spec.Signer.Cert.RawSubject, ThisUpdate: now, NextUpdate: &nu, ListPresent: len(entries) > 0, ExtsPresent: true}
	aki, _ := asn1.Marshal(struct {
		KeyID []byte `asn1:"tag:0,optional"`
	}{KeyID: spec.Signer.Cert.SubjectKeyId})
	doc.Exts = append([]pkix.Extension{{Id: asn1.ObjectIdentifier{2, 5, 29, 35}, Value: aki}}, crlExtra...)
	if len(crlExtra) == 0 && spec.Number%2 == 0 && spec.Signer.Cert.IsCA {
		// a plain v1 CRL: no version field, no extensions at all (issuer matched by name)
		doc.Version, doc.ExtsPresent, doc.Exts = 0, false, nil
	}
	for _, e := range entries {
		de := derbuild.Entry{Serial: e.Serial, Date: e.Time}
		if doc.Version == 2 {
			if e.Reason != 0 {
				r, _ := asn1.Marshal(asn1.Enumerated(e.Reason))
				de.Exts = append(de.Exts, pkix.Extension{Id: asn1.ObjectIdentifier{2, 5, 29, 21}, Value: r})
			}
			de.Exts = append(de.Exts, e.Extra...)
		}
		doc.Entries = append(doc.Entries, de)
	}
	b, err := doc.Build(spec.Signer.Key)
	if err != nil {
		panic(err)
	}
	return b.DER
}
