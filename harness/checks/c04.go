package checks

import (
	"crypto"
	"crypto/ed25519"
	"crypto/rand"
	"crypto/sha256"
	"crypto/x509"
	"crypto/x509/pkix"
	"encoding/json"
	"fmt"
	"github.com/gr33nbl00d/caddy-revocation-validator/crl/crlstore"
	"math/big"
	mrand "math/rand"
	"os"
	"path/filepath"
	"sort"
	"strings"
	"time"

	"verif/harness/derbuild"
	"verif/harness/origin"
	"verif/harness/pki"
	"verif/harness/tlcrun"
	"verif/harness/vk"
	"verif/harness/world"
)

type azRow struct {
	Signer string `json:"signer"`
	Aki    string `json:"aki"`
	Ku     string `json:"ku"`
	Alg    string `json:"alg"`
	Mut    string `json:"mut"`
}

type azCase struct {
	Row  azRow `json:"row"`
	Mech bool  `json:"mech"`
	Req  bool  `json:"req"`
}

func exportAuthzRows(c *vk.Ctx, algs []string) ([]azCase, tlcrun.Result) {
	q := make([]string, len(algs))
	for i, a := range algs {
		q[i] = fmt.Sprintf("%q", a)
	}
	mc := fmt.Sprintf("---- MODULE MCAuthzGen ----\nEXTENDS Authz\nAlgVal == {%s}\nNoDev == {}\n====\n", strings.Join(q, ", "))
	cfg := "SPECIFICATION Spec\nCONSTANTS\n Dev <- NoDev\n Export = TRUE\n AlgSet <- AlgVal\nINVARIANTS OnlyEntitled Complete\nCHECK_DEADLOCK FALSE\n"
	var rows []azCase
	var perr error
	res := tlcrun.Run(tlcrun.Options{SpecDir: vk.SpecDir(), Module: "MCAuthzGen", Config: cfg, Workers: 4,
		Files: map[string][]byte{"MCAuthzGen.tla": []byte(mc)},
		OnTagged: func(tag string, p json.RawMessage) {
			if tag != "ROW" {
				return
			}
			var r azCase
			if err := json.Unmarshal(p, &r); err != nil {
				perr = err
				return
			}
			rows = append(rows, r)
		}})
	if res.InfraErr != nil {
		c.Infra("tlc Authz: %v", res.InfraErr)
	}
	if !res.OK {
		c.Infra("Authz.tla violates its properties (specification problem):\n%s", res.Violation)
	}
	if perr != nil {
		c.Infra("ROW payload: %v", perr)
	}
	return rows, res
}

func kuOf(s string) (x509.KeyUsage, bool) {
	switch s {
	case "crlSign":
		return x509.KeyUsageCertSign | x509.KeyUsageCRLSign, false
	case "noCrlSign":
		return x509.KeyUsageCertSign | x509.KeyUsageDigitalSignature, false
	}
	return 0, true // no keyUsage extension at all
}

type azWorld struct {
	org     *origin.Server
	w       *world.World
	leaf    *pki.Leaf
	chain   [][]*x509.Certificate
	built   *derbuild.Built
	signKey crypto.Signer
	alg     derbuild.Alg
}

const pathAz = "/c04/list.crl"

func akiValue(form string, claimed *x509.Certificate) []byte {
	keyID := derbuild.TLV(0x80, claimed.SubjectKeyId)
	gn := derbuild.TLV(0xa1, derbuild.TLV(0xa4, claimed.RawIssuer))
	serial := derbuild.TLV(0x82, claimed.SerialNumber.Bytes())
	switch form {
	case "keyIdOK":
		return derbuild.Seq(keyID)
	case "keyIdBad":
		return derbuild.Seq(derbuild.TLV(0x80, []byte{0xde, 0xad, 0xbe, 0xef, 1, 2, 3, 4}))
	case "issuerSerialOK":
		return derbuild.Seq(gn, serial)
	case "issuerSerialBad":
		return derbuild.Seq(gn, derbuild.TLV(0x82, []byte{0x63}))
	case "both":
		return derbuild.Seq(keyID, gn, serial)
	}
	return nil
}

// buildAzWorld materialises one row of the Authz decision table.
func buildAzWorld(r azRow, seed int64) (*azWorld, error) {
	alg := derbuild.Algs[r.Alg]
	kt := alg.Key
	pkiAlg := "ecdsa"
	if kt == "rsa" {
		pkiAlg = "rsa"
	}
	caKU, caNoKU := kuOf("crlSign")
	if r.Signer == "issuerCA" {
		caKU, caNoKU = kuOf(r.Ku)
	}
	ca := pki.NewCA(pki.CAOpts{Name: "C04 Issuer CA", Alg: pkiAlg, RSAIndex: 0, Serial: 301, KeyUsage: caKU, NoKeyUsage: caNoKU})
	issuerOfLeaf := ca
	chainCAs := []*pki.CA{ca}
	var inter, trust *pki.CA
	if r.Signer == "intermediate" {
		ku, no := kuOf(r.Ku)
		inter = pki.NewCA(pki.CAOpts{Name: "C04 Intermediate CA", Alg: pkiAlg, RSAIndex: 1, Serial: 302, Parent: ca, KeyUsage: ku, NoKeyUsage: no})
		issuerOfLeaf = inter
		chainCAs = []*pki.CA{inter, ca}
	}
	az := &azWorld{alg: alg}
	az.org = origin.New()
	var leafKey crypto.Signer
	if kt == "rsa" {
		leafKey = pki.RSAKey(3)
	}
	leafOpts := pki.LeafOpts{CN: "c04 leaf", Serial: big.NewInt(7), CDP: []string{az.org.URL + pathAz}, Key: leafKey}
	if r.Signer == "endEntity" {
		// the end-entity certificate with the key usage of the row: none at all, digitalSignature only, or digitalSignature + cRLSign
		_, no := kuOf(r.Ku)
		leafOpts.NoKeyUsage = no
		if r.Ku == "crlSign" {
			leafOpts.KeyUsage = x509.KeyUsageDigitalSignature | x509.KeyUsageCRLSign
		}
	}
	az.leaf = issuerOfLeaf.Leaf(leafOpts)
	az.chain = pki.Chain(az.leaf.Cert, chainCAs...)
	wc := world.Cfg{Mode: "crl_only", Storage: "memory", Sig: "verify", Fetch: "fetch_actively", CdpStrict: true, Interval: "1h"}
	w, err := world.New(wc)
	if err != nil {
		return nil, err
	}
	az.w = w
	if r.Signer == "trustedSigner" {
		ku, no := kuOf(r.Ku)
		trust = pki.NewCA(pki.CAOpts{Name: "C04 Trusted Signer", Alg: pkiAlg, RSAIndex: 2, Serial: 303, KeyUsage: ku, NoKeyUsage: no})
		p := filepath.Join(w.Sandbox, "trusted.pem")
		os.WriteFile(p, pki.PEMCert(trust.Cert), 0o644)
		w.Cfg.Trusted = []string{p}
	}
	// who signs and which identity the CRL claims
	var claimed *x509.Certificate
	switch r.Signer {
	case "issuerCA":
		az.signKey, claimed = ca.Key, ca.Cert
	case "intermediate":
		az.signKey, claimed = inter.Key, inter.Cert
	case "trustedSigner":
		az.signKey, claimed = trust.Key, trust.Cert
	case "endEntity":
		az.signKey, claimed = az.leaf.Key, az.leaf.Cert
	case "sibling":
		sib := pki.NewCA(pki.CAOpts{Name: "C04 Issuer CA", Alg: pkiAlg, RSAIndex: 4, Serial: 304})
		az.signKey, claimed = sib.Key, issuerOfLeaf.Cert
	default: // unrelated keys
		if kt == "rsa" {
			az.signKey = pki.RSAKey(5)
		} else {
			az.signKey = pki.ECKey()
		}
		claimed = issuerOfLeaf.Cert
	}
	if kt == "ed25519" {
		_, k, _ := ed25519.GenerateKey(rand.Reader)
		az.signKey = k
	}
	issuerRaw := claimed.RawSubject
	if r.Signer == "unrelatedOtherName" {
		issuerRaw = derbuild.RDN("Nobody In Particular", 0)
	}
	now := time.Now().Add(-time.Minute).UTC().Truncate(time.Second)
	nu := now.Add(24 * time.Hour)
	doc := &derbuild.Doc{Version: 2, Alg: alg, IssuerRaw: issuerRaw, ThisUpdate: now, NextUpdate: &nu, ListPresent: true,
		Entries: []derbuild.Entry{{Serial: big.NewInt(99), Date: now}}, ExtsPresent: true}
	if v := akiValue(r.Aki, claimed); v != nil {
		doc.Exts = append(doc.Exts, pkix.Extension{Id: akiOID, Value: v})
	}
	num := derbuild.SmallInt(int(seed%1000) + 1)
	doc.Exts = append(doc.Exts, pkix.Extension{Id: crlNumberOID, Value: num})
	b, err := doc.Build(az.signKey)
	if err != nil {
		return nil, err
	}
	az.built = b
	return az, nil
}

func (az *azWorld) close() {
	az.w.Destroy()
	az.org.Close()
}

// mutate flips one bit inside the named region of the built CRL.
func (az *azWorld) mutate(region string, rng *mrand.Rand) ([]byte, int) {
	der := append([]byte{}, az.built.DER...)
	b := az.built
	lo, hi := 0, 0
	oidRegion := func(off int) (int, int) {
		// AlgorithmIdentifier ::= SEQUENCE { OID ... }: flip inside the OID content
		h, _ := derHeader(der, off)
		oh, ol := derHeader(der, off+h)
		return off + h + oh, off + h + oh + ol
	}
	switch region {
	case "tbs":
		lo, hi = b.TBSOff, b.AlgOff
	case "outerAlg":
		lo, hi = oidRegion(b.AlgOff)
	case "innerAlg":
		lo, hi = oidRegion(b.Off["innerAlg"])
	case "signature":
		h, _ := derHeader(der, b.SigOff)
		lo, hi = b.SigOff+h+1, len(der)
	default:
		return der, -1
	}
	pos := lo + rng.Intn(hi-lo)
	der[pos] ^= byte(1 << uint(rng.Intn(8)))
	return der, pos
}

// inForce: does the served CRL come into force (strict gate passes)?
func (az *azWorld) inForce(body []byte) (bool, world.Result, error) {
	az.org.SetBody(pathAz, body)
	if az.w.V == nil {
		if err := az.w.Provision(); err != nil {
			return false, world.Result{}, err
		}
	}
	r := az.w.HandshakeTimeout(az.chain, 30*time.Second)
	return r.Verdict == "accept" || r.Verdict == "revoked", r, nil
}

func runAzRow(c *vk.Ctx, ac azCase, rng *mrand.Rand) {
	az, err := buildAzWorld(ac.Row, rng.Int63())
	if err != nil {
		c.Infra("authz world %+v: %v", ac.Row, err)
	}
	defer az.close()
	body, pos := az.mutate(ac.Row.Mut, rng)
	if rng.Intn(3) == 0 {
		body = derbuild.PEM(body, rng.Intn(2) == 0)
	}
	got, r, err := az.inForce(body)
	if err != nil {
		c.Infra("provision: %v", err)
	}
	c.Eval(fmt.Sprintf("%+v", ac.Row))
	if got && !ac.Req {
		c.Violation(fmt.Sprintf("crl-in-force-not-entitled:signer=%s:ku=%s:aki=%s:alg=%s:mut=%s", ac.Row.Signer, ac.Row.Ku, ac.Row.Aki, algClass(ac.Row.Alg), ac.Row.Mut),
			fmt.Sprintf("under 'verify' + crl_cdp_strict a CRL came into force although the specification says it must not: row %+v (mutated byte %d), handshake %s", ac.Row, pos, r.Verdict),
			map[string]any{"row": ac.Row, "mutated_offset": pos, "verdict": r, "crl_hex": fmt.Sprintf("%x", az.built.DER)})
	}
	if !got && ac.Req {
		c.Drift("entitled-crl-not-in-force:aki=" + ac.Row.Aki)
	}
}

func algClass(a string) string {
	if a == "rsaPSS" || a == "ed25519" {
		return a
	}
	if strings.HasPrefix(a, "ecdsa") {
		return "ecdsa"
	}
	return "rsa"
}

// C04 — CRL authenticity under 'verify'.
func C04(c *vk.Ctx) {
	algs := []string{"sha256WithRSA", "ecdsaWithSHA256", "rsaPSS", "ed25519"}
	if c.Thorough() {
		algs = append(append([]string{}, supportedAlgs...), "rsaPSS", "ed25519")
	} else {
		// rotate one more supported algorithm in by seed
		algs = append(algs, supportedAlgs[2+int(c.Seed)%8])
	}
	rows, res := exportAuthzRows(c, algs)
	c.Set("states", res.Distinct)
	c.Set("transitions", res.Generated)
	rng := mrand.New(mrand.NewSource(c.Seed))
	n := 0
	for i, ac := range rows {
		if c.Violations() > 12 {
			break
		}
		// quick: every row whose mechanism-relevant part is distinct; mutation rows only for a third of (signer, aki) cells
		if !c.Thorough() && ac.Row.Mut != "none" && (i+int(c.Seed))%3 != 0 {
			continue
		}
		runAzRow(c, ac, rng)
		n++
		if i%500 == 0 {
			c.Sample(ac)
		}
	}
	// digest covers exactly the signed portion: CrlReader.tla DigestExact is part of C06; here every byte of tbs / signature of one small CRL
	n += c04ByteSweep(c, rng)
	// histories: an unentitled signer must not get in through a later intake path either (refresh after a rejected refresh,
	// signer retry from the chain of a handshake, restart): Revocation.tla with the end-entity "E" among the signers
	hcfgs := []HubCfg{
		{Mode: "crl_only", Sig: "verify", Strict: true, Fetch: "actively", Disk: false, TrustA: false, Conf: "none", Ocsp: "noaia"},
		{Mode: "crl_only", Sig: "verify", Strict: false, Fetch: "actively", Disk: true, TrustA: true, Conf: "none", Ocsp: "noaia"},
	}
	hubCampaign(c, hcfgs, c.Pick(1400, 30000), allDownEdges, 60, predC04hub)
	// only lists of the OTHER CA (or nothing usable) are ever served at the distribution point of c1, while certificates of both
	// CAs keep being presented: whichever chain a handshake brought along, the other CA never becomes entitled for c1's location
	hubFocus(c, hcfgs, c.Pick(500, 6000), func(d hubDoc) bool { return d.Signer == "B" || d.Q == "garbage" }, RandomShape, predC04hub)
	// a list that a laxer configuration took in at a refresh, met again by a restart under "verify" with the origin gone
	switched := 0
	srng := mrand.New(mrand.NewSource(c.Seed + 404))
	for _, strict := range []bool{true, false} {
		for _, lax := range []string{"verify_log", "none"} {
			if c.Violations() > 6 {
				break
			}
			fam := []HubCfg{
				{Mode: "crl_only", Sig: lax, Strict: strict, Fetch: "actively", Disk: true, TrustA: false, Conf: "none", Ocsp: "noaia"},
				{Mode: "crl_only", Sig: "verify", Strict: strict, Fetch: "actively", Disk: true, TrustA: false, Conf: "none", Ocsp: "noaia"}}
			g, res := exportHubFamily(c, fam)
			c.Add("states", res.Distinct)
			paths := refreshThenStricterPaths(g)
			srng.Shuffle(len(paths), func(i, j int) { paths[i], paths[j] = paths[j], paths[i] })
			for pi, w := range paths {
				if pi >= c.Pick(10, 400) || c.Violations() > 6 {
					break
				}
				hubGoneUnfetched.Store(true)
				runHubWalk(c, fam[0], w, RandomShape(srng), c.Seed*7400+int64(switched), predC04hub)
				hubGoneUnfetched.Store(false)
				switched++
			}
		}
	}
	c.Set("refresh_then_stricter_restart_paths", int64(switched))
	c.Add("traces_validated_against_impl", int64(switched))
	c.Set("traces_validated_against_impl", int64(n))
	c.Set("exhaustive", c.Thorough())
	c.Set("spec", "Authz.tla: the decision table signer(7) x AKI form(6) x keyUsage(3) x algorithm x mutation site(5); OnlyEntitled (mechanism in force => requirement allows it) and Complete proved on every row; CrlReader.tla DigestExact for 'exactly the signed portion'")
	c.Set("rule", "a case is one row materialised with real keys and a real CRL (derbuild), served at the CDP of a leaf and taken in by a real validator under signature mode verify with crl_cdp_strict on; in force <=> the strict gate passes; violation iff it is in force and the specification's requirement says it must not be; mutations are seeded single-bit flips inside the named region, plus a sweep over every byte of tbsCertList and signature of a small CRL")
	c.Assume("single-bit mutations are exhaustive per byte (one random bit each) only for one small CRL per key type; otherwise seeded samples per region; the parameters field of the outer AlgorithmIdentifier and the unused-bits octet of the signature BIT STRING are not mutated (they are not part of what is signed or compared)")
}

// c04ByteSweep flips one bit in every byte of tbsCertList and of the signature value of a small valid CRL.
func c04ByteSweep(c *vk.Ctx, rng *mrand.Rand) int {
	n := 0
	for _, alg := range []string{"ecdsaWithSHA256", "sha256WithRSA"} {
		if !c.Thorough() && alg == "sha256WithRSA" && c.Seed%2 == 0 {
			continue
		}
		az, err := buildAzWorld(azRow{Signer: "issuerCA", Aki: "keyIdOK", Ku: "crlSign", Alg: alg, Mut: "none"}, 1)
		if err != nil {
			c.Infra("sweep world: %v", err)
		}
		ok, _, err := az.inForce(az.built.DER)
		if err != nil || !ok {
			c.Drift("sweep-baseline-not-in-force")
			az.close()
			continue
		}
		der := az.built.DER
		sh, _ := derHeader(der, az.built.SigOff)
		step := 1
		if !c.Thorough() {
			step = 3
		}
		for pos := az.built.TBSOff; pos < len(der); pos += step {
			if pos >= az.built.AlgOff && pos < az.built.SigOff+sh+1 {
				continue // outer AlgorithmIdentifier / BIT STRING header: handled by the region rows
			}
			// a fresh validator for every mutation: a CRL that is in force stays in force until replaced
			az.w.Cleanup()
			mut := append([]byte{}, der...)
			mut[pos] ^= byte(1 << uint(rng.Intn(8)))
			got, r, err := az.inForce(mut)
			if err != nil {
				c.Infra("sweep provision: %v", err)
			}
			n++
			c.Eval(fmt.Sprintf("sweep|%s|%d", alg, pos))
			if got {
				c.Violation(fmt.Sprintf("mutated-crl-in-force:alg=%s:region=%s", algClass(alg), map[bool]string{true: "tbs", false: "signature"}[pos < az.built.AlgOff]),
					fmt.Sprintf("flipping one bit of byte %d of a valid CRL (%s) left it in force: %s", pos, alg, r.Verdict), map[string]any{"alg": alg, "offset": pos, "crl_hex": fmt.Sprintf("%x", der)})
				break
			}
		}
		az.close()
	}
	n += c04RefreshSweep(c, rng)
	return n
}

// storeDigest hashes every record of a live store (both backends expose their container).
func storeDigest(st crlstore.CRLStore) string {
	h := sha256.New()
	switch s := unwrapStore(st).(type) {
	case *crlstore.LevelDbStore:
		it := s.Db.NewIterator(nil, nil)
		defer it.Release()
		for it.Next() {
			h.Write(it.Key())
			h.Write(it.Value())
		}
	case *crlstore.MapStore:
		keys := make([]string, 0, len(s.Map))
		for k := range s.Map {
			keys = append(keys, fmt.Sprint(k))
		}
		sort.Strings(keys)
		for _, k := range keys {
			h.Write([]byte(k))
		}
		vals := make([]string, 0, len(s.Map))
		for _, v := range s.Map {
			vals = append(vals, string(v))
		}
		sort.Strings(vals)
		for _, v := range vals {
			h.Write([]byte(v))
		}
	default:
		return fmt.Sprintf("unknown store type %T", st)
	}
	return fmt.Sprintf("%x", h.Sum(nil))
}

// c04RefreshSweep: the same single-bit mutations offered to a validator that already has the genuine CRL in force, by way of a
// refresh (the signature value is the one it has verified before): none of them may replace the genuine list.
func c04RefreshSweep(c *vk.Ctx, rng *mrand.Rand) int {
	n := 0
	for ai, alg := range []string{"ecdsaWithSHA256", "sha256WithRSA"} {
		if !c.Thorough() && (ai+int(c.Seed))%2 == 1 {
			continue
		}
		az, err := buildAzWorld(azRow{Signer: "issuerCA", Aki: "keyIdOK", Ku: "crlSign", Alg: alg, Mut: "none"}, 2)
		if err != nil {
			c.Infra("refresh sweep world: %v", err)
		}
		ok, _, err := az.inForce(az.built.DER)
		if err != nil || !ok {
			c.Drift("refresh-sweep-baseline-not-in-force")
			az.close()
			continue
		}
		repo := az.w.V.VerifCRLChecker().VerifRepository()
		ids := repo.VerifIdentifiers()
		if len(ids) != 1 {
			c.Drift("refresh-sweep-entries")
			az.close()
			continue
		}
		genuine := storeDigest(repo.VerifStore(ids[0]))
		der := az.built.DER
		sh, _ := derHeader(der, az.built.SigOff)
		step := 4
		if c.Thorough() {
			step = 1
		}
		for pos := az.built.TBSOff + int(c.Seed)%step; pos < len(der); pos += step {
			if pos >= az.built.AlgOff && pos < az.built.SigOff+sh+1 {
				continue
			}
			mut := append([]byte{}, der...)
			mut[pos] ^= byte(1 << uint(rng.Intn(8)))
			az.org.SetBody(pathAz, mut)
			az.w.RefreshAll()
			n++
			c.Eval(fmt.Sprintf("refresh-sweep|%s|%d", alg, pos))
			if got := storeDigest(repo.VerifStore(ids[0])); got != genuine {
				c.Violation(fmt.Sprintf("mutated-crl-in-force:alg=%s:region=%s:intake=refresh", algClass(alg), map[bool]string{true: "tbs", false: "signature"}[pos < az.built.AlgOff]),
					fmt.Sprintf("a refresh fetched the CRL in force with one bit of byte %d flipped (%s) and the store content changed: the mutated list replaced the genuine one", pos, alg),
					map[string]any{"alg": alg, "offset": pos, "crl_hex": fmt.Sprintf("%x", der)})
				break
			}
		}
		az.close()
	}
	return n
}

// predC04hub: under 'verify' only entitled, verified CRLs are ever in force - on every intake path of a history.
func predC04hub(c *vk.Ctx, o *hubObs) {
	if o.Cfg.Sig == "verify" && o.Loaded != nil && o.Exp.Loaded != nil && o.Op[0] != "cleanup" {
		// model and code agreed on every observable before this step. If a location counts as loaded now although the only
		// document fetched there in this step is one that policy rejects, that document came into force.
		for _, l := range []string{"D", "U"} {
			if o.Loaded[l] && !o.Exp.Loaded[l] && o.Exp.Fetch[l] > 0 && !o.Exp.Inforce[l] {
				c.Violation(fmt.Sprintf("history:rejected-crl-in-force:loc=%s:step=%v", l, o.Op[0]),
					fmt.Sprintf("step %v fetched at %s a CRL that no entitled issuer signed for this context, and the location is loaded afterwards; cfg=%s", o.Op[0], l, o.Cfg), hubReplay(o))
			}
		}
	}
	if o.Op[0] != "handshake" || o.Cfg.Sig != "verify" || !realDecided(o.Verdict) || o.Exp.Cause != "crl" {
		return
	}
	cert := o.Exp.Cert
	intake := lastIntake(o)
	switch {
	case o.Cfg.Strict && o.Cdp == "D" && o.Verdict == "accept" && !o.Exp.Inforce["D"]:
		c.Violation("history:unentitled-crl-satisfies-strict:intake="+intake, fmt.Sprintf("a CRL that no entitled issuer signed satisfies the strict gate for %s after intake path %s; cfg=%s", cert, intake, o.Cfg), hubReplay(o))
	case o.Verdict == "accept" && o.Exp.Listed[cert]:
		c.Violation("history:entitled-crl-displaced:intake="+intake, fmt.Sprintf("%s is listed by the CRL that is in force by policy, but was accepted: the list in use is not the entitled one (intake path %s); cfg=%s", cert, intake, o.Cfg), hubReplay(o))
	case o.Verdict == "revoked" && !o.Exp.Listed[cert]:
		c.Violation("history:unentitled-entries-revoke:intake="+intake, fmt.Sprintf("%s is revoked by entries of a CRL that never came into force by policy (intake path %s); cfg=%s", cert, intake, o.Cfg), hubReplay(o))
	}
}
