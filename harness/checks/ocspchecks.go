package checks

import (
	"crypto/x509"
	"encoding/json"
	"fmt"
	"math/rand"
	"os"
	"sync"
	"sync/atomic"
	"time"

	"golang.org/x/crypto/ocsp"

	"verif/harness/graph"
	"verif/harness/vk"
)

type ocspStep struct {
	Op     json.RawMessage `json:"op"`
	Expect json.RawMessage `json:"expect"`
	Real   *ocspReal       `json:"real,omitempty"`
}

type ocspObs struct {
	Cfg    OcspCfg
	Exp    ocspExpect
	Real   ocspReal
	List   []string
	Hist   []ocspStep
	CacheN int // items before the query
	Timed  bool
}

type ocspPred func(c *vk.Ctx, o *ocspObs)

var authenticClasses = map[string]bool{"good": true, "revoked": true, "unknown": true, "delegGood": true, "delegRevoked": true}

// runOcspWalk replays one walk of an Ocsp graph. timed: ticks sleep in real time.
func runOcspWalk(c *vk.Ctx, cfg OcspCfg, walk []*graph.Edge, seed int64, preds ...ocspPred) {
	w := newOcspWorld(cfg, seed)
	defer w.close()
	var hist []ocspStep
	for _, e := range walk {
		var op []any
		json.Unmarshal(e.Op, &op)
		var exp ocspExpect
		json.Unmarshal(e.Expect, &exp)
		switch op[0].(string) {
		case "tick":
			w.tick()
			hist = append(hist, ocspStep{Op: e.Op})
		case "flip":
			w.flip(op[1].(string))
			hist = append(hist, ocspStep{Op: e.Op})
		case "switch":
			w.switchLists(op[1].(string))
			hist = append(hist, ocspStep{Op: e.Op})
		case "query":
			v, cert := op[1].(string), op[2].(string)
			// unauthentic answers claim the status that would change the verdict if they were believed
			w.mu.Lock()
			if exp.Verdict == "accept" {
				w.claim[cert] = ocsp.Revoked
			} else {
				w.claim[cert] = ocsp.Good
			}
			w.mu.Unlock()
			before := cacheCount()
			real := w.query(v, cert)
			hist = append(hist, ocspStep{Op: e.Op, Expect: e.Expect, Real: &real})
			obs := &ocspObs{Cfg: cfg, Exp: exp, Real: real, List: append([]string(nil), w.lists[cert]...), Hist: hist, CacheN: before}
			c.Eval(cfg.Key() + "|" + e.From + "|" + string(e.Op))
			for _, p := range preds {
				p(c, obs)
			}
			// conformance
			if real.Verdict != exp.Verdict {
				c.Drift("ocsp-verdict:" + exp.Verdict + "->" + real.Verdict)
				if os.Getenv("VERIF_DEBUG") != "" {
					b, _ := json.Marshal(hist)
					fmt.Fprintf(os.Stderr, "DRIFT ocsp-verdict cfg=%s hist=%s\n", cfg.Key(), b)
				}
				return
			}
			if (exp.Served == "cache") != (len(real.Contacted) == 0 && len(exp.Contacted) == 0 && exp.Served == "cache") {
				c.Drift("ocsp-served")
				if os.Getenv("VERIF_DEBUG") != "" {
					b, _ := json.Marshal(hist)
					fmt.Fprintf(os.Stderr, "DRIFT ocsp-served cfg=%s hist=%s\n", cfg.Key(), b)
				}
				return
			}
			// only responders hosted on the scripted origin have a hit log
			var expVisible []int
			for _, i := range exp.Contacted {
				if cl := obs.List[i-1]; cl != "refused" && cl != "httpsUntrusted" {
					expVisible = append(expVisible, i)
				}
			}
			if fmt.Sprint(real.Contacted) != fmt.Sprint(expVisible) && !(len(real.Contacted) == 0 && len(expVisible) == 0) {
				c.Drift("ocsp-contacted")
				if os.Getenv("VERIF_DEBUG") != "" {
					b, _ := json.Marshal(hist)
					fmt.Fprintf(os.Stderr, "DRIFT ocsp-contacted cfg=%s hist=%s\n", cfg.Key(), b)
				}
				if exp.Served == "cache" || len(real.Contacted) == 0 {
					return
				}
			}
		}
		if c.Violations() > 6 {
			return
		}
	}
}

func cacheCount() int { return cacheTableCount() }

func hasHTTP(list []string) bool {
	for _, cl := range list {
		if cl != "ldap" {
			return true
		}
	}
	return false
}

// ---- C02 ---------------------------------------------------------------------------------------
func predC02(c *vk.Ctx, o *ocspObs) {
	r, e := o.Real, o.Exp
	if r.Verdict == "panic" {
		return
	}
	strict := o.Cfg.Strict[e.V]
	rep := map[string]any{"cfg": o.Cfg, "steps": o.Hist}
	if e.Status == "revoked" && r.Verdict == "accept" {
		c.Violation(fmt.Sprintf("revoked-accepted:served=%s:list=%v", e.Served, o.List),
			fmt.Sprintf("an authentic OCSP answer (%s) says revoked but the certificate was accepted; responders=%v strict=%v", e.Served, o.List, strict), rep)
	}
	if strict && hasHTTP(o.List) && e.Served == "none" && r.Verdict == "accept" {
		c.Violation(fmt.Sprintf("strict-accepted-without-answer:list=%v", o.List),
			fmt.Sprintf("ocsp_aia_strict is on, the certificate names HTTP responders %v, none gave an authentic answer and nothing valid is cached, yet it was accepted", o.List), rep)
	}
	if !strict && r.Verdict != "accept" && e.Status != "revoked" {
		c.Violation(fmt.Sprintf("lenient-denied:%s:list=%v", r.Verdict, o.List),
			fmt.Sprintf("ocsp_aia_strict is off and no authentic answer says revoked, yet verification failed (%s %s); responders=%v", r.Verdict, r.Err, o.List), rep)
	}
}

// predC02hub: the OCSP verdict is enforced by VerifyClientCertificate in every mode that enables OCSP.
func predC02hub(c *vk.Ctx, o *hubObs) {
	if o.Op[0] != "handshake" || !o.Cfg.OcspOn() || o.Exp.Cert != "c1" || !realDecided(o.Verdict) {
		return
	}
	switch {
	case o.Cfg.Ocsp == "revoked" && o.Verdict == "accept":
		c.Violation(fmt.Sprintf("validator:revoked-accepted:mode=%s", o.Cfg.Mode),
			fmt.Sprintf("mode %q enables OCSP, the responder says revoked, yet VerifyClientCertificate accepted (OCSP hits during the call: %d); cfg=%s", o.Cfg.Mode, o.OcspHits, o.Cfg), hubReplay(o))
	case o.Cfg.Ocsp == "down" && o.Cfg.Aia && o.Verdict == "accept":
		c.Violation(fmt.Sprintf("validator:strict-accepted-without-answer:mode=%s", o.Cfg.Mode),
			fmt.Sprintf("mode %q with ocsp_aia_strict: the only responder is unreachable, yet the certificate was accepted; cfg=%s", o.Cfg.Mode, o.Cfg), hubReplay(o))
	case o.Cfg.Ocsp != "revoked" && !(o.Cfg.Ocsp == "down" && o.Cfg.Aia) && o.Exp.Verdict == "accept" && o.Verdict != "accept" && o.Exp.Cause != "crl":
		c.Violation(fmt.Sprintf("validator:lenient-denied:mode=%s", o.Cfg.Mode), "OCSP gives no reason to deny, yet verification failed: "+o.Err, hubReplay(o))
	}
}

var c02Classes = []string{"good", "revoked", "unknown", "errStatus", "http500", "garbage", "refused", "wrongContent", "httpsUntrusted", "ldap"}

func ocspCfg(strict bool, dur int, nu string, la, lb []string) OcspCfg {
	if la == nil {
		la = []string{}
	}
	if lb == nil {
		lb = []string{}
	}
	return OcspCfg{Strict: map[string]bool{"v1": strict, "v2": !strict}, Dur: map[string]int{"v1": dur, "v2": 0}, Nu: nu, Lists: map[string][]string{"cA": la, "cB": lb}}
}

// C02 — OCSP soundness and AIA-strict semantics.
func C02(c *vk.Ctx) {
	rng := rand.New(rand.NewSource(c.Seed))
	var lists [][]string
	lists = append(lists, []string{})
	for _, a := range c02Classes {
		lists = append(lists, []string{a})
		for _, b := range c02Classes {
			lists = append(lists, []string{a, b})
		}
	}
	n3 := c.Pick(40, 1000)
	for i := 0; i < n3; i++ {
		lists = append(lists, []string{c02Classes[rng.Intn(10)], c02Classes[rng.Intn(10)], c02Classes[rng.Intn(10)]})
	}
	var cfgs []OcspCfg
	seen := map[string]bool{}
	for _, l := range lists {
		for _, strict := range []bool{false, true} {
			for _, dur := range []int{0, 2} {
				cfg := ocspCfg(strict, dur, "absent", l, nil)
				if !seen[cfg.Key()] {
					seen[cfg.Key()] = true
					cfgs = append(cfgs, cfg)
				}
			}
		}
	}
	gs, res := exportOcspGraphs(c, cfgs, 0, 2, "absolute", "issuer")
	c.Add("states", res.Distinct)
	var trans int64
	walks := 0
	for i, g := range gs {
		trans += int64(len(g.Edges))
		cfg := cfgs[i]
		// refused / https responders cost nothing special; every configuration: query v1 twice (second one may be served from cache) and v2 once
		g.AllPaths(2, func(p []*graph.Edge) {
			if len(p) != 2 || c.Violations() > 6 {
				return
			}
			var op0, op1 []any
			json.Unmarshal(p[0].Op, &op0)
			json.Unmarshal(p[1].Op, &op1)
			if op0[0] != "query" || op1[0] != "query" || op0[2] != "cA" || op1[2] != "cA" {
				return
			}
			if !c.Thorough() && op0[1] != op1[1] && rng.Intn(3) != 0 {
				return
			}
			runOcspWalk(c, cfg, append([]*graph.Edge(nil), p...), c.Seed*7919+int64(walks), predC02)
			walks++
		})
		if i%150 == 0 {
			c.Sample(map[string]any{"cfg": cfg})
		}
	}
	// the other certificate first: same subject and serial under the other issuer (in a third of the worlds the issuers carry the
	// same name, in another third the same key identifier) is queried on the same instance before cA is. Whatever the instance
	// learnt from that query - candidates, answers, cache entries - the three properties hold for cA as if it had come first.
	var cfgs2 []OcspCfg
	for _, a := range c02Classes {
		for _, strict := range []bool{false, true} {
			for _, dur := range []int{0, 2} {
				for _, lb := range [][]string{{"good"}, {"revoked"}} {
					cfgs2 = append(cfgs2, ocspCfg(strict, dur, "absent", []string{a}, lb))
				}
			}
		}
	}
	gs2, res2 := exportOcspGraphs(c, cfgs2, 0, 2, "absolute", "issuer")
	c.Add("states", res2.Distinct)
	for i, g := range gs2 {
		trans += int64(len(g.Edges))
		cfg := cfgs2[i]
		g.AllPaths(2, func(p []*graph.Edge) {
			if len(p) != 2 || c.Violations() > 6 {
				return
			}
			var op0, op1 []any
			json.Unmarshal(p[0].Op, &op0)
			json.Unmarshal(p[1].Op, &op1)
			if op0[0] != "query" || op1[0] != "query" || op0[2] != "cB" || op1[2] != "cA" || op0[1] != op1[1] {
				return
			}
			runOcspWalk(c, cfg, append([]*graph.Edge(nil), p...), c.Seed*7927+int64(walks), predC02)
			walks++
		})
	}
	// through the whole validator: every mode that enables OCSP must enforce the OCSP verdict, whatever the CRL side says
	var hcfgs []HubCfg
	for _, mode := range []string{"unset", "prefer_ocsp", "prefer_crl", "ocsp_only"} {
		for _, oc := range []string{"revoked", "down", "good"} {
			for _, aia := range []bool{false, true} {
				hcfgs = append(hcfgs, HubCfg{Mode: mode, Sig: "verify", Strict: false, Fetch: "actively", Disk: false, Conf: "none", Ocsp: oc, Aia: aia})
			}
		}
	}
	hgs, hres := exportHubGraphs(c, hcfgs, nil, 2)
	c.Add("hub_states", hres.Distinct)
	hubWalks := 0
	for ci, g := range hgs {
		trans += int64(len(g.Edges))
		pg := pruneDown(g, 0, rng)
		pg.AllPaths(2, func(p []*graph.Edge) {
			if len(p) != 2 || c.Violations() > 6 || opName(p[1]) == "cleanup" {
				return
			}
			hubWalks++
			runHubWalk(c, hcfgs[ci], append([]*graph.Edge(nil), p...), RandomShape(rng), c.Seed*50021+int64(walks), predC02hub)
			walks++
		})
	}
	if hubWalks < 24*10 {
		c.Infra("the validator-level part was replayed on %d cells only: it would be vacuous", hubWalks)
	}
	c.Set("transitions", trans)
	// the issuer is not at hand: the chain that is handed over lacks it (the TLS stack verified through another path), or holds
	// another CA. No request can be built, nobody is asked - which is "no responder supplies an authentic answer": the strict
	// instance denies a certificate that names http responders, the lenient one does not, whatever the responders would have said.
	for _, first := range []string{"good", "revoked"} {
		for shape := 0; shape < 2; shape++ {
			w := newOcspWorld(ocspCfg(true, 0, "absent", []string{first}, []string{"good"}), c.Seed*37+int64(shape))
			bare := [][]*x509.Certificate{{w.leaves["cA"].Cert}}
			if shape == 1 {
				bare = [][]*x509.Certificate{{w.leaves["cA"].Cert, w.stranger.Cert}}
			}
			for _, v := range []string{"v1", "v2"} { // v1 strict, v2 lenient
				verdict, errText := "accept", ""
				before := fmt.Sprint(w.hitsOf("cA"))
				func() {
					defer func() {
						if p := recover(); p != nil {
							verdict, errText = "panic", fmt.Sprint(p)
						}
					}()
					st, err := w.checkers[v].IsRevoked(w.leaves["cA"].Cert, bare)
					if err != nil {
						verdict, errText = "error", err.Error()
					} else if st != nil && st.Revoked {
						verdict = "revoked"
					}
				}()
				c.Eval(fmt.Sprintf("issuer-not-at-hand|%s|%d|%s", first, shape, v))
				walks++
				if fmt.Sprint(w.hitsOf("cA")) != before {
					// a responder WAS asked: in this world the issuer certificate is at hand after all (it is among the configured trusted
					// responder certificates, where issuer candidates are looked for as well) - not a case of this experiment
					continue
				}
				rep := map[string]any{"responder_would_say": first, "chain": []string{"leaf only", "leaf + unrelated CA"}[shape], "strict": v == "v1", "verdict": verdict, "err": errText}
				switch {
				case v == "v1" && verdict == "accept":
					c.Violation("strict-accepted-without-answer:issuer-not-at-hand", "ocsp_aia_strict is on, the certificate names an http responder, its issuer certificate is not in the chain handed over: nobody was asked and the certificate was accepted", rep)
				case v == "v2" && verdict != "accept":
					c.Violation("lenient-denied:issuer-not-at-hand", fmt.Sprintf("ocsp_aia_strict is off and nobody could be asked, but the lookup ended with %s %s", verdict, errText), rep)
				}
			}
			w.close()
		}
	}
	// many lookups truly in parallel (no gate): cA's responder says good, cB's says revoked, nothing is cached. The specification's
	// answer for every single lookup is the one it yields alone (OcspFlight.tla: OwnAnswerOnly); a revoked certificate accepted, or
	// a lenient lookup denied, under this load is the property failing for a particular interleaving.
	{
		w := newOcspWorld(ocspCfg(false, 0, "absent", []string{"good"}, []string{"revoked"}), c.Seed*31+7)
		var wg sync.WaitGroup
		var acceptedRevoked, deniedGood atomic.Int64
		per := c.Pick(150, 1500)
		for g := 0; g < 12; g++ {
			cert := []string{"cA", "cB"}[g%2]
			wg.Add(1)
			go func() {
				defer wg.Done()
				for k := 0; k < per; k++ {
					st, err := w.checkers["v1"].IsRevoked(w.leaves[cert].Cert, w.chains[cert])
					revoked := err == nil && st != nil && st.Revoked
					if cert == "cB" && !revoked {
						acceptedRevoked.Add(1)
					}
					if cert == "cA" && (err != nil || revoked) {
						deniedGood.Add(1)
					}
				}
			}()
		}
		wg.Wait()
		w.close()
		c.Eval("parallel-lookups")
		walks++
		if n := acceptedRevoked.Load(); n > 0 {
			c.Violation("parallel:revoked-accepted", fmt.Sprintf("%d of %d parallel lookups of a certificate whose responder answers an authentic 'revoked' were not rejected (lenient instance, 12 goroutines, no cache)", n, 6*per), map[string]any{"lookups": 12 * per})
		}
		if n := deniedGood.Load(); n > 0 {
			c.Violation("parallel:good-denied", fmt.Sprintf("%d of %d parallel lookups of a certificate whose responder answers an authentic 'good' were denied", n, 6*per), map[string]any{"lookups": 12 * per})
		}
	}
	// the same three properties while other queries are in flight at a responder shared by two issuers (OcspFlight.tla)
	walks += ocspFlight(c, "C02", rand.New(rand.NewSource(c.Seed+2)))
	c.Set("traces_validated_against_impl", int64(walks))
	c.Set("spec", "Ocsp.tla: RevokedRejects, StrictNeedsAnswer, LenientNeverDenies, WalkStops over all responder lists of length 0..2 (and seeded length 3) over 10 behaviour classes x strict x default duration {0, >0}; two queries per behaviour so that the second may be served from the cache")
	c.Set("rule", "a case is (responder list, strict, cache duration, query pair) executed on real OCSPRevocationCheckers against scripted responders with real signed responses; predicates are directional: authentic revoked accepted; strict accepted without authentic answer; lenient denied without authentic revoked")
	c.Assume("responses are produced by x/crypto/ocsp.CreateResponse; 'connection refused' is a closed local port, 'https untrusted' an httptest TLS server with a self-signed certificate")
	_ = time.Now
}

// ---- C05 ---------------------------------------------------------------------------------------
func firstUncounted(list []string) string {
	for _, cl := range list {
		if !authenticClasses[cl] && cl != "ldap" {
			return cl
		}
	}
	return "none"
}

func predC05(c *vk.Ctx, o *ocspObs) {
	r, e := o.Real, o.Exp
	if r.Verdict == "panic" {
		return
	}
	strict := o.Cfg.Strict[e.V]
	rep := map[string]any{"cfg": o.Cfg, "steps": o.Hist}
	bad := firstUncounted(o.List)
	if bad == "none" || e.Served == "cache" {
		return
	}
	// an answer that does not count must be treated as no answer
	if r.Verdict != e.Verdict {
		c.Violation(fmt.Sprintf("uncounted-answer-influences-verdict:class=%s:strict=%v:%s->%s", bad, strict, e.Verdict, r.Verdict),
			fmt.Sprintf("responders %v: the answer of class %q must be treated as no answer (expected verdict %s), but the verdict was %s %s", o.List, bad, e.Verdict, r.Verdict, r.Err), rep)
	}
	if e.Served == "none" && r.CacheN > o.CacheN {
		c.Violation(fmt.Sprintf("uncounted-answer-cached:class=%s", bad),
			fmt.Sprintf("responders %v: an answer of class %q was put into the cache", o.List, bad), rep)
	}
}

var c05NoAnswer = []string{"stranger", "strangerEmbedded", "lookalikeEmbedded", "ownCert", "ownCertBare", "ownCertAsIssuer", "delegNoEku", "delegNoEkuBare", "delegNoEkuAsIssuer", "otherDelegBare", "otherDelegEmbedded", "sibling", "otherSerial", "errStatus", "http500", "garbage", "wrongContent"}

// C05 — OCSP authenticity.
func C05(c *vk.Ctx) {
	var cfgs []OcspCfg
	for _, strict := range []bool{false, true} {
		for _, dur := range []int{0, 2} {
			for _, cl := range []string{"good", "revoked", "unknown", "delegGood", "delegRevoked"} {
				cfgs = append(cfgs, ocspCfg(strict, dur, "absent", []string{cl}, nil))
			}
			for _, cl := range c05NoAnswer {
				cfgs = append(cfgs, ocspCfg(strict, dur, "absent", []string{cl}, nil))
				cfgs = append(cfgs, ocspCfg(strict, dur, "absent", []string{cl, "good"}, nil))
				cfgs = append(cfgs, ocspCfg(strict, dur, "absent", []string{cl, "revoked"}, nil))
				cfgs = append(cfgs, ocspCfg(strict, dur, "absent", []string{cl, "delegGood"}, nil))
			}
		}
	}
	// histories: an unauthorised key first answers with its certificate embedded, later (or at the next responder) without it
	for _, strict := range []bool{false, true} {
		for _, dur := range []int{0, 2} {
			for _, pair := range [][2]string{{"ownCert", "ownCertBare"}, {"delegNoEku", "delegNoEkuBare"}, {"strangerEmbedded", "stranger"}, {"delegGood", "delegNoEkuBare"}} {
				cfgs = append(cfgs, ocspCfg(strict, dur, "absent", []string{pair[0], pair[1]}, nil))
				sw := ocspCfg(strict, dur, "absent", []string{pair[0]}, nil)
				sw.Alt = map[string][]string{"cA": {pair[1]}, "cB": {}}
				cfgs = append(cfgs, sw)
			}
		}
	}
	// histories: an answer that does not count leaves no memory; whatever the responder said before, the authentic answer it gives
	// at the next handshake decides
	for _, strict := range []bool{false, true} {
		for _, dur := range []int{0, 2} {
			for _, cl := range c05NoAnswer {
				for _, then := range []string{"revoked", "good"} {
					sw := ocspCfg(strict, dur, "absent", []string{cl}, nil)
					sw.Alt = map[string][]string{"cA": {then}, "cB": {}}
					cfgs = append(cfgs, sw)
				}
			}
		}
	}
	gs, res := exportOcspGraphs(c, cfgs, 0, 3, "absolute", "issuer")
	c.Set("states", res.Distinct)
	var trans int64
	walks := 0
	for i, g := range gs {
		trans += int64(len(g.Edges))
		cfg := cfgs[i]
		// an "errStatus" responder is tried with each of the five error statuses as its first answer
		rounds := 1
		for _, l := range [][]string{cfg.Lists["cA"], cfg.Alt["cA"]} {
			for _, cl := range l {
				if cl == "errStatus" {
					rounds = len(ocspErrCodes)
				}
			}
		}
		depth := 2
		if cfg.Alt != nil {
			depth = 3
		}
		g.AllPaths(depth, func(p []*graph.Edge) {
			if len(p) != depth || c.Violations() > 12 {
				return
			}
			for _, e := range p {
				var op []any
				json.Unmarshal(e.Op, &op)
				if op[0] == "flip" || (op[0] == "query" && op[2] != "cA") || (op[0] == "switch" && op[1] != "cA") {
					return
				}
			}
			if cfg.Alt != nil && opName(p[1]) != "switch" {
				return
			}
			for r := 0; r < rounds; r++ {
				runOcspWalk(c, cfg, append([]*graph.Edge(nil), p...), (c.Seed*104729+int64(walks))*5+int64(r), predC05)
				walks++
			}
		})
		if i%60 == 0 {
			c.Sample(map[string]any{"cfg": cfg})
		}
	}
	walks += c05Mutations(c)
	c.Set("transitions", trans)
	// queries with a duration, several in flight at the same responder (OcspFlight.tla): only the reply about THIS certificate counts
	walks += ocspFlight(c, "C05", rand.New(rand.NewSource(c.Seed+5)))
	c.Set("traces_validated_against_impl", int64(walks))
	c.Set("spec", "Ocsp.tla: Counts(class) is the requirement (successful response, signed by the issuer or by a responder the issuer authorised for OCSP signing, about exactly this serial); OnlyCounted proved for single responders of every class and for every uncounted class followed by an authentic good / revoked / delegated answer, strict x cache duration")
	c.Set("rule", "a case is (responder list, strict, cache duration, two queries) on real checkers; unauthentic responders claim the status that would flip the verdict if believed; violation iff the verdict differs from the specification's or such an answer is cached; plus byte mutations of an authentic response inside tbsResponseData / signature which must turn it into no answer")
	c.Assume("signers: issuer, issuer-delegated responder with and without the OCSPSigning EKU, the client's own certificate, a self-signed stranger with and without embedded certificate, a sibling CA with the issuer's name and key identifier; every error status (malformedRequest, internalError, tryLater, sigRequired, unauthorized) as the first answer of an error-status responder; responders that stand for real software decode the request and answer only a well-formed request naming the certificate")
}

// pathByOps follows the edges whose operation equals the given ones, from the initial state; nil if some step has no such edge.
func pathByOps(g *graph.Graph, ops [][]any) []*graph.Edge {
	cur := g.Init
	var out []*graph.Edge
	for _, want := range ops {
		wb, _ := json.Marshal(want)
		var next *graph.Edge
		for _, e := range g.Out[cur] {
			var op []any
			json.Unmarshal(e.Op, &op)
			ob, _ := json.Marshal(op)
			if string(ob) == string(wb) {
				next = e
				break
			}
		}
		if next == nil {
			return nil
		}
		out = append(out, next)
		cur = next.To
	}
	return out
}

// ---- C14 ---------------------------------------------------------------------------------------
func predC14(c *vk.Ctx, o *ocspObs) {
	r, e := o.Real, o.Exp
	if r.Verdict == "panic" {
		return
	}
	rep := map[string]any{"cfg": o.Cfg, "steps": o.Hist, "tick_ms": ocspTick.Milliseconds()}
	visible := false // would a fresh query have been seen by the hit log?
	for _, i := range e.Contacted {
		if cl := o.List[i-1]; cl != "refused" && cl != "httpsUntrusted" {
			visible = true
		}
	}
	if e.Served != "cache" && visible && len(r.Contacted) == 0 {
		// the code answered without asking anybody although the specification has no valid entry for this certificate
		why := "stale-entry-served-after-lifetime"
		if e.Kind == "query" && o.Cfg.Dur[e.V] == 0 && o.Cfg.Nu != "future" && cacheItemsFor(o, e.C) == 0 {
			why = "entry-of-another-certificate-or-instance-served"
		}
		if !sawOwnEntry(o) {
			why = "entry-of-another-certificate-served"
		}
		c.Violation(fmt.Sprintf("%s:nu=%s", why, o.Cfg.Nu),
			fmt.Sprintf("query %s/%s was answered %q from the cache although the specification has no valid entry for this certificate at time %d (lists %v)", e.V, e.C, r.Verdict, nowOf(o), o.Cfg.Lists), rep)
	}
	if e.Served == "none" && r.Verdict != e.Verdict && (r.Verdict == "accept" || r.Verdict == "revoked") {
		// no valid entry and no authentic answer now, yet the verdict is not the one of "no answer": is it the status of an entry
		// of this certificate whose lifetime has ended (a status used beyond its lifetime, by whatever route)?
		if st := lastOwnStatus(o); st != "" && (st == "revoked") == (r.Verdict == "revoked") {
			c.Violation(fmt.Sprintf("expired-status-decides-after-failed-query:nu=%s:status=%s", o.Cfg.Nu, st),
				fmt.Sprintf("query %s/%s: no responder gave an authentic answer and the entry cached earlier (%s) is past its lifetime at time %d, yet the verdict is %q instead of %q", e.V, e.C, st, nowOf(o), r.Verdict, e.Verdict), rep)
		}
	}
	if e.Served == "none" && r.CacheN > o.CacheN {
		c.Violation("failed-query-cached", "a query without authentic answer left an item in the cache", rep)
	}
	if e.Served == "fresh" && e.CachedLife == 0 && r.CacheN > o.CacheN {
		c.Violation("cached-with-zero-duration", "default_cache_duration is zero and the answer has no usable nextUpdate, yet it was cached", rep)
	}
	if e.Served == "fresh" && r.Answered && len(r.Contacted) > 0 {
		var nominal time.Duration
		switch {
		case o.Cfg.Nu == "future":
			nominal = time.Hour + 900*time.Second
		case o.Cfg.Dur[e.V] > 0:
			nominal = time.Duration(o.Cfg.Dur[e.V])*ocspTick - ocspTick/2
		}
		if r.Life > nominal+time.Second {
			c.Violation(fmt.Sprintf("lifetime-too-long:nu=%s", o.Cfg.Nu),
				fmt.Sprintf("the answer was cached for %v, the rule allows %v (nextUpdate + 15 min skew, or the default duration)", r.Life, nominal), rep)
		}
	}
}

func nowOf(o *ocspObs) int {
	n := 0
	for _, s := range o.Hist {
		var op []any
		json.Unmarshal(s.Op, &op)
		if op[0] == "tick" {
			n++
		}
	}
	return n
}

// sawOwnEntry: did an earlier query of this walk cache an answer for the same certificate?
func sawOwnEntry(o *ocspObs) bool {
	for _, s := range o.Hist[:len(o.Hist)-1] {
		if s.Expect == nil {
			continue
		}
		var e ocspExpect
		json.Unmarshal(s.Expect, &e)
		if e.C == o.Exp.C && e.Served == "fresh" && e.CachedLife > 0 {
			return true
		}
	}
	return false
}

// lastOwnStatus: the status that the last cached authentic answer for this certificate carried ("" if none was cached).
func lastOwnStatus(o *ocspObs) string {
	st := ""
	for _, s := range o.Hist[:len(o.Hist)-1] {
		if s.Expect == nil {
			continue
		}
		var e ocspExpect
		json.Unmarshal(s.Expect, &e)
		if e.C == o.Exp.C && e.Served == "fresh" && e.CachedLife > 0 {
			st = e.Status
		}
	}
	return st
}

func cacheItemsFor(o *ocspObs, cert string) int {
	n := 0
	for _, s := range o.Hist[:len(o.Hist)-1] {
		if s.Expect == nil {
			continue
		}
		var e ocspExpect
		json.Unmarshal(s.Expect, &e)
		if e.C == cert && e.CachedLife > 0 {
			n++
		}
	}
	return n
}

// C14 — OCSP cache soundness.
func C14(c *vk.Ctx) {
	rng := rand.New(rand.NewSource(c.Seed))
	mk := func(nu string, la, lb []string, d1, d2 int) OcspCfg {
		return OcspCfg{Strict: map[string]bool{"v1": false, "v2": true}, Dur: map[string]int{"v1": d1, "v2": d2}, Nu: nu, Lists: map[string][]string{"cA": la, "cB": lb}}
	}
	timed := []OcspCfg{
		mk("absent", []string{"good"}, []string{"revoked"}, 2, 0),
		mk("past", []string{"good"}, []string{"good"}, 2, 2),
		mk("absent", []string{"garbage", "good"}, []string{"stranger"}, 2, 0),
		mk("absent", []string{"delegGood"}, []string{"good"}, 0, 0),
	}
	gs, res := exportOcspGraphs(c, timed, 4, 4, "absolute", "issuer")
	c.Add("states", res.Distinct)
	walks := 0
	var trans int64
	budget := c.Pick(45, 1500)
	for i, g := range gs {
		trans += int64(len(g.Edges))
		tour := g.Tour(8, rng)
		rng.Shuffle(len(tour), func(a, b int) { tour[a], tour[b] = tour[b], tour[a] })
		for wi, w := range tour {
			if wi >= budget/len(gs) || c.Violations() > 8 {
				break
			}
			runOcspWalk(c, timed[i], w, c.Seed*31337+int64(walks), predC14)
			walks++
			if wi == 0 {
				c.Sample(map[string]any{"cfg": timed[i], "ops": opsOf(w, 8)})
			}
		}
	}
	// histories in which the responder stops answering after the entry was cached: once the lifetime is over every query has to
	// ask again, a failed query leaves nothing behind that a later one could be answered from
	var sw []OcspCfg
	for _, then := range []string{"http500", "errStatus", "garbage", "wrongContent"} {
		cfg := mk("absent", []string{"good"}, []string{"good"}, 2, 2)
		cfg.Alt = map[string][]string{"cA": {then}, "cB": {"good"}}
		sw = append(sw, cfg)
	}
	gsw, ressw := exportOcspGraphs(c, sw, 4, 6, "absolute", "issuer")
	c.Add("states", ressw.Distinct)
	q := func(v string) []any { return []any{"query", v, "cA"} }
	tick, swOp := []any{"tick"}, []any{"switch", "cA"}
	for i, g := range gsw {
		trans += int64(len(g.Edges))
		for _, v := range []string{"v1", "v2"} {
			for _, ops := range [][][]any{
				// the entry is left alone until its lifetime is over
				{q(v), tick, tick, tick, swOp, q(v), q(v), q(v)},
				// the entry is read in every time unit (which keeps it in the table) until its lifetime is over
				{q(v), tick, q(v), tick, swOp, q(v), q(v), q(v)},
				{q(v), tick, q(v), tick, q(v), swOp, tick, q(v), q(v)},
			} {
				w := pathByOps(g, ops)
				if w == nil {
					c.Drift("c14-switch-history-not-in-graph")
					continue
				}
				runOcspWalk(c, sw[i], w, c.Seed*613+int64(walks), predC14)
				walks++
			}
		}
	}
	// nextUpdate in the future: the lifetime is read back through the hook (no waiting for 15 minutes of skew)
	future := []OcspCfg{mk("future", []string{"good"}, []string{"revoked"}, 2, 0), mk("future", []string{"revoked"}, []string{"good"}, 0, 0)}
	gf, resf := exportOcspGraphs(c, future, 1, 3, "absolute", "issuer")
	c.Add("states", resf.Distinct)
	for i, g := range gf {
		trans += int64(len(g.Edges))
		for wi, w := range g.Tour(5, rng) {
			if wi >= c.Pick(12, 200) || c.Violations() > 8 {
				break
			}
			runOcspWalk(c, future[i], w, c.Seed*271+int64(walks), predC14)
			walks++
		}
	}
	c.Set("transitions", trans)
	c.Set("traces_validated_against_impl", int64(walks))
	c.Set("spec", "Ocsp.tla with discrete time: KeyRight, Bounded, ZeroMeansNone, FailuresNotCached (action properties), LifetimeRule (invariant); two certificates with the same subject and serial under different issuers, two validator instances sharing the table, status flips, Expiry = absolute, KeyBy = issuer")
	c.Set("rule", "a case is one edge (tick / flip / query) of the cache graph executed in real time (1 unit = 120 ms, default duration configured as n units minus half a unit so that every comparison has a 60 ms margin); violation only in the direction a slow machine cannot cause: an answer served from the cache when the specification has no valid entry for that certificate; cached although it must not be; reported lifetime longer than the rule allows")
	c.Assume("lifetimes derived from nextUpdate (+15 min skew) are read back through the ocsp.answer hook instead of being waited for")
}
