package checks

import (
	"encoding/json"
	"fmt"
	"math/big"
	"math/rand"
	"os"
	"path/filepath"
	"sync"
	"sync/atomic"
	"time"

	"verif/harness/graph"

	"verif/harness/origin"
	"verif/harness/pki"
	"verif/harness/vk"
	"verif/harness/world"
)

func realDecided(v string) bool { return v == "accept" || v == "revoked" || v == "error" }

// ---- C01: listed in a CRL in force => rejected --------------------------------------------------
func predC01(c *vk.Ctx, o *hubObs) {
	if o.Op[0] != "handshake" || !o.Cfg.CrlOn() || !realDecided(o.Verdict) {
		return
	}
	cert := o.Exp.Cert
	if o.Exp.Listed[cert] && o.Verdict == "accept" {
		src := "D"
		if cert == "c2" && !o.Exp.Inforce["D"] {
			src = "U"
		}
		c.Violation(fmt.Sprintf("sound:accepted-listed:cert=%s:src=%s:ocsp=%s", cert, src, o.Cfg.Ocsp),
			fmt.Sprintf("certificate %s is listed in a CRL in force (specification ghost state) but VerifyClientCertificate accepted it; cfg=%s shape=%s", cert, o.Cfg, o.Shape),
			hubReplay(o))
	}
}

// ---- C11: reported revoked => listed in a CRL in force ------------------------------------------
func predC11(c *vk.Ctx, o *hubObs) {
	if o.Op[0] != "handshake" || !realDecided(o.Verdict) {
		return
	}
	cert := o.Exp.Cert
	ocspRevoked := o.Cfg.OcspOn() && cert == "c1" && o.Cfg.Ocsp == "revoked"
	if o.Verdict == "revoked" && !o.Exp.Listed[cert] && !ocspRevoked {
		c.Violation(fmt.Sprintf("precise:revoked-unlisted:cert=%s:after-rejected-load=%v", cert, o.SawRej),
			fmt.Sprintf("certificate %s reported revoked although no CRL in force lists it; cfg=%s shape=%s", cert, o.Cfg, o.Shape), hubReplay(o))
	}
}

// ---- C10: CDP strictness ---------------------------------------------------------------------------
func predC10(c *vk.Ctx, o *hubObs) {
	if o.Op[0] != "handshake" || !o.Cfg.CrlOn() || !realDecided(o.Verdict) || o.Exp.Cause != "crl" {
		return
	}
	cert := o.Exp.Cert
	if o.Cfg.Strict && o.Cdp != "none" && o.Verdict == "accept" && !(o.Cdp == "D" && o.Exp.Inforce["D"]) {
		c.Violation(fmt.Sprintf("strict:accepted-without-crl-in-force:cdp=%s:fetch=%s", o.Cdp, o.Cfg.Fetch),
			fmt.Sprintf("crl_cdp_strict is on, %s names distribution points, no CRL for them is in force, yet it was accepted; cfg=%s", cert, o.Cfg), hubReplay(o))
	}
	if !o.Cfg.Strict && o.Verdict != "accept" && !o.Exp.Listed[cert] {
		c.Violation(fmt.Sprintf("lenient:denied-by-cdp-trouble:cdp=%s:verdict=%s", o.Cdp, o.Verdict),
			fmt.Sprintf("crl_cdp_strict is off and %s is not listed anywhere, yet the handshake was denied (%s: %s); cfg=%s", cert, o.Verdict, o.Err, o.Cfg), hubReplay(o))
	}
}

// ---- C16: the signature policy means the same on every intake path -------------------------------
func predC16(c *vk.Ctx, o *hubObs) {
	sig := o.Cfg.Sig
	if o.Op[0] == "provision" {
		restart := len(o.Hist) > 1
		if o.Exp.OK && !o.ProvOK {
			c.Violation(fmt.Sprintf("provision-rejects-acceptable-crl:sig=%s:fetch=%s:restart=%v", sig, o.Cfg.Fetch, restart),
				fmt.Sprintf("the configured CRL is acceptable under signature mode %q but Provision failed: %s; cfg=%s", sig, o.ProvErr, o.Cfg), hubReplay(o))
		}
		if !o.Exp.OK && o.ProvOK && sig == "verify" && o.Loaded["U"] {
			c.Violation(fmt.Sprintf("verify:unverified-configured-crl-in-force:restart=%v", restart),
				fmt.Sprintf("under verify the configured CRL cannot be verified, yet Provision succeeded with the entry loaded; cfg=%s", o.Cfg), hubReplay(o))
		}
		return
	}
	if (o.Op[0] == "refresh" || o.Op[0] == "bgload") && o.Cfg.CrlOn() && sig != "verify" && o.Fetched != nil {
		// "... is accepted and keeps being refreshed even when its signer cannot be verified": a pass contacts the origin of every
		// CRL that was taken in (model and code agreed on every observable up to this step)
		for _, l := range []string{"D", "U"} {
			if (l == "U" && o.Cfg.Conf != "url") || o.Exp.Fetch[l] == 0 || o.Fetched[l] > 0 || (o.Refetched != nil && o.Refetched[l] > 0) {
				continue // (fetched, or fetched by the second pass that was run to make sure: a transient, not "no longer refreshed")
			}
			c.Violation(fmt.Sprintf("%s:crl-no-longer-refreshed:loc=%s:intake=%s", sig, l, lastIntake(o)),
				fmt.Sprintf("under %s the %s pass did not fetch location %s again although that CRL had been taken in; cfg=%s", sig, o.Op[0], l, o.Cfg), hubReplay(o))
		}
		return
	}
	if o.Op[0] != "handshake" || !o.Cfg.CrlOn() || !realDecided(o.Verdict) || o.Exp.Cause != "crl" {
		return
	}
	cert := o.Exp.Cert
	intake := lastIntake(o)
	if sig == "verify" {
		if o.Cfg.Strict && o.Cdp == "D" && o.Verdict == "accept" && !o.Exp.Inforce["D"] {
			c.Violation(fmt.Sprintf("verify:unverified-crl-in-force:intake=%s", intake),
				fmt.Sprintf("under verify a CRL that policy rejects satisfies the strict gate for %s; cfg=%s", cert, o.Cfg), hubReplay(o))
		}
		if o.Verdict == "revoked" && !o.Exp.Listed[cert] {
			c.Violation(fmt.Sprintf("verify:rejected-entries-revoke:intake=%s", intake),
				fmt.Sprintf("under verify, entries of a CRL that was never accepted revoke %s; cfg=%s", cert, o.Cfg), hubReplay(o))
		}
	} else {
		if o.Exp.Listed[cert] && o.Verdict == "accept" {
			c.Violation(fmt.Sprintf("%s:acceptable-crl-not-in-force:intake=%s", sig, intake),
				fmt.Sprintf("under %s a parseable CRL listing %s must be in force after intake path %s, but the certificate was accepted; cfg=%s", sig, cert, intake, o.Cfg), hubReplay(o))
		}
		if o.Cfg.Strict && o.Cdp == "D" && o.Exp.Inforce["D"] && o.Verdict == "error" {
			c.Violation(fmt.Sprintf("%s:acceptable-crl-not-loaded:intake=%s", sig, intake),
				fmt.Sprintf("under %s the CDP CRL is acceptable and should be in force, but strict mode denied %s (%s); cfg=%s", sig, cert, o.Err, o.Cfg), hubReplay(o))
		}
	}
}

// lastIntake names the most recent step of the walk that fetched a CRL.
func lastIntake(o *hubObs) string {
	last := "none"
	restarted := false
	for i, st := range o.Hist {
		var op []any
		jsonUnmarshal(st.Op, &op)
		var exp hubExpect
		jsonUnmarshal(st.Expect, &exp)
		switch op[0] {
		case "cleanup":
			restarted = true
		case "provision":
			if exp.Fetch["U"] > 0 {
				last = "provision"
				if i > 0 {
					last = "provision-after-restart"
				}
			}
		case "handshake":
			if exp.Fetch["D"] > 0 {
				last = "first-cdp-fetch"
				if restarted {
					last = "first-cdp-fetch-after-restart"
				}
			}
		case "refresh":
			if exp.Fetch["D"] > 0 || exp.Fetch["U"] > 0 {
				last = "refresh"
				if restarted {
					last = "refresh-after-restart"
				}
			}
		case "bgload":
			if exp.Fetch["D"] > 0 || exp.Fetch["U"] > 0 {
				last = "background-load"
			}
		}
	}
	return last
}

// ---- C03: the verdict is exactly what the mode promises --------------------------------------------
func predC03(c *vk.Ctx, o *hubObs) {
	if (o.Op[0] != "handshake" && o.Op[0] != "handshake-nochain") || !realDecided(o.Verdict) {
		return
	}
	expRej := o.Exp.Verdict != "accept"
	realRej := o.Verdict != "accept"
	if o.Cfg.Ocsp == "dyncache" && expRej != realRej {
		// remembering an OCSP answer is optional: the verdict of an implementation that asks the responder again is the promise too
		if o.Exp.Alt == "any" || (o.Exp.Alt != "") && (o.Exp.Alt != "accept") == realRej {
			return
		}
	}
	if expRej != realRej {
		c.Violation(fmt.Sprintf("mode=%s:expected-%s-got-%s:cause=%s", o.Cfg.Mode, o.Exp.Verdict, o.Verdict, o.Exp.Cause),
			fmt.Sprintf("mode %q promises %q for %s (OCSP=%s aia_strict=%v, cdp_strict=%v) but the handshake returned %q (%s); cfg=%s",
				o.Cfg.Mode, o.Exp.Verdict, o.Exp.Cert, o.Cfg.Ocsp, o.Cfg.Aia, o.Cfg.Strict, o.Verdict, o.Err, o.Cfg), hubReplay(o))
	}
	// touch sets
	if !o.Cfg.CrlOn() && (o.Fetched["D"] > 0 || o.Fetched["U"] > 0) {
		c.Violation(fmt.Sprintf("mode=%s:touches-crl-origin", o.Cfg.Mode), "a mode that does not enable CRL checking fetched a CRL", hubReplay(o))
	}
	if !o.Cfg.CrlOn() && o.WorkDirEntries > 0 {
		c.Violation(fmt.Sprintf("mode=%s:touches-work-dir", o.Cfg.Mode), "a mode that does not enable CRL checking created files in work_dir", hubReplay(o))
	}
	if !o.Cfg.OcspOn() && o.OcspHits > 0 {
		c.Violation(fmt.Sprintf("mode=%s:contacts-ocsp-responder", o.Cfg.Mode), "a mode that does not enable OCSP contacted the responder", hubReplay(o))
	}
}

// c03Histories: the promise holds for every handshake of a history, not only for the first: what one mechanism said in an
// earlier handshake (a CRL that listed the certificate and was replaced since, an OCSP answer that is cached) leaves nothing
// behind in the other one.
func c03Histories(c *vk.Ctx) {
	var cfgs []HubCfg
	for _, mode := range []string{"unset", "prefer_ocsp", "prefer_crl"} {
		cfgs = append(cfgs, HubCfg{Mode: mode, Sig: "none", Strict: false, Fetch: "actively", Disk: mode == "prefer_crl", Conf: "none", Ocsp: "good"})
	}
	hubFocus(c, cfgs, c.Pick(360, 6000), func(d hubDoc) bool { return d.Signer == "A" && d.Q != "down" && d.Q != "critext" }, RandomShape, predC03)
	// a certificate whose own distribution points are unusable (c3) while a list taken in from another location names it: the
	// CRL mechanism reports it revoked in every mode that enables it (lists signed by the other CA, signature mode none)
	hubFocus(c, []HubCfg{
		{Mode: "prefer_crl", Sig: "none", Strict: false, Fetch: "actively", Disk: false, Conf: "none", Ocsp: "good"},
		{Mode: "crl_only", Sig: "none", Strict: false, Fetch: "background", Disk: true, Conf: "none", Ocsp: "noaia"},
	}, c.Pick(240, 4000), func(d hubDoc) bool { return d.Signer == "B" && d.Q == "valid" }, RandomShape, predC03)
	// a responder that changes its behaviour over time (good, revoked, no answer), answers remembered or not, lenient and strict:
	// what an earlier handshake learnt - or failed to learn - from OCSP decides nothing later on unless it is a still valid
	// authentic answer
	var dyn []HubCfg
	for i, mode := range []string{"prefer_ocsp", "ocsp_only", "prefer_crl", "unset"} {
		for j, oc := range []string{"dyncache", "dyn"} {
			if !c.Thorough() && (i+j+int(c.Seed))%2 == 1 && mode != "prefer_ocsp" {
				continue
			}
			dyn = append(dyn, HubCfg{Mode: mode, Sig: "none", Strict: false, Fetch: "actively", Disk: false, Conf: "none", Ocsp: oc, Aia: (i+j)%2 == 1})
		}
	}
	hubFocus(c, dyn, c.Pick(500, 8000), func(d hubDoc) bool { return d.Signer == "A" && d.Q == "valid" && len(d.Keys) <= 1 }, RandomShape, predC03)
}

// C03 — mode composition: the complete one-handshake table.
func C03(c *vk.Ctx) {
	if os.Getenv("VERIF_ONLY") == "c03hist" { // debugging aid
		c03Histories(c)
		return
	}
	var cfgs []HubCfg
	for _, mode := range []string{"unset", "prefer_ocsp", "prefer_crl", "ocsp_only", "crl_only", "disabled"} {
		for _, oc := range []string{"noaia", "good", "revoked", "down"} {
			for _, aia := range []bool{false, true} {
				for _, strict := range []bool{false, true} {
					for _, disk := range []bool{false, true} {
						cfgs = append(cfgs, HubCfg{Mode: mode, Sig: "verify", Strict: strict, Fetch: "actively", Disk: disk, Conf: "none", Ocsp: oc, Aia: aia})
					}
				}
			}
		}
	}
	// the same cells with the first CDP fetch left to the background (the entry exists, its list is not in force yet when the
	// handshake is judged): the strict gate is part of what the CRL mechanism reports
	for _, mode := range []string{"unset", "prefer_ocsp", "prefer_crl", "crl_only"} {
		for _, oc := range []string{"noaia", "good"} {
			for _, strict := range []bool{false, true} {
				cfgs = append(cfgs, HubCfg{Mode: mode, Sig: "verify", Strict: strict, Fetch: "background", Disk: false, Conf: "none", Ocsp: oc, Aia: strict})
			}
		}
	}
	gs, res := exportHubGraphs(c, cfgs, nil, 2)
	c.Set("states", res.Distinct)
	rng := rand.New(rand.NewSource(c.Seed))
	var trans int64
	walks := 0
	for ci, g := range gs {
		trans += int64(len(g.Edges))
		cfg := cfgs[ci]
		// quick: memory backend fully + a seeded third of the disk cells; thorough: everything
		if !c.Thorough() && cfg.Disk && rng.Intn(3) != 0 {
			continue
		}
		keepDown := 0
		if c.Thorough() || rng.Intn(24) == 0 {
			keepDown = 1
		}
		pg := pruneDown(g, keepDown, rng)
		if os.Getenv("VERIF_DEBUG") != "" && ci < 3 {
			fmt.Fprintf(os.Stderr, "C03DBG ci=%d edges=%d pruned=%d init=%q out=%d\n", ci, len(g.Edges), len(pg.Edges), pg.Init[:min(40, len(pg.Init))], len(pg.Out[pg.Init]))
		}
		pg.AllPaths(2, func(p []*graph.Edge) {
			if len(p) != 2 || c.Violations() > 6 || opName(p[1]) == "cleanup" {
				return // (a restart, possibly into another cell of the table, is not a cell)
			}
			cp := append([]*graph.Edge(nil), p...)
			runHubWalk(c, cfg, cp, RandomShape(rng), c.Seed*100000+int64(walks), predC03)
			walks++
		})
		if ci%40 == 0 {
			c.Sample(map[string]any{"cfg": cfg, "cells": len(pg.Edges)})
		}
	}
	if walks < c.Pick(900, 2600) {
		c.Infra("the mode table was replayed on %d cells only: the check would be vacuous", walks)
	}
	c03Histories(c)
	c.Add("traces_validated_against_impl", int64(c03UnderContention(c)))
	c.Set("transitions", trans)
	c.Add("traces_validated_against_impl", int64(walks))
	c.Set("exhaustive", c.Thorough())
	c.Set("spec", "Revocation.tla with CfgSpace = the whole table mode(6) x OCSP outcome(4) x aia_strict(2) x cdp_strict(2) x backend(2), MaxSteps = 2 (Provision; one handshake with every certificate and every document the CDP may serve, plus the chain-less handshake); property ModePromise")
	c.Set("rule", "a case is one cell: (configuration, certificate, CRL outcome via the served document) executed on a fresh validator; equality of accept/reject with the specification's verdict (the property is an iff), plus touch sets: modes without CRL never fetch a CRL nor create anything in work_dir, modes without OCSP never contact the responder; chain shapes (leaf+root, leaf+intermediate+root, two chains, no chain) rotate by seed; plus histories (tours of the complete graphs of the prefer_* / unset modes with a responder that says good and CRLs that list and un-list the certificates, OCSP cache on in two worlds of three) judged by the same iff at every handshake")
	c.Assume("unset mode is rendered by omitting the option; 'unreachable CDP' is mostly a garbage body (fast) and a connection hang-up in a seeded sample of cells (2 s retry loop each)")
}

// c03UnderContention: a cell of the table is a statement about every handshake, also about one that is not alone. The list that is
// in force names the certificate (and every list that a refresh swaps in does); while it is presented over and over, other
// certificates that name the same distribution point are presented and refresh passes run. Under every mode that consults CRLs
// every single one of these handshakes is refused.
func c03UnderContention(c *vk.Ctx) int {
	n := 0
	for mi, mode := range []string{"crl_only", "prefer_crl", "prefer_ocsp", ""} {
		for _, disk := range []bool{false, true} {
			if c.Violations() > 6 || (!c.Thorough() && disk && mi%2 == int(c.Seed)%2) {
				continue
			}
			org := origin.New()
			ca := pki.NewCA(pki.CAOpts{Name: "Contended CA", Serial: 1300})
			listed := ca.Leaf(pki.LeafOpts{CN: "listed", Serial: big.NewInt(1301), CDP: []string{org.URL + "/cdp/contended.crl"}})
			other := ca.Leaf(pki.LeafOpts{CN: "other", Serial: big.NewInt(1302), CDP: []string{org.URL + "/cdp/contended.crl"}})
			var num atomic.Int64
			org.Set("/cdp/contended.crl", origin.Behaviour{Kind: "func", Func: func([]byte) (int, []byte) {
				return 200, ca.SimpleCRL(num.Add(1), 1301) // the CA re-issues for every fetch; every issue names the certificate
			}})
			w, err := world.New(world.Cfg{Mode: mode, Storage: backendName(disk), Sig: "verify", Fetch: "fetch_actively", Interval: "1h"})
			if err != nil {
				c.Infra("world: %v", err)
			}
			if err := w.Provision(); err != nil {
				c.Infra("provision: %v", err)
			}
			chL, chO := pki.Chain(listed.Cert, ca), pki.Chain(other.Cert, ca)
			if r := w.HandshakeTimeout(chL, 60*time.Second); r.Verdict != "revoked" {
				c.Drift("contention:list-not-in-force-before-the-experiment:" + r.Verdict)
				w.Destroy()
				org.Close()
				continue
			}
			stop := make(chan struct{})
			var wg sync.WaitGroup
			var total, accepted, errs atomic.Int64
			var firstErr atomic.Value
			for g := 0; g < 4; g++ {
				wg.Add(1)
				go func() {
					defer wg.Done()
					for {
						select {
						case <-stop:
							return
						default:
						}
						r := w.Handshake(chL)
						total.Add(1)
						switch r.Verdict {
						case "accept":
							accepted.Add(1)
						case "revoked":
						default:
							errs.Add(1)
							firstErr.CompareAndSwap(nil, r.Verdict+": "+r.Err+r.Panic)
						}
					}
				}()
			}
			for g := 0; g < 2; g++ {
				wg.Add(1)
				go func() {
					defer wg.Done()
					for {
						select {
						case <-stop:
							return
						default:
							w.Handshake(chO)
						}
					}
				}()
			}
			wg.Add(1)
			go func() {
				defer wg.Done()
				for {
					select {
					case <-stop:
						return
					default:
						w.RefreshAll()
					}
				}
			}()
			time.Sleep(time.Duration(c.Pick(900, 4000)) * time.Millisecond)
			close(stop)
			wg.Wait()
			n++
			c.Eval(fmt.Sprintf("contention|%s|%s", mode, backendName(disk)))
			rep := map[string]any{"mode": mode, "backend": backendName(disk), "handshakes_of_the_listed_certificate": total.Load(), "accepted": accepted.Load(), "errors": errs.Load(), "first_error": firstErr.Load(), "refreshes_fetched": num.Load()}
			if accepted.Load() > 0 {
				c.Violation(fmt.Sprintf("mode=%s:listed-certificate-accepted-under-contention", map[bool]string{true: "unset", false: mode}[mode == ""]),
					fmt.Sprintf("%d of %d handshakes of a certificate that every list in force names were accepted while other handshakes and refresh passes were using the same CRL (%s backend)", accepted.Load(), total.Load(), backendName(disk)), rep)
			}
			if errs.Load() > 0 {
				c.Drift("contention:handshake-errors")
			}
			w.Destroy()
			org.Close()
		}
	}
	return n
}

func cfgsC01(c *vk.Ctx) []HubCfg {
	base := []HubCfg{
		{Mode: "crl_only", Sig: "verify", Strict: false, Fetch: "actively", Disk: true, TrustA: true, Conf: "url", Ocsp: "noaia"},
		{Mode: "unset", Sig: "verify", Strict: false, Fetch: "actively", Disk: false, TrustA: true, Conf: "file", Ocsp: "good"},
		{Mode: "prefer_crl", Sig: "none", Strict: false, Fetch: "background", Disk: true, TrustA: false, Conf: "none", Ocsp: "good"},
		{Mode: "prefer_ocsp", Sig: "verify_log", Strict: true, Fetch: "actively", Disk: false, TrustA: false, Conf: "url", Ocsp: "down"},
	}
	if !c.Thorough() {
		return base
	}
	var out []HubCfg
	for _, mode := range []string{"unset", "prefer_ocsp", "prefer_crl", "crl_only"} {
		for _, disk := range []bool{false, true} {
			for i, conf := range []string{"none", "url", "file"} {
				sig := []string{"verify", "verify_log", "none"}[(i+len(mode))%3]
				oc := []string{"noaia", "good", "down"}[(i+len(mode)+1)%3]
				out = append(out, HubCfg{Mode: mode, Sig: sig, Strict: i%2 == 0, Fetch: []string{"actively", "background"}[(i+len(mode))%2], Disk: disk, TrustA: conf != "none", Conf: conf, Ocsp: oc})
			}
		}
	}
	return out
}

// C01 — CRL soundness.
func C01(c *vk.Ctx) {
	hubCampaign(c, cfgsC01(c), c.Pick(1600, 40000), allDownEdges, 60, predC01)
	c.Add("traces_validated_against_impl", int64(c01LoadDuringFailingPass(c)))
	c.Add("traces_validated_against_impl", int64(c01SiblingLocations(c)))
	c.Add("traces_validated_against_impl", int64(c01PresentedDuringRefresh(c)))
	c.Set("spec", "Revocation.tla: Sound (action property) + Refines/Complete (invariants), complete graph per configuration; every listed property of the module is checked by TLC before the graph is replayed")
	c.Set("rule", "a case is one edge (state, action incl. the documents served) of a configuration's Revocation graph executed on a real validator; distinct = distinct (cfg, state, action); the violation predicate is: ghost says listed-in-force AND real verdict = accept")
	c.Assume("document bytes inside a shape class (size/position/serial width/entry extensions/encoding) are seeded samples; the 'big' size class (20 000 entries) is exercised in the thorough tier only")
	c.Assume("connection-refused origins are sampled sparsely (each costs the loader's 2 s retry loop)")
}

// c01PresentedDuringRefresh: the certificate is presented while the refresh that will bring the list naming it is still
// transferring (it is accepted then: the list in force does not name it), and again when the pass has ended. The second time the
// list in force names it. (What a lookup learnt under the previous list is not what holds under the next one.)
func c01PresentedDuringRefresh(c *vk.Ctx) int {
	n := 0
	for round := 0; round < c.Pick(4, 24) && c.Violations() <= 6; round++ {
		disk := round%2 == 0
		org := origin.New()
		ca := pki.NewCA(pki.CAOpts{Name: "Refreshing CA", Serial: 1400})
		serial := big.NewInt(int64(1401 + round))
		leaf := ca.Leaf(pki.LeafOpts{CN: "soon revoked", Serial: serial, CDP: []string{org.URL + "/cdp/refreshing.crl"}})
		chain := pki.Chain(leaf.Cert, ca)
		org.SetBody("/cdp/refreshing.crl", ca.SimpleCRL(1, 990002))
		w, err := world.New(world.Cfg{Mode: "crl_only", Storage: backendName(disk), Sig: []string{"verify", "none"}[(round/2)%2], Fetch: "fetch_actively", Interval: "1h"})
		if err != nil {
			c.Infra("world: %v", err)
		}
		if err := w.Provision(); err != nil {
			c.Infra("provision: %v", err)
		}
		r0 := w.HandshakeTimeout(chain, 60*time.Second)
		release := make(chan struct{})
		arrived := make(chan struct{}, 8)
		sh := Shape{Size: "s300", Pos: []string{"first", "middle", "last"}[round%3], Width: "w8", Ext: "none", Enc: "der"}
		org.Set("/cdp/refreshing.crl", origin.Behaviour{Kind: "gated", Body: BuildCRL(CRLSpec{Signer: ca, Listed: []*big.Int{serial}, Number: 2}, sh), Gate: func() {
			arrived <- struct{}{}
			select {
			case <-release:
			case <-time.After(60 * time.Second):
			}
		}})
		passDone := make(chan struct{})
		go func() { defer close(passDone); w.RefreshAll() }()
		select {
		case <-arrived:
		case <-time.After(30 * time.Second):
			c.Drift("presented-during-refresh:transfer-never-started")
			close(release)
			w.Destroy()
			org.Close()
			continue
		}
		during := w.HandshakeTimeout(chain, 60*time.Second)
		close(release)
		select {
		case <-passDone:
		case <-time.After(120 * time.Second):
			c.Drift("presented-during-refresh:pass-never-returned")
		}
		after := w.HandshakeTimeout(chain, 60*time.Second)
		n++
		c.Eval(fmt.Sprintf("presented-during-refresh|%s|%d", backendName(disk), round%3))
		if r0.Verdict == "accept" && after.Verdict == "accept" {
			c.Violation(fmt.Sprintf("%s:listed-certificate-accepted:presented-during-the-refresh-that-lists-it", backendName(disk)),
				"the certificate was presented while the refresh that brings the list naming it was transferring (accepted, rightly) and again after the pass had ended: the list in force names it, and it was accepted again",
				map[string]any{"backend": backendName(disk), "before": r0, "during": during, "after": after, "signature_validation_mode": w.Cfg.Sig})
		}
		w.Destroy()
		org.Close()
	}
	return n
}

// c01SiblingLocations: "taken from the certificate's own distribution points" - two certificates of one CA name distribution points
// that are different resources although their URLs look alike (they differ only in the query, in the letter case of the path, or
// in one more path segment: a CA that publishes partitions under one path). The list of the second one names the second
// certificate. Whichever is presented first, the second one is refused.
func c01SiblingLocations(c *vk.Ctx) int {
	n := 0
	pairs := [][2]string{
		{"/sib/ca.crl?Partition=1", "/sib/ca.crl?Partition=2"},
		{"/sib/ca.crl", "/sib/ca.crl?delta"},
		{"/sib/CA.crl", "/sib/ca.crl"},
		{"/sib/ca.crl", "/sib/ca.crl/2"},
		{"/sib/ca.crl?a=1&b=2", "/sib/ca.crl?a=1&b=3"},
	}
	for pi, pair := range pairs {
		for _, disk := range []bool{false, true} {
			for _, listedFirst := range []bool{false, true} {
				if c.Violations() > 6 || (!c.Thorough() && (pi+map[bool]int{true: 1}[disk]+map[bool]int{true: 1}[listedFirst])%2 == int(c.Seed)%2) {
					continue
				}
				org := origin.New()
				ca := pki.NewCA(pki.CAOpts{Name: "Partition CA", Serial: 1200})
				free := ca.Leaf(pki.LeafOpts{CN: "free", Serial: big.NewInt(1201), CDP: []string{org.URL + pair[0]}})
				listed := ca.Leaf(pki.LeafOpts{CN: "listed", Serial: big.NewInt(1202), CDP: []string{org.URL + pair[1]}})
				org.SetBody(pair[0], ca.SimpleCRL(1, 990001))
				org.SetBody(pair[1], ca.SimpleCRL(2, 1202))
				w, err := world.New(world.Cfg{Mode: "crl_only", Storage: backendName(disk), Sig: "verify", Fetch: "fetch_actively", Interval: "1h", CdpStrict: pi%2 == 0})
				if err != nil {
					c.Infra("world: %v", err)
				}
				if err := w.Provision(); err != nil {
					c.Infra("provision: %v", err)
				}
				var rFree, rListed world.Result
				if listedFirst {
					rListed = w.HandshakeTimeout(pki.Chain(listed.Cert, ca), 60*time.Second)
					rFree = w.HandshakeTimeout(pki.Chain(free.Cert, ca), 60*time.Second)
				} else {
					rFree = w.HandshakeTimeout(pki.Chain(free.Cert, ca), 60*time.Second)
					rListed = w.HandshakeTimeout(pki.Chain(listed.Cert, ca), 60*time.Second)
				}
				again := w.HandshakeTimeout(pki.Chain(listed.Cert, ca), 60*time.Second)
				n++
				c.Eval(fmt.Sprintf("sibling-locations|%d|%s|%v", pi, backendName(disk), listedFirst))
				rep := map[string]any{"locations": pair, "backend": backendName(disk), "listed_certificate_first": listedFirst, "free": rFree, "listed": rListed, "listed_again": again}
				if rListed.Verdict == "accept" || again.Verdict == "accept" {
					c.Violation(fmt.Sprintf("%s:listed-certificate-accepted:sibling-location:%d", backendName(disk), pi),
						fmt.Sprintf("the certificate is named by the valid CRL of its own distribution point %q; another certificate names %q; it was accepted (first: %s, again: %s)", pair[1], pair[0], rListed.Verdict, again.Verdict), rep)
				}
				if rFree.Verdict != "accept" {
					c.Drift("sibling-locations:free-certificate-not-accepted:" + rFree.Verdict)
				}
				w.Destroy()
				org.Close()
			}
		}
	}
	return n
}

// c01LoadDuringFailingPass: the list of a certificate's own distribution point is taken in by the handshake that presents the
// certificate, and that handshake is not alone in the process: while its transfer is under way a refresh pass runs and fails for
// another location (a configured URL that serves an error page). When the transfer completes the list is valid, correctly signed and
// names the certificate: the handshake is refused. (A pass that has to wait for the entry of the list in transfer waits; the
// order in which a pass visits its locations is not fixed, so the experiment is repeated.)
func c01LoadDuringFailingPass(c *vk.Ctx) int {
	n := 0
	for round := 0; round < c.Pick(6, 40) && c.Violations() <= 6; round++ {
		disk := round%2 == 0
		org := origin.New()
		ca := pki.NewCA(pki.CAOpts{Name: "Busy CA", Serial: 1100})
		serial := big.NewInt(int64(1101 + round))
		leaf := ca.Leaf(pki.LeafOpts{CN: "busy leaf", Serial: serial, CDP: []string{org.URL + "/cdp/busy.crl"}})
		sh := Shape{Size: "s300", Pos: []string{"first", "middle", "last"}[round%3], Width: "w8", Ext: "none", Enc: []string{"der", "pem"}[round%2]}
		release := make(chan struct{})
		arrived := make(chan struct{}, 8)
		org.Set("/cdp/busy.crl", origin.Behaviour{Kind: "gated", Body: BuildCRL(CRLSpec{Signer: ca, Listed: []*big.Int{serial}, Number: 7}, sh), Gate: func() {
			arrived <- struct{}{}
			select {
			case <-release:
			case <-time.After(60 * time.Second):
			}
		}})
		org.SetBody("/conf/other.crl", ca.SimpleCRL(3, 999001))
		tf, _ := os.CreateTemp("", "verif.busy-ca-*.pem")
		tf.Write(pki.PEMCert(ca.Cert))
		tf.Close()
		defer os.Remove(tf.Name())
		w, err := world.New(world.Cfg{Mode: "crl_only", Storage: backendName(disk), Sig: []string{"verify", "none"}[(round/2)%2], Fetch: "fetch_actively", Interval: "1h", CRLUrls: []string{org.URL + "/conf/other.crl"}, Trusted: []string{tf.Name()}})
		if err != nil {
			c.Infra("world: %v", err)
		}
		if err := w.Provision(); err != nil {
			c.Infra("provision with a valid configured CRL: %v", err)
		}
		org.Set("/conf/other.crl", origin.Behaviour{Kind: "status", Code: 503, Body: []byte("<html>temporarily unavailable</html>")})
		res := make(chan world.Result, 1)
		go func() { res <- w.HandshakeTimeout(pki.Chain(leaf.Cert, ca), 120*time.Second) }()
		select {
		case <-arrived:
		case <-time.After(30 * time.Second):
			c.Drift("busy-load:transfer-never-started")
			close(release)
			w.Destroy()
			org.Close()
			continue
		}
		passDone := make(chan struct{})
		go func() { defer close(passDone); w.RefreshAll() }()
		select {
		case <-passDone: // the pass came to its end without waiting for the entry in transfer
		case <-time.After(400 * time.Millisecond): // ... or it waits for it
		}
		close(release)
		r := <-res
		select {
		case <-passDone:
		case <-time.After(120 * time.Second):
			c.Drift("busy-load:pass-never-returned")
		}
		n++
		c.Eval(fmt.Sprintf("busy-load|%s|%d", backendName(disk), round%3))
		if r.Verdict == "accept" {
			c.Violation(fmt.Sprintf("%s:listed-certificate-accepted:first-load-overlapped-by-a-failing-pass", backendName(disk)),
				"the certificate is listed in the valid, correctly signed CRL of its own distribution point; its handshake downloaded that CRL while a refresh pass failed for another location - and the certificate was accepted",
				map[string]any{"backend": backendName(disk), "round": round, "shape": sh, "handshake": r, "signature_validation_mode": w.Cfg.Sig})
		}
		w.Destroy()
		org.Close()
	}
	return n
}

// C11 — precision.
func C11(c *vk.Ctx) {
	if os.Getenv("VERIF_ONLY") == "c11guided" { // debugging aid: only the guided experiments
		c.Add("traces_validated_against_impl", int64(staleBackgroundLoad(c, "C11")+loadersReplay(c, "C11")+rejectedThenAccepted(c)))
		return
	}
	cfgs := []HubCfg{
		{Mode: "crl_only", Sig: "verify", Strict: false, Fetch: "actively", Disk: true, TrustA: false, Conf: "none", Ocsp: "noaia"},
		{Mode: "crl_only", Sig: "verify", Strict: true, Fetch: "actively", Disk: false, TrustA: true, Conf: "url", Ocsp: "noaia"},
		{Mode: "prefer_ocsp", Sig: "none", Strict: false, Fetch: "background", Disk: true, TrustA: false, Conf: "none", Ocsp: "good"},
		{Mode: "crl_only", Sig: "verify_log", Strict: false, Fetch: "actively", Disk: false, TrustA: false, Conf: "file", Ocsp: "noaia"},
	}
	if c.Thorough() {
		cfgs = append(cfgs, cfgsC01(c)...)
	}
	hubCampaign(c, cfgs, c.Pick(1600, 40000), allDownEdges, 60, predC11)
	// a superseded list does not come back: passes over one CRL do not overlap (CrlRepo.tla has one loader process per entry)
	c.Add("traces_validated_against_impl", int64(overlappingPasses(c, "C11")))
	c.Add("traces_validated_against_impl", int64(staleBackgroundLoad(c, "C11")))
	c.Add("traces_validated_against_impl", int64(loadersReplay(c, "C11")))
	c.Add("traces_validated_against_impl", int64(rejectedThenAccepted(c)))
	// the cross-issuer clause: only lists of the issuer itself and of the other CA are served, and the other CA's entries carry
	// a certificateIssuer entry extension that names the probe's issuer
	hubFocus(c, []HubCfg{
		{Mode: "crl_only", Sig: "none", Strict: false, Fetch: "actively", Disk: true, TrustA: false, Conf: "none", Ocsp: "noaia"},
		{Mode: "crl_only", Sig: "verify_log", Strict: true, Fetch: "actively", Disk: false, TrustA: false, Conf: "url", Ocsp: "noaia"},
	}, c.Pick(300, 4000), func(d hubDoc) bool {
		return d.Q != "valid" && d.Q != "critext" || d.Signer == "A" && d.Q == "valid" || d.Signer == "B"
	},
		func(rng *rand.Rand) Shape {
			s := RandomShape(rng)
			s.Ext = "certissuer"
			return s
		}, predC11)
	c.Set("spec", "Revocation.tla: Precise (action property) + Refines (invariant)")
	c.Set("rule", "as C01; the violation predicate is: real verdict = revoked AND ghost says not listed in any CRL in force AND OCSP did not say revoked; filler entries of every generated CRL are near misses of the probe serials (off-by-bit, one byte longer/shorter, decimal prefixes) and c3 shares c1's serial under another issuer")
	c.Assume("64-bit FNV key collisions are out of scope, as the property says")
}

// C10 — CDP strictness.
func C10(c *vk.Ctx) {
	cfgs := []HubCfg{
		{Mode: "crl_only", Sig: "verify", Strict: true, Fetch: "actively", Disk: false, TrustA: false, Conf: "none", Ocsp: "noaia"},
		{Mode: "crl_only", Sig: "verify", Strict: true, Fetch: "background", Disk: true, TrustA: false, Conf: "none", Ocsp: "noaia"},
		{Mode: "crl_only", Sig: "verify", Strict: false, Fetch: "actively", Disk: true, TrustA: false, Conf: "none", Ocsp: "noaia"},
		{Mode: "prefer_ocsp", Sig: "none", Strict: false, Fetch: "background", Disk: false, TrustA: false, Conf: "url", Ocsp: "good"},
	}
	if c.Thorough() {
		for _, sig := range []string{"verify", "verify_log", "none"} {
			for _, strict := range []bool{true, false} {
				for _, fetch := range []string{"actively", "background"} {
					for _, disk := range []bool{true, false} {
						cfgs = append(cfgs, HubCfg{Mode: "crl_only", Sig: sig, Strict: strict, Fetch: fetch, Disk: disk, Conf: "none", Ocsp: "noaia"})
					}
				}
			}
		}
	}
	hubCampaign(c, cfgs, c.Pick(1600, 40000), allDownEdges, 60, predC10)
	// a healthy configured CRL next to the distribution point (whose URL differs from the configured one only in letter case or
	// in the query in two of three worlds): it never stands in for the distribution point's own CRL
	hubFocus(c, []HubCfg{
		{Mode: "crl_only", Sig: "verify", Strict: true, Fetch: "actively", Disk: false, TrustA: true, Conf: "url", Ocsp: "noaia"},
		{Mode: "crl_only", Sig: "none", Strict: true, Fetch: "background", Disk: true, TrustA: false, Conf: "url", Ocsp: "noaia"},
	}, c.Pick(300, 4000), func(d hubDoc) bool { return d.Signer == "A" || d.Q == "down" || d.Q == "garbage" }, RandomShape, predC10)
	c.Add("traces_validated_against_impl", int64(c10Overlap(c)))
	c.Add("traces_validated_against_impl", int64(c10FailedSwap(c)))
	c.Add("traces_validated_against_impl", int64(c10QueuedBehindFailingLoad(c)))
	c.Set("spec", "Revocation.tla: StrictGate, LenientNeverDenies (action properties); CrlRepo.tla LSwapFault (a first load that fails at its last step is a failed load)")
	c.Set("rule", "as C01; predicates: strict AND certificate names distribution points AND accepted AND ghost says that CRL is not in force => violation; lenient AND denied AND not listed AND OCSP accepted => violation; CDP sets: http (c1), ldap-only (c3), none (c2)")
}

// refreshThenStricterPaths: a list is taken in at the distribution point under the first configuration, a refresh replaces it by
// a list of another signer (whatever the first configuration makes of it), the instance is restarted with the second configuration
// and finds the origin gone. What the second configuration would never have accepted is not in force for it, whatever the first
// instance stored next to it.
func refreshThenStricterPaths(g *graph.Graph) [][]*graph.Edge {
	var out [][]*graph.Edge
	opOf := func(e *graph.Edge) []any {
		var op []any
		json.Unmarshal(e.Op, &op)
		return op
	}
	same := func(a, b any) bool { x, _ := json.Marshal(a); y, _ := json.Marshal(b); return string(x) == string(y) }
	cfgOf := func(state string) string {
		var st struct {
			Cfg HubCfg `json:"cfg"`
		}
		json.Unmarshal([]byte(state), &st)
		return st.Cfg.String()
	}
	for _, p1 := range g.Out[g.Init] {
		o1 := opOf(p1)
		if o1[0] != "provision" {
			continue
		}
		for _, h := range g.Out[p1.To] {
			oh := opOf(h)
			if oh[0] != "handshake" || oh[1] != "c1" || len(oh) < 3 || parseDoc(oh[2]).Q != "valid" || parseDoc(oh[2]).Signer != "A" {
				continue
			}
			for _, r := range g.Out[h.To] {
				or := opOf(r)
				if or[0] != "refresh" {
					continue
				}
				docs, _ := or[1].(map[string]any)
				d := parseDoc(docs["D"])
				if d.Q != "valid" || d.Signer == "A" {
					continue
				}
				for _, cl := range g.Out[r.To] {
					if opOf(cl)[0] != "cleanup" || cfgOf(cl.To) == cfgOf(cl.From) {
						continue
					}
					for _, p2 := range g.Out[cl.To] {
						o2 := opOf(p2)
						if o2[0] != "provision" || !same(o1[1], o2[1]) {
							continue
						}
						w := []*graph.Edge{p1, h, r, cl, p2}
						cur := p2.To
						for _, cert := range []string{"c1", "c2"} {
							for _, h2 := range g.Out[cur] {
								if o := opOf(h2); o[0] == "handshake" && o[1] == cert && len(o) >= 3 && parseDoc(o[2]).Q == "down" {
									w = append(w, h2)
									cur = h2.To
									break
								}
							}
						}
						if len(w) > 5 {
							out = append(out, w)
						}
					}
				}
			}
		}
	}
	return out
}

// c10QueuedBehindFailingLoad: "before the first successful load, after failed loads" for a handshake that is not alone: certificate B
// names the same distribution points as certificate A and arrives while A's first load (which will fail: the origin serves an
// error page, slowly) holds the entry. With crl_cdp_strict on both are denied - no CRL for that distribution-point set is in
// force when either of them is judged; with it off neither is denied for that reason.
func c10QueuedBehindFailingLoad(c *vk.Ctx) int { return queuedBehindFailingLoad(c, []string{"garbage", "badsig"}) }

// queuedBehindFailingLoad with kind "then-good": only the first answer of the origin is an error page (served slowly); every later
// one is the valid list, which names certificate B. In every sequential order of the two handshakes B's own download succeeds and B
// is refused (C13: each verdict is one that some sequential ordering would have produced).
func queuedBehindFailingLoad(c *vk.Ctx, kinds []string) int {
	n := 0
	for _, disk := range []bool{false, true} {
		for _, strict := range []bool{true, false} {
			for _, kind := range kinds {
				if c.Violations() > 6 || (!c.Thorough() && kind == "badsig" && disk != strict) {
					continue
				}
				org := origin.New()
				ca := pki.NewCA(pki.CAOpts{Name: "Queue CA", Serial: 1500})
				evil := pki.NewCA(pki.CAOpts{Name: "Queue CA", Serial: 1501})
				a := ca.Leaf(pki.LeafOpts{CN: "first in the queue", Serial: big.NewInt(1502), CDP: []string{org.URL + "/cdp/queue.crl"}})
				b := ca.Leaf(pki.LeafOpts{CN: "second in the queue", Serial: big.NewInt(1503), CDP: []string{org.URL + "/cdp/queue.crl"}})
				body := []byte("<html><body>503 Service Unavailable</body></html>")
				if kind == "badsig" {
					body = evil.SimpleCRL(4, 990003)
				}
				release := make(chan struct{})
				arrived := make(chan struct{}, 8)
				var once sync.Once
				gate := func() {
					slow := false
					once.Do(func() { slow = true })
					if slow { // only the first answer is slow
						arrived <- struct{}{}
						select {
						case <-release:
						case <-time.After(60 * time.Second):
						}
					}
				}
				org.Set("/cdp/queue.crl", origin.Behaviour{Kind: "gated", Body: body, Gate: gate})
				if kind == "then-good" {
					var reqs atomic.Int64
					good := ca.SimpleCRL(5, 1503)
					org.Set("/cdp/queue.crl", origin.Behaviour{Kind: "func", Func: func([]byte) (int, []byte) {
						if reqs.Add(1) == 1 {
							gate()
							return 503, body
						}
						return 200, good
					}})
				}
				w, err := world.New(world.Cfg{Mode: "crl_only", Storage: backendName(disk), Sig: "verify", Fetch: "fetch_actively", Interval: "1h", CdpStrict: strict})
				if err != nil {
					c.Infra("world: %v", err)
				}
				if err := w.Provision(); err != nil {
					c.Infra("provision: %v", err)
				}
				resA, resB := make(chan world.Result, 1), make(chan world.Result, 1)
				go func() { resA <- w.HandshakeTimeout(pki.Chain(a.Cert, ca), 120*time.Second) }()
				select {
				case <-arrived:
				case <-time.After(30 * time.Second):
					c.Drift("queued-load:transfer-never-started")
					close(release)
					w.Destroy()
					org.Close()
					continue
				}
				go func() { resB <- w.HandshakeTimeout(pki.Chain(b.Cert, ca), 120*time.Second) }()
				time.Sleep(150 * time.Millisecond) // B is waiting for the entry now (or has been answered already)
				close(release)
				ra, rb := <-resA, <-resB
				n++
				c.Eval(fmt.Sprintf("queued-load|%s|%v|%s", backendName(disk), strict, kind))
				rep := map[string]any{"backend": backendName(disk), "strict": strict, "origin_serves": kind, "first": ra, "second": rb, "requests": org.Hits("/cdp/queue.crl")}
				if kind == "then-good" {
					if rb.Verdict != "revoked" {
						c.Violation(fmt.Sprintf("verdict-not-sequential:second-handshake-during-a-failing-first-load:%s:strict=%v", backendName(disk), strict),
							fmt.Sprintf("certificate B is named by the list that the origin serves to every request but the first; B was presented while A's load (first request: an error page) was failing, and B's verdict was %s %s - in every sequential order B is refused", rb.Verdict, rb.Err), rep)
					}
					w.Destroy()
					org.Close()
					continue
				}
				for who, r := range map[string]world.Result{"first": ra, "second": rb} {
					switch {
					case strict && r.Verdict == "accept":
						c.Violation(fmt.Sprintf("strict:accepted-without-crl-in-force:queued-behind-a-failing-load:%s:%s", who, backendName(disk)),
							fmt.Sprintf("crl_cdp_strict is on and no CRL of the distribution point was ever loaded (the origin serves %s); the %s of two overlapping handshakes was accepted", kind, who), rep)
					case !strict && r.Verdict != "accept":
						c.Violation(fmt.Sprintf("lenient:denied-by-cdp-trouble:queued-behind-a-failing-load:%s:%s", who, backendName(disk)),
							fmt.Sprintf("crl_cdp_strict is off, the certificate is listed nowhere, and the %s of two overlapping handshakes was denied: %s %s", who, r.Verdict, r.Err), rep)
					}
				}
				w.Destroy()
				org.Close()
			}
		}
	}
	return n
}

// c10FailedSwap: "after failed loads" includes a load that fails at its very last step, when the storage layer refuses to put the
// parsed and verified list in place (CrlRepo.tla: LSwapFault). No CRL is in force then: strict denies, lenient does not deny for
// that reason, and the next handshake loads the list after all. Injected fault on both backends; on disk also a real one (the
// store directory is gone when the list is to be moved in).
func c10FailedSwap(c *vk.Ctx) int {
	n := 0
	for _, disk := range []bool{false, true} {
		for _, strict := range []bool{true, false} {
			for _, real := range []bool{false, true} {
				if real && (!disk || strict) || c.Violations() > 6 {
					continue
				}
				rw, err := newRepoWorld(disk, "verify", strict, c.Seed*17+int64(n))
				if err != nil {
					c.Infra("repo world: %v", err)
				}
				rep := map[string]any{"backend": backendName(disk), "strict": strict, "fault": map[bool]string{true: "store directory removed before the swap", false: "injected swap error"}[real]}
				sig := fmt.Sprintf("%s:strict=%v:fault=%s", backendName(disk), strict, map[bool]string{true: "dir-removed", false: "injected"}[real])
				if real {
					rw.serve("garbage", nil)
					rw.w.HandshakeTimeout(rw.chains["driver"], 60*time.Second) // the entry and its directory exist now, nothing is loaded
					ents, _ := os.ReadDir(rw.w.WorkDir)
					for _, e := range ents {
						if e.IsDir() {
							os.RemoveAll(filepath.Join(rw.w.WorkDir, e.Name()))
						}
					}
				} else {
					rw.fault.mu.Lock()
					rw.fault.failUpdate = true
					rw.fault.mu.Unlock()
				}
				rw.serve("good", []string{"x"})
				r1 := rw.w.HandshakeTimeout(rw.chains["driver"], 120*time.Second)
				rep["handshake_during_failed_swap"] = r1
				n++
				c.Eval("failed-swap|" + sig)
				switch {
				case strict && r1.Verdict == "accept":
					c.Violation("strict-accepts-although-the-load-failed-at-the-swap:"+sig, "crl_cdp_strict is on and the first load of the distribution point's CRL failed at its last step (nothing is in force), but the certificate that names it was accepted", rep)
				case !strict && r1.Verdict != "accept":
					c.Violation("lenient-denies-because-the-load-failed-at-the-swap:"+sig, fmt.Sprintf("crl_cdp_strict is off and the certificate is not listed anywhere, but it was denied after the first load failed at its last step: %s %s", r1.Verdict, r1.Err), rep)
				}
				if !real {
					// the fault is gone: the next certificate that names the location gets the list loaded
					r2 := rw.w.HandshakeTimeout(rw.chains["driver"], 120*time.Second)
					res, _ := rw.probe(2 * time.Second)
					rep["handshake_afterwards"], rep["lookups_afterwards"] = r2, res
					if got, ok := listedOf(res); r2.Verdict != "accept" || !ok || got != "x" {
						c.Violation("list-not-in-force-after-the-load-was-repeated:"+sig, fmt.Sprintf("after the failed swap the origin still serves the acceptable list {x} and the location was named again: handshake %s %s, lookups answer {%s} (ok=%v)", r2.Verdict, r2.Err, got, ok), rep)
					}
				}
				rw.close()
			}
		}
	}
	return n
}

// C16 — signature policy uniform across intake paths.
func C16(c *vk.Ctx) {
	var cfgs []HubCfg
	for _, sig := range []string{"verify", "verify_log", "none"} {
		cfgs = append(cfgs,
			HubCfg{Mode: "crl_only", Sig: sig, Strict: true, Fetch: "actively", Disk: true, TrustA: false, Conf: "url", Ocsp: "noaia"},
			HubCfg{Mode: "crl_only", Sig: sig, Strict: false, Fetch: "background", Disk: false, TrustA: true, Conf: "file", Ocsp: "noaia"})
		if c.Thorough() {
			cfgs = append(cfgs,
				HubCfg{Mode: "crl_only", Sig: sig, Strict: true, Fetch: "background", Disk: false, TrustA: false, Conf: "url", Ocsp: "noaia"},
				HubCfg{Mode: "crl_only", Sig: sig, Strict: true, Fetch: "actively", Disk: false, TrustA: true, Conf: "url", Ocsp: "noaia"},
				HubCfg{Mode: "prefer_ocsp", Sig: sig, Strict: false, Fetch: "actively", Disk: true, TrustA: false, Conf: "none", Ocsp: "good"})
		}
	}
	if os.Getenv("VERIF_ONLY") == "" { // (debugging aid: only the guided parts)
		hubCampaign(c, cfgs, c.Pick(1200, 40000), allDownEdges, 60, predC16)
	}
	// restarts that change the policy options (a reload with a stricter mode or without the trusted signer): what the
	// previous run left on disk must be judged by the new configuration
	families := [][]HubCfg{
		{{Mode: "crl_only", Sig: "none", Strict: true, Fetch: "actively", Disk: true, TrustA: false, Conf: "none", Ocsp: "noaia"},
			{Mode: "crl_only", Sig: "verify", Strict: true, Fetch: "actively", Disk: true, TrustA: false, Conf: "none", Ocsp: "noaia"}},
		{{Mode: "crl_only", Sig: "verify_log", Strict: false, Fetch: "actively", Disk: true, TrustA: false, Conf: "url", Ocsp: "noaia"},
			{Mode: "crl_only", Sig: "verify", Strict: false, Fetch: "actively", Disk: true, TrustA: true, Conf: "url", Ocsp: "noaia"}},
		{{Mode: "crl_only", Sig: "verify", Strict: true, Fetch: "actively", Disk: true, TrustA: true, Conf: "file", Ocsp: "noaia"},
			{Mode: "crl_only", Sig: "verify", Strict: true, Fetch: "actively", Disk: true, TrustA: false, Conf: "file", Ocsp: "noaia"}},
	}
	rng := rand.New(rand.NewSource(c.Seed + 16))
	for fi, fam := range families {
		g, res := exportHubFamily(c, fam)
		c.Add("states", res.Distinct)
		c.Add("transitions", int64(len(g.Edges)))
		pg := pruneDown(g, 0, rng)
		tour := pg.Tour(50, rng)
		rng.Shuffle(len(tour), func(i, j int) { tour[i], tour[j] = tour[j], tour[i] })
		used := 0
		for wi, w := range tour {
			if used >= c.Pick(300, 20000) || c.Violations() > 6 {
				break
			}
			// only walks that actually restart are interesting here
			restarts := false
			for _, e := range w {
				if opName(e) == "cleanup" {
					restarts = true
				}
			}
			if !restarts {
				continue
			}
			used += runHubWalk(c, fam[0], w, RandomShape(rng), c.Seed*7000+int64(fi*1000+wi), predC16)
			c.Add("traces_validated_against_impl", 1)
		}
		// a reload that finds the world unchanged: the same documents, byte for byte, before and after the switch of the policy
		// options (whatever the first instance worked out about them must not carry over to the second one's judgement)
		for pi, w := range reloadSameDocPaths(g, fam) {
			if c.Violations() > 6 {
				break
			}
			seed := c.Seed*7100 + int64(fi*1000+pi)
			for try := 0; try < 40 && !sameBytesWorld(seed); try++ {
				seed += 100003 // (a world in which a document published again is the same bytes: see hubWorld.publish)
			}
			runHubWalk(c, fam[0], w, RandomShape(rng), seed, predC16)
			c.Add("traces_validated_against_impl", 1)
		}
	}
	// a restart that finds the origin gone: the disk store is all the new instance has
	gone := 0
	goneStart := time.Now()
	for _, sig := range []string{"verify_log", "none", "verify"} {
		for ci, cfg := range []HubCfg{
			{Mode: "crl_only", Sig: sig, Strict: true, Fetch: "actively", Disk: true, TrustA: false, Conf: "none", Ocsp: "noaia"},
			{Mode: "crl_only", Sig: sig, Strict: false, Fetch: "background", Disk: true, TrustA: false, Conf: "none", Ocsp: "noaia"},
			{Mode: "crl_only", Sig: sig, Strict: false, Fetch: "actively", Disk: true, TrustA: true, Conf: "url", Ocsp: "noaia"},
		} {
			if c.Violations() > 6 || (!c.Thorough() && ci == 2 && sig != "verify_log") {
				continue
			}
			g, res := exportHubFamily(c, []HubCfg{cfg})
			c.Add("states", res.Distinct)
			paths := restartOriginGonePaths(g)
			rng.Shuffle(len(paths), func(i, j int) { paths[i], paths[j] = paths[j], paths[i] })
			for pi, w := range paths {
				if pi >= c.Pick(14, 600) || c.Violations() > 6 {
					break
				}
				hubGoneUnfetched.Store(true)
				runHubWalk(c, cfg, w, RandomShape(rng), c.Seed*7300+int64(gone), predC16)
				hubGoneUnfetched.Store(false)
				c.Add("traces_validated_against_impl", 1)
				gone++
			}
		}
	}
	c.Set("restart_origin_gone_paths", int64(gone))
	c.Set("restart_origin_gone_seconds", int64(time.Since(goneStart).Seconds()))
	c.Set("spec", "Revocation.tla: VerifyNeverInForce (invariant), LenientRefreshWorks (action property), PolicyAccepts used by every intake action with the context table of DESIGN 3.4")
	c.Set("rule", "as C01; intake paths: provision-time configured CRL (url/file), first CDP fetch, background load, refresh, each also after restart; signer status: resolvable (A in chain / trusted), unknown (sibling key S, foreign CA B), wrong; predicates compare the real verdict with what the policy ghost demands per signature mode")
}

// restartOriginGonePaths: a CRL is taken in from the certificate's distribution point, the instance is restarted on the same work_dir
// and finds the origin gone: Provision (any configured document), handshake of c1 with a valid document at D (every signer, every key
// set), Cleanup, Provision, then handshakes of c1 and c2 while D is down. What the restarted instance has in force is what it kept.
func restartOriginGonePaths(g *graph.Graph) [][]*graph.Edge {
	var out [][]*graph.Edge
	opOf := func(e *graph.Edge) []any {
		var op []any
		json.Unmarshal(e.Op, &op)
		return op
	}
	same := func(a, b any) bool { x, _ := json.Marshal(a); y, _ := json.Marshal(b); return string(x) == string(y) }
	docQ := func(o []any) string {
		if len(o) < 3 {
			return ""
		}
		return parseDoc(o[2]).Q
	}
	for _, p1 := range g.Out[g.Init] {
		o1 := opOf(p1)
		if o1[0] != "provision" {
			continue
		}
		for _, h := range g.Out[p1.To] {
			oh := opOf(h)
			if oh[0] != "handshake" || oh[1] != "c1" || docQ(oh) != "valid" {
				continue
			}
			var hexp hubExpect
			if json.Unmarshal(h.Expect, &hexp) != nil || !hexp.Inforce["D"] {
				continue // (a list that policy keeps out of force leaves nothing to find after the restart)
			}
			for _, cl := range g.Out[h.To] {
				if opOf(cl)[0] != "cleanup" {
					continue
				}
				for _, p2 := range g.Out[cl.To] {
					o2 := opOf(p2)
					if o2[0] != "provision" || !same(o1[1], o2[1]) {
						continue
					}
					w := []*graph.Edge{p1, h, cl, p2}
					cur := p2.To
					for _, cert := range []string{"c1", "c2"} {
						for _, h2 := range g.Out[cur] {
							if o := opOf(h2); o[0] == "handshake" && o[1] == cert && docQ(o) == "down" {
								w = append(w, h2)
								cur = h2.To
								break
							}
						}
					}
					if len(w) > 4 {
						out = append(out, w)
					}
				}
			}
		}
	}
	return out
}

// reloadSameDocPaths: Provision(d) [; Handshake(c1, d1)] ; Restart into the other configuration of the family ; Provision(d)
// [; Handshake(c1, d1)] ; Handshake(c2) for every d and d1 the graph has.
func reloadSameDocPaths(g *graph.Graph, fam []HubCfg) [][]*graph.Edge {
	var out [][]*graph.Edge
	opOf := func(e *graph.Edge) []any {
		var op []any
		json.Unmarshal(e.Op, &op)
		return op
	}
	same := func(a, b any) bool { x, _ := json.Marshal(a); y, _ := json.Marshal(b); return string(x) == string(y) }
	cfgOf := func(state string) string {
		var st struct {
			Cfg HubCfg `json:"cfg"`
		}
		json.Unmarshal([]byte(state), &st)
		return st.Cfg.String()
	}
	for _, p1 := range g.Out[g.Init] {
		o1 := opOf(p1)
		if o1[0] != "provision" {
			continue
		}
		mids := [][]*graph.Edge{{}}
		for _, h := range g.Out[p1.To] {
			if o := opOf(h); o[0] == "handshake" && o[1] == "c1" {
				mids = append(mids, []*graph.Edge{h})
			}
		}
		for _, mid := range mids {
			cur := p1.To
			if len(mid) > 0 {
				cur = mid[0].To
			}
			for _, cl := range g.Out[cur] {
				if opOf(cl)[0] != "cleanup" || cfgOf(cl.To) == cfgOf(cl.From) {
					continue
				}
				for _, p2 := range g.Out[cl.To] {
					o2 := opOf(p2)
					if o2[0] != "provision" || !same(o1[1], o2[1]) {
						continue
					}
					w := append(append([]*graph.Edge{p1}, mid...), cl, p2)
					cur2 := p2.To
					if len(mid) > 0 {
						for _, h2 := range g.Out[cur2] {
							if o := opOf(h2); o[0] == "handshake" && o[1] == "c1" && (len(o) < 3 || same(o[2], opOf(mid[0])[2])) {
								w = append(w, h2)
								cur2 = h2.To
								break
							}
						}
					}
					for _, h3 := range g.Out[cur2] {
						if o := opOf(h3); o[0] == "handshake" && o[1] == "c2" {
							w = append(w, h3)
							break
						}
					}
					out = append(out, w)
				}
			}
		}
	}
	return out
}

// sameBytesWorld: does the hub world of this seed serve identical bytes for a document that is published again? (mirrors the
// first draw of newHubWorld)
func sameBytesWorld(seed int64) bool {
	return rand.New(rand.NewSource(seed*0x9E3779B9+77)).Intn(2) == 0
}

// ---- C15 (API level): a list that a refresh pass or a background load took in is in force ----------
func predC15hub(c *vk.Ctx, o *hubObs) {
	if (o.Op[0] == "refresh" || o.Op[0] == "bgload") && o.Cfg.CrlOn() && o.Fetched != nil {
		// the statement itself: a pass fetches every CRL the validator knows. Model and code agreed on every observable up to this
		// step (a walk ends at its first difference), so the locations the model's pass fetches are known to the code as well.
		for _, l := range []string{"D", "U"} {
			if l == "U" && o.Cfg.Conf != "url" {
				continue // a file is not observable at an origin
			}
			if o.Exp.Fetch[l] > 0 && o.Fetched[l] == 0 && !(o.Refetched != nil && o.Refetched[l] > 0) {
				c.Violation(fmt.Sprintf("known-crl-not-fetched-by-pass:loc=%s:pass=%s:sig=%s:fetch=%s", l, o.Op[0], o.Cfg.Sig, o.Cfg.Fetch),
					fmt.Sprintf("the %s pass did not contact the origin of location %s although the validator knows that CRL (it was taken in earlier in this history); cfg=%s", o.Op[0], l, o.Cfg), hubReplay(o))
			}
		}
		return
	}
	if o.Op[0] != "handshake" || !o.Cfg.CrlOn() || !realDecided(o.Verdict) {
		return
	}
	cert := o.Exp.Cert
	if !o.Exp.Listed[cert] || o.Verdict != "accept" {
		return
	}
	// which step took the list in, and was there a failed attempt at that location before?
	by, failedBefore := "", false
	for _, st := range o.Hist {
		var op []any
		jsonUnmarshal(st.Op, &op)
		var exp hubExpect
		jsonUnmarshal(st.Expect, &exp)
		for _, l := range []string{"D", "U"} {
			if exp.Fetch[l] > 0 {
				if exp.Inforce[l] {
					by = fmt.Sprint(op[0])
				} else if by == "" {
					failedBefore = true
				}
			}
		}
	}
	if by != "refresh" && by != "bgload" {
		return // taken in by the handshake itself or at Provision: C01 / C16 territory
	}
	c.Violation(fmt.Sprintf("pass-took-list-in-but-not-in-force:by=%s:after-failed-attempt=%v:fetch=%s:sig=%s", by, failedBefore, o.Cfg.Fetch, o.Cfg.Sig),
		fmt.Sprintf("a %s pass fetched an acceptable CRL that lists %s (earlier failed attempt at the location: %v), yet the certificate is accepted afterwards; cfg=%s", by, cert, failedBefore, o.Cfg), hubReplay(o))
}

// c10Overlap: StrictGate and LenientNeverDenies are properties of an INSTANCE and its own configuration. Caddy provisions the
// modules of a new configuration before it cleans up the old ones, so two instances on one work_dir overlap for a moment (the
// current code refuses the second Provision unless the directory is spelt differently; an implementation that admits it must keep
// the instances' options apart). Instance A (lenient or strict) is up; instance B with the opposite crl_cdp_strict is provisioned
// on the same directory; if that succeeds, B is judged by B's option while A is still up and after A was cleaned up.
func c10Overlap(c *vk.Ctx) int {
	n := 0
	for _, disk := range []bool{false, true} {
		for _, firstStrict := range []bool{false, true} {
			for _, spelling := range []string{"same", "trailing-slash"} {
				org := origin.New()
				ca := pki.NewCA(pki.CAOpts{Name: "Overlap CA", Serial: 640})
				leaf := ca.Leaf(pki.LeafOpts{CN: "overlap", Serial: big.NewInt(6401), CDP: []string{org.URL + "/overlap.crl"}})
				chain := pki.Chain(leaf.Cert, ca)
				org.SetBody("/overlap.crl", []byte("<html>503</html>")) // the distribution point's CRL cannot be obtained
				mk := func(strict bool) world.Cfg {
					return world.Cfg{Mode: "crl_only", Storage: backendName(disk), Sig: "verify", Fetch: "fetch_actively", CdpStrict: strict, Interval: "1h"}
				}
				a, err := world.New(mk(firstStrict))
				if err != nil {
					c.Infra("world: %v", err)
				}
				if err := a.Provision(); err != nil {
					c.Infra("provision: %v", err)
				}
				ra := a.Handshake(chain)
				b := &world.World{Sandbox: a.Sandbox, WorkDir: a.WorkDir, Cfg: mk(!firstStrict)}
				if spelling == "trailing-slash" {
					b.WorkDirAs = a.WorkDir + string(os.PathSeparator)
				}
				perr := b.Provision()
				rep := map[string]any{"backend": backendName(disk), "first_instance_strict": firstStrict, "work_dir_spelling": spelling, "second_provision": fmt.Sprint(perr), "first_instance_verdict": ra.Verdict}
				n++
				c.Eval(fmt.Sprintf("overlap|%v|%v|%s", disk, firstStrict, spelling))
				judge := func(when string) {
					r := b.Handshake(chain)
					bStrict := !firstStrict
					if bStrict && r.Verdict == "accept" {
						c.Violation(fmt.Sprintf("strict:accepted-without-crl-in-force:overlapping-instances:%s", when),
							fmt.Sprintf("instance B (crl_cdp_strict on) was provisioned on the work_dir of instance A (off) %s: it accepts a certificate whose distribution-point CRL is not in force", when), rep)
					}
					if !bStrict && r.Verdict != "accept" {
						c.Violation(fmt.Sprintf("lenient:denied-by-cdp-trouble:overlapping-instances:%s", when),
							fmt.Sprintf("instance B (crl_cdp_strict off) was provisioned on the work_dir of instance A (on) %s: it denies a certificate only because its distribution-point CRL cannot be obtained (%s)", when, r.Err), rep)
					}
				}
				if perr == nil {
					judge("while-A-is-up")
					a.Cleanup()
					judge("after-A-was-cleaned-up")
					b.Cleanup()
				} else {
					a.Cleanup()
				}
				a.V, b.V = nil, nil
				os.RemoveAll(a.Sandbox)
				org.Close()
			}
		}
	}
	return n
}
