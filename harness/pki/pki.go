// Package pki builds the concrete PKI objects (CAs, leaves, CRLs, OCSP responses) that the
// abstract values of the TLA+ specification are mapped to by the concretiser.
package pki

import (
	"crypto"
	"crypto/ecdsa"
	"crypto/elliptic"
	"crypto/rand"
	"crypto/rsa"
	"crypto/sha1"
	"crypto/x509"
	"crypto/x509/pkix"
	"encoding/asn1"
	"encoding/pem"
	"fmt"
	"math/big"
	"sync"
	"time"

	"golang.org/x/crypto/ocsp"
)

type CA struct {
	Name string
	Key  crypto.Signer
	Cert *x509.Certificate
	Alg  string // "ecdsa" | "rsa"
}

var (
	rsaMu   sync.Mutex
	rsaPool []*rsa.PrivateKey
	rsaNext int
)

// RSAKey returns an RSA key from a small process-wide pool (generation is slow).
func RSAKey(i int) *rsa.PrivateKey {
	rsaMu.Lock()
	defer rsaMu.Unlock()
	for len(rsaPool) <= i {
		k, err := rsa.GenerateKey(rand.Reader, 2048)
		if err != nil {
			panic(err)
		}
		rsaPool = append(rsaPool, k)
	}
	return rsaPool[i]
}

func ECKey() *ecdsa.PrivateKey {
	k, err := ecdsa.GenerateKey(elliptic.P256(), rand.Reader)
	if err != nil {
		panic(err)
	}
	return k
}

func ski(pub crypto.PublicKey) []byte {
	b, _ := x509.MarshalPKIXPublicKey(pub)
	h := sha1.Sum(b)
	return h[:]
}

type CAOpts struct {
	Name       string
	RSAIndex   int // >=0 with Alg rsa: index into the RSA pool
	Alg        string
	Parent     *CA
	Serial     int64
	KeyUsage   x509.KeyUsage // 0 => CertSign|CRLSign ; -1 => none
	NoKeyUsage bool
	NoSKI      bool
	ExtKU      []x509.ExtKeyUsage
	NotCA      bool
	SKI        []byte // force this subject key identifier
	OCSP       []string
	CDP        []string
	RawName    []byte // DER of the subject name, for names crypto/x509 would not produce (attribute order, unusual attribute types)
}

// Attr is one attribute of a distinguished name.
type Attr struct {
	OID   asn1.ObjectIdentifier
	Value string
}

var (
	OidC     = asn1.ObjectIdentifier{2, 5, 4, 6}
	OidO     = asn1.ObjectIdentifier{2, 5, 4, 10}
	OidOU    = asn1.ObjectIdentifier{2, 5, 4, 11}
	OidCN    = asn1.ObjectIdentifier{2, 5, 4, 3}
	OidDC    = asn1.ObjectIdentifier{0, 9, 2342, 19200300, 100, 1, 25}
	OidEmail = asn1.ObjectIdentifier{1, 2, 840, 113549, 1, 9, 1}
)

// RawName renders a distinguished name exactly as given: one RDN per inner slice (several attributes = a multi-valued RDN),
// in the given order.
func RawName(rdns ...[]Attr) []byte {
	var seq pkix.RDNSequence
	for _, r := range rdns {
		var set pkix.RelativeDistinguishedNameSET
		for _, a := range r {
			set = append(set, pkix.AttributeTypeAndValue{Type: a.OID, Value: a.Value})
		}
		seq = append(seq, set)
	}
	b, err := asn1.Marshal(seq)
	if err != nil {
		panic(err)
	}
	return b
}

// NewCA creates a self-signed CA or, with Parent, an intermediate.
func NewCA(o CAOpts) *CA {
	var key crypto.Signer
	if o.Alg == "rsa" {
		key = RSAKey(o.RSAIndex)
	} else {
		o.Alg = "ecdsa"
		key = ECKey()
	}
	serial := o.Serial
	if serial == 0 {
		serial = 1000 + int64(time.Now().UnixNano()%100000)
	}
	ku := o.KeyUsage
	if ku == 0 && !o.NoKeyUsage {
		ku = x509.KeyUsageCertSign | x509.KeyUsageCRLSign
	}
	if o.NoKeyUsage {
		ku = 0
	}
	tmpl := &x509.Certificate{SerialNumber: big.NewInt(serial), Subject: pkix.Name{CommonName: o.Name, Organization: []string{"verif"}},
		NotBefore: time.Now().Add(-24 * time.Hour), NotAfter: time.Now().Add(24 * 365 * time.Hour), IsCA: !o.NotCA, BasicConstraintsValid: true,
		KeyUsage: ku, ExtKeyUsage: o.ExtKU, OCSPServer: o.OCSP, CRLDistributionPoints: o.CDP}
	if o.RawName != nil {
		tmpl.RawSubject = o.RawName
	}
	if !o.NoSKI {
		tmpl.SubjectKeyId = ski(key.Public())
		if o.SKI != nil {
			tmpl.SubjectKeyId = o.SKI
		}
	}
	parentCert, parentKey := tmpl, key
	if o.Parent != nil {
		parentCert, parentKey = o.Parent.Cert, o.Parent.Key
	}
	der, err := x509.CreateCertificate(rand.Reader, tmpl, parentCert, key.Public(), parentKey)
	if err != nil {
		panic(fmt.Sprintf("create CA %s: %v", o.Name, err))
	}
	c, err := x509.ParseCertificate(der)
	if err != nil {
		panic(err)
	}
	return &CA{Name: o.Name, Key: key, Cert: c, Alg: o.Alg}
}

type LeafOpts struct {
	CN         string
	Serial     *big.Int
	CDP        []string
	OCSP       []string
	KeyUsage   x509.KeyUsage
	Key        crypto.Signer
	NoKeyUsage bool // no keyUsage extension at all
}

type Leaf struct {
	Cert *x509.Certificate
	Key  crypto.Signer
}

func (ca *CA) Leaf(o LeafOpts) *Leaf {
	key := o.Key
	if key == nil {
		key = ECKey()
	}
	if o.CN == "" {
		o.CN = "leaf"
	}
	ku := o.KeyUsage
	if ku == 0 {
		ku = x509.KeyUsageDigitalSignature
	}
	if o.NoKeyUsage {
		ku = 0
	}
	tmpl := &x509.Certificate{SerialNumber: o.Serial, Subject: pkix.Name{CommonName: o.CN, Organization: []string{"verif"}},
		NotBefore: time.Now().Add(-time.Hour), NotAfter: time.Now().Add(24 * 30 * time.Hour),
		KeyUsage: ku, ExtKeyUsage: []x509.ExtKeyUsage{x509.ExtKeyUsageClientAuth},
		CRLDistributionPoints: o.CDP, OCSPServer: o.OCSP, SubjectKeyId: ski(key.Public())}
	der, err := x509.CreateCertificate(rand.Reader, tmpl, ca.Cert, key.Public(), ca.Key)
	if err != nil {
		panic(fmt.Sprintf("create leaf: %v", err))
	}
	c, err := x509.ParseCertificate(der)
	if err != nil {
		panic(err)
	}
	return &Leaf{Cert: c, Key: key}
}

// Chain returns [leaf, ca, (parents...)] as a verified chain.
func Chain(leaf *x509.Certificate, cas ...*CA) [][]*x509.Certificate {
	ch := []*x509.Certificate{leaf}
	for _, c := range cas {
		ch = append(ch, c.Cert)
	}
	return [][]*x509.Certificate{ch}
}

type CRLEntry struct {
	Serial *big.Int
	Time   time.Time
	Reason int // 0 = none
	Extra  []pkix.Extension
}

// StdCRL builds a v2 CRL with the standard library (AKI keyId + cRLNumber).
func (ca *CA) StdCRL(number int64, entries []CRLEntry, thisUpdate, nextUpdate time.Time) []byte {
	return ca.StdCRLExt(number, entries, thisUpdate, nextUpdate, nil)
}

// StdCRLExt is StdCRL with extra CRL extensions.
func (ca *CA) StdCRLExt(number int64, entries []CRLEntry, thisUpdate, nextUpdate time.Time, extra []pkix.Extension) []byte {
	var es []x509.RevocationListEntry
	for _, e := range entries {
		t := e.Time
		if t.IsZero() {
			t = thisUpdate
		}
		es = append(es, x509.RevocationListEntry{SerialNumber: e.Serial, RevocationTime: t, ReasonCode: e.Reason, ExtraExtensions: e.Extra})
	}
	d, err := x509.CreateRevocationList(rand.Reader, &x509.RevocationList{Number: big.NewInt(number), ThisUpdate: thisUpdate, NextUpdate: nextUpdate,
		RevokedCertificateEntries: es, ExtraExtensions: extra}, ca.Cert, ca.Key)
	if err != nil {
		panic(fmt.Sprintf("create crl: %v", err))
	}
	return d
}

func (ca *CA) SimpleCRL(number int64, serials ...int64) []byte {
	var es []CRLEntry
	for _, s := range serials {
		es = append(es, CRLEntry{Serial: big.NewInt(s)})
	}
	now := time.Now().Add(-time.Minute).UTC().Truncate(time.Second)
	return ca.StdCRL(number, es, now, now.Add(24*time.Hour))
}

func PEMCRL(der []byte, crlf bool) []byte {
	b := pem.EncodeToMemory(&pem.Block{Type: "X509 CRL", Bytes: der})
	if crlf {
		out := make([]byte, 0, len(b)+len(b)/64)
		for _, c := range b {
			if c == '\n' {
				out = append(out, '\r')
			}
			out = append(out, c)
		}
		return out
	}
	return b
}

func PEMCert(c *x509.Certificate) []byte {
	return pem.EncodeToMemory(&pem.Block{Type: "CERTIFICATE", Bytes: c.Raw})
}

// OCSPOpts describes one OCSP response.
type OCSPOpts struct {
	Status     int // ocsp.Good / Revoked / Unknown
	Serial     *big.Int
	Issuer     *x509.Certificate // the certificate whose name/key hash goes into CertID
	Signer     *CA               // key that signs
	SignerCert *x509.Certificate // responder certificate (== Issuer for direct signing)
	Embed      bool              // embed SignerCert
	// EmbedCert: embed this certificate instead, while the responder id is still derived from SignerCert (a response whose
	// signed responder id names somebody else than the certificate that verifies its signature)
	EmbedCert *x509.Certificate
	ThisUpdate time.Time
	NextUpdate time.Time
}

func OCSPResponse(o OCSPOpts) []byte {
	tmpl := ocsp.Response{Status: o.Status, SerialNumber: o.Serial, ThisUpdate: o.ThisUpdate, NextUpdate: o.NextUpdate, IssuerHash: crypto.SHA1}
	if o.Status == ocsp.Revoked {
		tmpl.RevokedAt = o.ThisUpdate
		tmpl.RevocationReason = ocsp.KeyCompromise
	}
	if o.Embed {
		tmpl.Certificate = o.SignerCert
	}
	if o.EmbedCert != nil {
		tmpl.Certificate = o.EmbedCert
	}
	b, err := ocsp.CreateResponse(o.Issuer, o.SignerCert, tmpl, o.Signer.Key)
	if err != nil {
		panic(fmt.Sprintf("create ocsp response: %v", err))
	}
	return b
}

// OCSPErrorResponse returns a response that carries only an error status.
func OCSPErrorResponse(status int) []byte {
	type responseASN1 struct {
		Status asn1.Enumerated
	}
	b, _ := asn1.Marshal(responseASN1{asn1.Enumerated(status)})
	return b
}
