// Package origin is the scripted environment: an HTTP server whose paths serve CRLs or OCSP
// responses according to a per-path script, with per-path hit logs.
package origin

import (
	"crypto/sha1"
	"fmt"
	"io"
	"net/http"
	"net/http/httptest"
	"strconv"
	"sync"
	"syscall"
	"time"
)

// Behaviour of one path.
type Behaviour struct {
	Kind string // "body" (200 + Body), "status" (HTTP Status + Body), "hangup" (close connection mid-body), "func", "gated"
	Body []byte
	Code int
	Func func(req []byte) (int, []byte)
	// Gate ("gated"): called after the first half of Body has been sent and flushed; the rest follows when it returns. The
	// client is then inside its transfer: a scheduler gate (and crash point) that needs no hook in the client.
	Gate func()
}

type Server struct {
	srv  *httptest.Server
	mu   sync.Mutex
	beh  map[string]Behaviour
	hits map[string]int
	URL  string
}

func New() *Server {
	s := &Server{beh: map[string]Behaviour{}, hits: map[string]int{}}
	s.srv = httptest.NewServer(http.HandlerFunc(s.handle))
	s.URL = s.srv.URL
	return s
}

func (s *Server) Close() { s.srv.Close() }

func (s *Server) Set(path string, b Behaviour) {
	s.mu.Lock()
	defer s.mu.Unlock()
	s.beh[path] = b
}

func (s *Server) SetBody(path string, body []byte) { s.Set(path, Behaviour{Kind: "body", Body: body}) }

func (s *Server) Hits(path string) int {
	s.mu.Lock()
	defer s.mu.Unlock()
	return s.hits[path]
}

func (s *Server) TotalHits() int {
	s.mu.Lock()
	defer s.mu.Unlock()
	n := 0
	for _, v := range s.hits {
		n += v
	}
	return n
}

func (s *Server) ResetHits() {
	s.mu.Lock()
	defer s.mu.Unlock()
	s.hits = map[string]int{}
}

func (s *Server) handle(w http.ResponseWriter, r *http.Request) {
	// a path is scripted with or without its query; the query is part of the resource's name
	key := r.URL.Path
	if r.URL.RawQuery != "" {
		key += "?" + r.URL.RawQuery
	}
	s.mu.Lock()
	s.hits[key]++
	b, ok := s.beh[key]
	s.mu.Unlock()
	if !ok {
		http.Error(w, "not found", 404)
		return
	}
	// what servers of CAs send with CRLs and OCSP responses (RFC 5019 section 6): nothing of it is signed, nothing of it says how
	// long a status may be relied upon
	w.Header().Set("Cache-Control", "max-age=604800, public, no-transform, must-revalidate")
	w.Header().Set("Expires", time.Now().Add(7*24*time.Hour).UTC().Format(http.TimeFormat))
	w.Header().Set("Last-Modified", time.Now().Add(-time.Hour).UTC().Format(http.TimeFormat))
	switch b.Kind {
	case "body":
		// like any static file server: an entity tag, and 304 for a conditional request that names it
		etag := fmt.Sprintf("\"%x\"", sha1.Sum(b.Body))
		w.Header().Set("ETag", etag)
		if inm := r.Header.Get("If-None-Match"); inm != "" && inm == etag {
			w.WriteHeader(http.StatusNotModified)
			return
		}
		w.Write(b.Body)
	case "gated":
		w.Header().Set("Content-Length", strconv.Itoa(len(b.Body)))
		half := len(b.Body) / 2
		w.Write(b.Body[:half])
		if f, ok := w.(http.Flusher); ok {
			f.Flush()
		}
		if b.Gate != nil {
			b.Gate()
		}
		w.Write(b.Body[half:])
	case "status":
		w.WriteHeader(b.Code)
		w.Write(b.Body)
	case "hangup":
		// announce more than is sent, then cut the connection
		hj, ok := w.(http.Hijacker)
		if !ok {
			return
		}
		conn, buf, err := hj.Hijack()
		if err != nil {
			return
		}
		buf.WriteString("HTTP/1.1 200 OK\r\nContent-Length: 1000000\r\n\r\n")
		buf.Write(b.Body)
		buf.Flush()
		conn.Close()
	case "func":
		req, _ := io.ReadAll(r.Body)
		code, body := b.Func(req)
		if code != 200 {
			w.WriteHeader(code)
		}
		w.Write(body)
	}
}

// ClosedPortURL returns an http URL on which nothing listens (connection refused). The port is RESERVED for the life of the
// process: a socket is bound to it and never listens, so the kernel refuses every connection and hands the port to nobody else
// (a port that is merely closed again is given to the next listener of any process on the machine - a parallel world's origin
// then answers for the "dead" mirror, which is a different experiment from the one the model describes).
func ClosedPortURL() string {
	closedMu.Lock()
	defer closedMu.Unlock()
	if len(closedAddrs) < 16 {
		fd, err := syscall.Socket(syscall.AF_INET, syscall.SOCK_STREAM, 0)
		if err != nil {
			panic(err)
		}
		if err := syscall.Bind(fd, &syscall.SockaddrInet4{Port: 0, Addr: [4]byte{127, 0, 0, 1}}); err != nil {
			panic(err)
		}
		sa, err := syscall.Getsockname(fd)
		if err != nil {
			panic(err)
		}
		closedAddrs = append(closedAddrs, fmt.Sprintf("127.0.0.1:%d", sa.(*syscall.SockaddrInet4).Port))
		return "http://" + closedAddrs[len(closedAddrs)-1]
	}
	closedNext++
	return "http://" + closedAddrs[closedNext%len(closedAddrs)]
}

var (
	closedMu    sync.Mutex
	closedAddrs []string
	closedNext  int
)
