// Package graph holds a labelled transition graph exported by TLC (one EDGE payload per
// transition) and produces walks over it: a covering tour (every edge at least once),
// all paths up to a length, seeded random walks.
package graph

import (
	"bytes"
	"encoding/json"
	"math/rand"
	"sort"
)

type Edge struct {
	From   string          // canonical JSON of the source state
	To     string          // canonical JSON of the target state
	Op     json.RawMessage // operation label
	Expect json.RawMessage // what the specification says is observable afterwards
	Raw    json.RawMessage // whole payload
	ID     int
}

type Graph struct {
	Edges []*Edge
	Out   map[string][]*Edge
	Init  string
	State map[string]json.RawMessage
}

type payload struct {
	From   json.RawMessage `json:"from"`
	To     json.RawMessage `json:"to"`
	Op     json.RawMessage `json:"op"`
	Expect json.RawMessage `json:"expect"`
}

func canon(b json.RawMessage) string {
	var v any
	if err := json.Unmarshal(b, &v); err != nil {
		return string(b)
	}
	out, _ := json.Marshal(v) // map keys sorted
	return string(out)
}

func New() *Graph {
	return &Graph{Out: map[string][]*Edge{}, State: map[string]json.RawMessage{}}
}

// AddPayload adds one exported edge.
func (g *Graph) AddPayload(raw json.RawMessage) error {
	var p payload
	if err := json.Unmarshal(raw, &p); err != nil {
		return err
	}
	e := &Edge{From: canon(p.From), To: canon(p.To), Op: append(json.RawMessage(nil), p.Op...), Expect: append(json.RawMessage(nil), p.Expect...),
		Raw: append(json.RawMessage(nil), raw...), ID: len(g.Edges)}
	g.Edges = append(g.Edges, e)
	g.Out[e.From] = append(g.Out[e.From], e)
	if _, ok := g.State[e.From]; !ok {
		g.State[e.From] = append(json.RawMessage(nil), p.From...)
	}
	if _, ok := g.State[e.To]; !ok {
		g.State[e.To] = append(json.RawMessage(nil), p.To...)
	}
	return nil
}

// Finish sorts edges deterministically (TLC's output order depends on worker scheduling) and sets Init.
func (g *Graph) Finish(init string) {
	sort.Slice(g.Edges, func(i, j int) bool {
		a, b := g.Edges[i], g.Edges[j]
		if a.From != b.From {
			return a.From < b.From
		}
		if c := bytes.Compare(a.Op, b.Op); c != 0 {
			return c < 0
		}
		return a.To < b.To
	})
	// drop exact duplicates (same from/op/to can be printed twice when two disjuncts coincide)
	out := g.Edges[:0]
	var prev *Edge
	for _, e := range g.Edges {
		if prev != nil && prev.From == e.From && prev.To == e.To && bytes.Equal(prev.Op, e.Op) {
			continue
		}
		out = append(out, e)
		prev = e
	}
	g.Edges = out
	g.Out = map[string][]*Edge{}
	for i, e := range g.Edges {
		e.ID = i
		g.Out[e.From] = append(g.Out[e.From], e)
	}
	g.Init = init
}

// InitFromCanon sets Init from raw JSON of the initial state.
func Canon(b json.RawMessage) string { return canon(b) }

// Tour returns walks from Init that together cover every edge reachable from Init at least once.
// Each walk is at most maxLen edges long (a new walk restarts from Init).
func (g *Graph) Tour(maxLen int, rng *rand.Rand) [][]*Edge {
	covered := make([]bool, len(g.Edges))
	remaining := 0
	reach := g.reachable()
	for _, e := range g.Edges {
		if reach[e.From] {
			remaining++
		} else {
			covered[e.ID] = true
		}
	}
	var walks [][]*Edge
	for remaining > 0 {
		var walk []*Edge
		cur := g.Init
		for len(walk) < maxLen {
			// uncovered out-edge?
			var pick *Edge
			outs := g.Out[cur]
			if len(outs) > 0 {
				off := rng.Intn(len(outs))
				for i := range outs {
					e := outs[(i+off)%len(outs)]
					if !covered[e.ID] {
						pick = e
						break
					}
				}
			}
			if pick == nil {
				path := g.pathToUncovered(cur, covered)
				if path == nil {
					break
				}
				if len(walk)+len(path) > maxLen && len(walk) > 0 {
					break
				}
				for _, e := range path {
					walk = append(walk, e)
					if !covered[e.ID] {
						covered[e.ID] = true
						remaining--
					}
					cur = e.To
				}
				continue
			}
			covered[pick.ID] = true
			remaining--
			walk = append(walk, pick)
			cur = pick.To
		}
		if len(walk) == 0 {
			break
		}
		walks = append(walks, walk)
	}
	return walks
}

func (g *Graph) reachable() map[string]bool {
	seen := map[string]bool{g.Init: true}
	q := []string{g.Init}
	for len(q) > 0 {
		s := q[0]
		q = q[1:]
		for _, e := range g.Out[s] {
			if !seen[e.To] {
				seen[e.To] = true
				q = append(q, e.To)
			}
		}
	}
	return seen
}

// pathToUncovered: BFS from cur to the nearest state with an uncovered out-edge; returns the path
// including that uncovered edge.
func (g *Graph) pathToUncovered(cur string, covered []bool) []*Edge {
	type item struct {
		s    string
		prev *item
		via  *Edge
	}
	seen := map[string]bool{cur: true}
	q := []*item{{s: cur}}
	for len(q) > 0 {
		it := q[0]
		q = q[1:]
		for _, e := range g.Out[it.s] {
			if !covered[e.ID] {
				path := []*Edge{e}
				for p := it; p.via != nil; p = p.prev {
					path = append([]*Edge{p.via}, path...)
				}
				return path
			}
		}
		for _, e := range g.Out[it.s] {
			if !seen[e.To] {
				seen[e.To] = true
				q = append(q, &item{s: e.To, prev: it, via: e})
			}
		}
	}
	return nil
}

// RandomWalk returns one seeded walk of n edges from Init.
func (g *Graph) RandomWalk(n int, rng *rand.Rand) []*Edge {
	var walk []*Edge
	cur := g.Init
	for len(walk) < n {
		outs := g.Out[cur]
		if len(outs) == 0 {
			break
		}
		e := outs[rng.Intn(len(outs))]
		walk = append(walk, e)
		cur = e.To
	}
	return walk
}

// AllPaths enumerates every path of length 1..n from Init, calling f with each (the slice is reused).
func (g *Graph) AllPaths(n int, f func(path []*Edge)) {
	var rec func(cur string, path []*Edge)
	rec = func(cur string, path []*Edge) {
		if len(path) > 0 {
			f(path)
		}
		if len(path) == n {
			return
		}
		for _, e := range g.Out[cur] {
			rec(e.To, append(path, e))
		}
	}
	rec(g.Init, nil)
}

// ShortestPath returns a shortest edge path from Init to state s (nil if s == Init or unreachable).
func (g *Graph) ShortestPath(s string) []*Edge {
	type item struct {
		s    string
		prev *item
		via  *Edge
	}
	seen := map[string]bool{g.Init: true}
	q := []*item{{s: g.Init}}
	for len(q) > 0 {
		it := q[0]
		q = q[1:]
		if it.s == s {
			var path []*Edge
			for p := it; p.via != nil; p = p.prev {
				path = append([]*Edge{p.via}, path...)
			}
			return path
		}
		for _, e := range g.Out[it.s] {
			if !seen[e.To] {
				seen[e.To] = true
				q = append(q, &item{s: e.To, prev: it, via: e})
			}
		}
	}
	return nil
}
