// Package vk is the common kernel of every check: tier/seed handling, evidence writing,
// violation bookkeeping against /verif/known_findings.json, exit codes.
package vk

import (
	"encoding/json"
	"fmt"
	"math/rand"
	"os"
	"path/filepath"
	"sort"
	"strconv"
	"strings"
	"sync"
	"time"
)

const (
	ExitOK    = 0
	ExitViol  = 1
	ExitInfra = 2
)

func Root() string {
	if r := os.Getenv("VERIF_ROOT"); r != "" {
		return r
	}
	return "/verif"
}

func SpecDir() string { return filepath.Join(Root(), "spec") }

// Finding is one entry of known_findings.json.
type Finding struct {
	Status      string `json:"status"` // "open" | "fixed"
	Property    string `json:"property"`
	Signature   string `json:"signature,omitempty"` // open: exact signature (a trailing * is a prefix match)
	Description string `json:"description,omitempty"`
	Commit      string `json:"commit,omitempty"` // fixed
	What        string `json:"what,omitempty"`   // fixed
}

type findingsFile struct {
	Findings []Finding `json:"findings"`
}

// Ctx carries one check run.
type Ctx struct {
	ID    string
	Tier  string
	Seed  int64
	Level string
	Rng   *rand.Rand
	start time.Time

	mu          sync.Mutex
	cov         map[string]any
	samples     []any
	assumptions []string
	viols       []violation
	known       map[string]int
	drift       map[string]int
	distinct    map[string]struct{}
	evals       int64
	findings    []Finding
	replayN     int
	ReplayPath  string
}

type violation struct {
	Sig    string
	Replay string
}

func New(id, tier string) *Ctx {
	seed := int64(1)
	if s := os.Getenv("VERIF_SEED"); s != "" {
		if v, err := strconv.ParseInt(s, 10, 64); err == nil {
			seed = v
		}
	}
	if tier == "" {
		tier = os.Getenv("VERIF_TIER")
	}
	if tier == "" {
		tier = "quick"
	}
	c := &Ctx{ID: id, Tier: tier, Seed: seed, Level: "model_checking", Rng: rand.New(rand.NewSource(seed)), start: time.Now(),
		cov: map[string]any{}, known: map[string]int{}, drift: map[string]int{}, distinct: map[string]struct{}{}}
	b, err := os.ReadFile(filepath.Join(Root(), "known_findings.json"))
	if err == nil {
		var ff findingsFile
		if json.Unmarshal(b, &ff) == nil {
			c.findings = ff.Findings
		}
	}
	return c
}

func (c *Ctx) Thorough() bool { return c.Tier == "thorough" }

// Pick returns q in the quick tier and t in the thorough tier.
func (c *Ctx) Pick(q, t int) int {
	if c.Thorough() {
		return t
	}
	return q
}

func (c *Ctx) Set(key string, v any) {
	c.mu.Lock()
	defer c.mu.Unlock()
	c.cov[key] = v
}

func (c *Ctx) Add(key string, n int64) {
	c.mu.Lock()
	defer c.mu.Unlock()
	cur, _ := c.cov[key].(int64)
	c.cov[key] = cur + n
}

func (c *Ctx) Assume(s string) {
	c.mu.Lock()
	defer c.mu.Unlock()
	for _, a := range c.assumptions {
		if a == s {
			return
		}
	}
	c.assumptions = append(c.assumptions, s)
}

// Eval counts one executed case; key identifies the case for the distinct-nontrivial count ("" = trivial).
func (c *Ctx) Eval(key string) {
	c.mu.Lock()
	defer c.mu.Unlock()
	c.evals++
	if key != "" {
		c.distinct[key] = struct{}{}
	}
}

func (c *Ctx) Sample(v any) {
	c.mu.Lock()
	defer c.mu.Unlock()
	if len(c.samples) < 6 {
		c.samples = append(c.samples, v)
	}
}

// Drift records a difference between model and code that is outside the property's predicate.
func (c *Ctx) Drift(kind string) {
	c.mu.Lock()
	defer c.mu.Unlock()
	c.drift[kind]++
}

func (c *Ctx) matchKnown(sig string) bool {
	for _, f := range c.findings {
		if f.Status != "open" || f.Property != c.ID {
			continue
		}
		if f.Signature == sig {
			return true
		}
		if strings.HasSuffix(f.Signature, "*") && strings.HasPrefix(sig, strings.TrimSuffix(f.Signature, "*")) {
			return true
		}
	}
	return false
}

// Violation reports that the property's own predicate failed on the real code.
// sig identifies the failing input / call site / history class; replay is written to evidence/replays.
func (c *Ctx) Violation(sig string, what string, replay any) {
	c.mu.Lock()
	defer c.mu.Unlock()
	if c.matchKnown(sig) {
		if c.known[sig] == 0 {
			fmt.Printf("KNOWN-FINDING: property=%s %s (%s)\n", c.ID, sig, what)
		}
		c.known[sig]++
		return
	}
	for _, v := range c.viols {
		if v.Sig == sig {
			return // one line per signature
		}
	}
	c.replayN++
	dir := filepath.Join(Root(), "evidence", "replays")
	os.MkdirAll(dir, 0o755)
	path := filepath.Join(dir, fmt.Sprintf("%s-%s-%d.json", c.ID, c.Tier, c.replayN))
	b, _ := json.MarshalIndent(map[string]any{"property": c.ID, "signature": sig, "what": what, "seed": c.Seed, "tier": c.Tier, "replay": replay}, "", " ")
	os.WriteFile(path, b, 0o644)
	c.viols = append(c.viols, violation{sig, path})
	fmt.Printf("VIOLATION property=%s replay=%s\n", c.ID, path)
	fmt.Printf("  signature=%s\n  what=%s\n", sig, what)
}

func (c *Ctx) Violations() int {
	c.mu.Lock()
	defer c.mu.Unlock()
	return len(c.viols)
}

// Infra aborts the check with exit 2 (never a violation).
func (c *Ctx) Infra(format string, a ...any) {
	fmt.Printf("INFRA property=%s: %s\n", c.ID, fmt.Sprintf(format, a...))
	if c.Violations() > 0 {
		// violations that were already established on the real code stand; what could not be run afterwards (often because of
		// them) does not turn the result into "nothing decided"
		os.Exit(c.Finish())
	}
	os.Exit(ExitInfra)
}

// Finish writes the evidence file and returns the exit code.
func (c *Ctx) Finish() int {
	c.mu.Lock()
	defer c.mu.Unlock()
	cov := c.cov
	cov["evaluations"] = c.evals
	cov["distinct_nontrivial"] = int64(len(c.distinct))
	if len(c.samples) > 0 {
		cov["samples"] = c.samples
	}
	if len(c.drift) > 0 {
		cov["drift"] = c.drift
	}
	if len(c.known) > 0 {
		ks := make([]string, 0, len(c.known))
		for k := range c.known {
			ks = append(ks, k)
		}
		sort.Strings(ks)
		cov["known_findings_reproduced"] = ks
	}
	ev := map[string]any{
		"property_id": c.ID, "tier": c.Tier, "seed": c.Seed, "level": c.Level, "coverage": cov,
		"assumptions": c.assumptions, "wall_s": time.Since(c.start).Seconds(), "violations": len(c.viols),
	}
	if c.assumptions == nil {
		ev["assumptions"] = []string{}
	}
	b, err := json.MarshalIndent(ev, "", " ")
	if err != nil {
		fmt.Fprintln(os.Stderr, "evidence marshal:", err)
		return ExitInfra
	}
	dir := filepath.Join(Root(), "evidence")
	os.MkdirAll(dir, 0o755)
	if err := os.WriteFile(filepath.Join(dir, c.ID+".json"), b, 0o644); err != nil {
		fmt.Fprintln(os.Stderr, "evidence write:", err)
		return ExitInfra
	}
	fmt.Printf("property=%s tier=%s seed=%d evaluations=%d distinct=%d violations=%d known=%d wall=%.1fs\n",
		c.ID, c.Tier, c.Seed, c.evals, len(c.distinct), len(c.viols), len(c.known), time.Since(c.start).Seconds())
	if len(c.viols) > 0 {
		return ExitViol
	}
	return ExitOK
}
