// Package world drives one real CertRevocationValidator (built from /repo's working tree with the
// verif hooks) inside a private sandbox directory, and projects its state for comparison with the
// specification.
package world

import (
	"crypto/x509"
	"encoding/json"
	"fmt"
	"os"
	"path/filepath"
	"regexp"
	"sort"
	"sync"
	"sync/atomic"
	"time"

	"github.com/caddyserver/caddy/v2"
	revocation "github.com/gr33nbl00d/caddy-revocation-validator"
	"github.com/gr33nbl00d/caddy-revocation-validator/config"
	"github.com/gr33nbl00d/caddy-revocation-validator/core/verifhook"
	"github.com/muesli/cache2go"
)

// Cfg is the abstract configuration of one validator.
type Cfg struct {
	Mode      string   `json:"mode"`    // "" = unset
	Storage   string   `json:"storage"` // "memory" | "disk" | ""
	Sig       string   `json:"sig"`     // "none" | "verify_log" | "verify" | ""
	Fetch     string   `json:"fetch"`   // "fetch_actively" | "fetch_background" | ""
	CdpStrict bool     `json:"cdp_strict"`
	AiaStrict bool     `json:"aia_strict"`
	CacheDur  string   `json:"cache_dur"`
	Interval  string   `json:"interval"`
	CRLUrls   []string `json:"crl_urls"`
	CRLFiles  []string `json:"crl_files"`
	Trusted   []string `json:"trusted"`
	NoCRLCfg  bool     `json:"no_crl_cfg"`
	NoOCSPCfg bool     `json:"no_ocsp_cfg"`
}

type World struct {
	Sandbox string // parent directory (for "nothing outside work_dir" diffs)
	WorkDir string
	Cfg     Cfg
	V       *revocation.CertRevocationValidator
	Hooks   *HookState
	// WorkDirAs: how the configuration spells work_dir ("" = WorkDir itself, a clean absolute path)
	WorkDirAs string
	// NoInitialPassWait: Provision returns as the validator's Provision does, without waiting for the first pass of the ticker
	// goroutine (for checks about what holds at that very moment)
	NoInitialPassWait bool
}

// ConfiguredWorkDir is the work_dir string of the configuration.
func (w *World) ConfiguredWorkDir() string {
	if w.WorkDirAs != "" {
		return w.WorkDirAs
	}
	return w.WorkDir
}

// ---------------------------------------------------------------------------------------------
// hook state: counters, blocking gates, event log
// ---------------------------------------------------------------------------------------------

type Event struct {
	Seq  int64
	Site string
	Args []any
}

type HookState struct {
	mu      sync.Mutex
	cond    *sync.Cond
	counts  map[string]int
	gates   map[string]chan struct{} // site -> channel that must be closed before a goroutine may pass
	waiting map[string]int           // number of goroutines parked at site
	seq     int64
	Log     []Event
	LogOn   bool
	OnHit   func(site string, kv []any) // extra callback (called outside the mutex)
	// BlockForced parks forced background updates (crl.update.enter force=true from goroutines spawned by IsRevoked)
	// until ReleaseForced is called.
	blockForced  bool
	forcedGate   chan struct{}
	forcedParked int
	directCall   bool
}

var (
	globalMu    sync.Mutex
	globalHooks *HookState
)

func NewHooks() *HookState {
	h := &HookState{counts: map[string]int{}, gates: map[string]chan struct{}{}, waiting: map[string]int{}}
	h.cond = sync.NewCond(&h.mu)
	return h
}

// Events returns a copy of the event log.
func (h *HookState) Events() []Event {
	h.mu.Lock()
	defer h.mu.Unlock()
	return append([]Event(nil), h.Log...)
}

// Install makes h the process-wide hook handler.
func (h *HookState) Install() {
	globalMu.Lock()
	globalHooks = h
	globalMu.Unlock()
	SetHandler(func(site string, kv ...any) { h.hit(site, kv) })
}

func Uninstall() { SetHandler(nil) }

// SetHandler installs a hook handler (nil: none). Whatever handler a check installs, the passes of the refreshers that have
// returned are counted per checker, so that Provision can wait for the pass which the ticker goroutine runs right after its
// start: left alone, that pass may be scheduled late (a loaded machine) and then re-fetch a location in the middle of a replayed
// history, which no step of the specification accounts for.
func SetHandler(h func(site string, kv ...any)) {
	verifhook.Set(func(site string, kv ...any) {
		if site == "crl.update.exit" && len(kv) > 0 {
			passMu.Lock()
			passExits[kv[0]]++
			passMu.Unlock()
		}
		if h != nil {
			h(site, kv...)
		}
	})
}

var (
	passMu    sync.Mutex
	passExits = map[any]int{}
)

// every process that uses a World counts returned passes from the start, also when no check installs a handler of its own
func init() { SetHandler(nil) }

func passesReturned(checker any) int {
	passMu.Lock()
	defer passMu.Unlock()
	return passExits[checker]
}

func forgetChecker(checker any) {
	passMu.Lock()
	delete(passExits, checker)
	passMu.Unlock()
}

func (h *HookState) hit(site string, kv []any) {
	h.mu.Lock()
	h.counts[site]++
	h.seq++
	if h.LogOn {
		h.Log = append(h.Log, Event{h.seq, site, kv})
	}
	var gate chan struct{}
	if g, ok := h.gates[site]; ok {
		gate = g
		h.waiting[site]++
	}
	var fg chan struct{}
	if site == "crl.update.enter" && h.blockForced && len(kv) >= 2 {
		if f, _ := kv[1].(bool); f && !h.directCall {
			fg = h.forcedGate
			h.forcedParked++
		}
	}
	h.cond.Broadcast()
	cb := h.OnHit
	h.mu.Unlock()
	if cb != nil {
		cb(site, kv)
	}
	if gate != nil {
		<-gate
		h.mu.Lock()
		h.waiting[site]--
		h.cond.Broadcast()
		h.mu.Unlock()
	}
	if fg != nil {
		<-fg
	}
}

func (h *HookState) Count(site string) int {
	h.mu.Lock()
	defer h.mu.Unlock()
	return h.counts[site]
}

// WaitCount waits until site has been hit at least n times (true) or the timeout expires (false).
func (h *HookState) WaitCount(site string, n int, timeout time.Duration) bool {
	deadline := time.Now().Add(timeout)
	h.mu.Lock()
	defer h.mu.Unlock()
	for h.counts[site] < n {
		if time.Now().After(deadline) {
			return false
		}
		waitCond(h.cond, 20*time.Millisecond)
	}
	return true
}

func waitCond(c *sync.Cond, d time.Duration) {
	t := time.AfterFunc(d, func() { c.Broadcast() })
	c.Wait()
	t.Stop()
}

// Gate makes every goroutine reaching site park until Open(site).
func (h *HookState) Gate(site string) {
	h.mu.Lock()
	defer h.mu.Unlock()
	if _, ok := h.gates[site]; !ok {
		h.gates[site] = make(chan struct{})
	}
}

func (h *HookState) Open(site string) {
	h.mu.Lock()
	defer h.mu.Unlock()
	if g, ok := h.gates[site]; ok {
		close(g)
		delete(h.gates, site)
	}
}

// WaitParked waits until n goroutines are parked at site.
func (h *HookState) WaitParked(site string, n int, timeout time.Duration) bool {
	deadline := time.Now().Add(timeout)
	h.mu.Lock()
	defer h.mu.Unlock()
	for h.waiting[site] < n {
		if time.Now().After(deadline) {
			return false
		}
		waitCond(h.cond, 20*time.Millisecond)
	}
	return true
}

// BlockForced: forced background updates spawned by handshakes park at crl.update.enter until ReleaseForced.
func (h *HookState) BlockForced() {
	h.mu.Lock()
	defer h.mu.Unlock()
	h.blockForced = true
	h.forcedGate = make(chan struct{})
	h.forcedParked = 0
}

func (h *HookState) ForcedParked() int {
	h.mu.Lock()
	defer h.mu.Unlock()
	return h.forcedParked
}

// WaitForcedParked waits until n forced updates are parked.
func (h *HookState) WaitForcedParked(n int, timeout time.Duration) bool {
	deadline := time.Now().Add(timeout)
	h.mu.Lock()
	defer h.mu.Unlock()
	for h.forcedParked < n {
		if time.Now().After(deadline) {
			return false
		}
		waitCond(h.cond, 20*time.Millisecond)
	}
	return true
}

// ReleaseForced lets all parked forced updates run and waits until the update passes have exited.
func (h *HookState) ReleaseForced(timeout time.Duration) bool {
	h.mu.Lock()
	n := h.forcedParked
	exitsBefore := h.counts["crl.update.exit"]
	if h.forcedGate != nil {
		close(h.forcedGate)
	}
	h.forcedGate = make(chan struct{})
	h.forcedParked = 0
	h.mu.Unlock()
	if n == 0 {
		return true
	}
	return h.WaitCount("crl.update.exit", exitsBefore+n, timeout)
}

// directCall marks updates invoked synchronously by the harness itself (never parked).
func (h *HookState) SetDirect(b bool) {
	h.mu.Lock()
	h.directCall = b
	h.mu.Unlock()
}

// ---------------------------------------------------------------------------------------------
// world
// ---------------------------------------------------------------------------------------------

var workDirNames atomic.Int64

func New(cfg Cfg) (*World, error) {
	sb, err := os.MkdirTemp("", "verif.world.")
	if err != nil {
		return nil, err
	}
	// how the operator named the directory is a dimension like any other: plain, or with characters that mean something to a
	// shell pattern, a URL or a printf (a path is data wherever it is used)
	names := []string{"work", "crl[prod]", "work", "w?rk d*r %s", "work", "crl{a,b}#1"}
	w := &World{Sandbox: sb, WorkDir: filepath.Join(sb, names[int(workDirNames.Add(1))%len(names)]), Cfg: cfg}
	if err := os.Mkdir(w.WorkDir, 0o755); err != nil {
		return nil, err
	}
	return w, nil
}

func (w *World) Destroy() {
	if w.V != nil {
		w.Cleanup()
	}
	os.RemoveAll(w.Sandbox)
}

// JSON renders the configuration the way a Caddy JSON config would carry it.
func (w *World) JSON() []byte {
	m := map[string]any{}
	if w.Cfg.Mode != "" {
		m["mode"] = w.Cfg.Mode
	}
	if !w.Cfg.NoCRLCfg {
		c := map[string]any{"work_dir": w.ConfiguredWorkDir()}
		if w.Cfg.Storage != "" {
			c["storage_type"] = w.Cfg.Storage
		}
		if w.Cfg.Sig != "" {
			c["signature_validation_mode"] = w.Cfg.Sig
		}
		if w.Cfg.Interval != "" {
			c["update_interval"] = w.Cfg.Interval
		}
		if len(w.Cfg.CRLUrls) > 0 {
			c["crl_urls"] = w.Cfg.CRLUrls
		}
		if len(w.Cfg.CRLFiles) > 0 {
			c["crl_files"] = w.Cfg.CRLFiles
		}
		if len(w.Cfg.Trusted) > 0 {
			c["trusted_signature_certs_files"] = w.Cfg.Trusted
		}
		cdp := map[string]any{}
		if w.Cfg.Fetch != "" {
			cdp["crl_fetch_mode"] = w.Cfg.Fetch
		}
		if w.Cfg.CdpStrict {
			cdp["crl_cdp_strict"] = true
		}
		if len(cdp) > 0 {
			c["cdp_config"] = cdp
		}
		m["crl_config"] = c
	}
	if !w.Cfg.NoOCSPCfg {
		o := map[string]any{}
		if w.Cfg.CacheDur != "" {
			o["default_cache_duration"] = w.Cfg.CacheDur
		}
		if w.Cfg.AiaStrict {
			o["ocsp_aia_strict"] = true
		}
		m["ocsp_config"] = o
	}
	b, _ := json.Marshal(m)
	return b
}

// Provision builds a fresh validator from the JSON form of the configuration and provisions it.
// It waits for the initial refresh pass that the ticker goroutine runs right after start.
func (w *World) Provision() error {
	v := &revocation.CertRevocationValidator{}
	if err := caddy.StrictUnmarshalJSON(w.JSON(), v); err != nil {
		return fmt.Errorf("unmarshal: %w", err)
	}
	exits := 0
	if w.Hooks != nil {
		exits = w.Hooks.Count("crl.update.exit")
	}
	if err := v.Provision(caddy.Context{}); err != nil {
		// what Caddy does when provisioning a module fails: "incomplete provisioning could have left state dangling,
		// so make sure it gets cleaned up" - it calls Cleanup on the module
		func() {
			defer func() { recover() }()
			v.Cleanup()
		}()
		return err
	}
	w.V = v
	if w.NoInitialPassWait {
		return nil
	}
	if ch := v.VerifCRLChecker(); ch != nil && ch.VerifRepository() != nil {
		// the ticker goroutine runs one (possibly skipped) pass immediately
		if w.Hooks != nil {
			w.Hooks.WaitCount("crl.update.exit", exits+1, 20*time.Second)
		}
		for deadline := time.Now().Add(20 * time.Second); passesReturned(ch) == 0 && time.Now().Before(deadline); {
			time.Sleep(time.Millisecond)
		}
	}
	return nil
}

func (w *World) Cleanup() error {
	if w.V == nil {
		return nil
	}
	v := w.V
	w.V = nil
	if ch := v.VerifCRLChecker(); ch != nil {
		defer forgetChecker(ch)
	}
	return v.Cleanup()
}

// Verdict classes of a handshake.
const (
	Accept  = "accept"
	Revoked = "revoked"
	Error   = "error"
)

type Result struct {
	Verdict string
	Err     string
	Panic   string
}

// Handshake calls VerifyClientCertificate and classifies the outcome.
func (w *World) Handshake(chains [][]*x509.Certificate) (r Result) {
	defer func() {
		if p := recover(); p != nil {
			r = Result{Verdict: "panic", Panic: fmt.Sprint(p)}
		}
	}()
	err := w.V.VerifyClientCertificate(nil, chains)
	if err == nil {
		return Result{Verdict: Accept}
	}
	if isRevokedErr(err) {
		return Result{Verdict: Revoked, Err: err.Error()}
	}
	return Result{Verdict: Error, Err: err.Error()}
}

// HandshakeTimeout runs Handshake with a watchdog; "hang" if it does not return in time.
func (w *World) HandshakeTimeout(chains [][]*x509.Certificate, d time.Duration) Result {
	ch := make(chan Result, 1)
	go func() { ch <- w.Handshake(chains) }()
	select {
	case r := <-ch:
		return r
	case <-time.After(d):
		return Result{Verdict: "hang"}
	}
}

// RefreshAll runs one forced refresh pass synchronously (what a forced background update does).
func (w *World) RefreshAll() {
	if ch := w.V.VerifCRLChecker(); ch != nil {
		if w.Hooks != nil {
			w.Hooks.SetDirect(true)
			defer w.Hooks.SetDirect(false)
		}
		ch.VerifUpdateCRLs(true)
	}
}

// Tick runs one non-forced pass synchronously (what a ticker tick does).
func (w *World) Tick() {
	if ch := w.V.VerifCRLChecker(); ch != nil {
		ch.VerifUpdateCRLs(false)
	}
}

// Restart = Cleanup + fresh validator on the same work_dir.
func (w *World) Restart() error {
	if err := w.Cleanup(); err != nil {
		return err
	}
	return w.Provision()
}

// EntryStates returns (present, loaded, sigFailed) for every repository entry, keyed by identifier.
func (w *World) EntryStates() map[string][3]bool {
	out := map[string][3]bool{}
	if w.V == nil || w.V.VerifCRLChecker() == nil {
		return out
	}
	repo := w.V.VerifCRLChecker().VerifRepository()
	if repo == nil {
		return out
	}
	for _, id := range repo.VerifIdentifiers() {
		e := repo.VerifEntryState(id)
		out[id] = [3]bool{e.Present, e.Loaded, e.SigFailed}
	}
	return out
}

var tmpPat = regexp.MustCompile(`^crl_.*_tmp$`)

// Listing classifies the entries of work_dir.
type Listing struct {
	Stores []string // directories named like a location identifier (64 hex chars)
	Temps  []string // crl_*_tmp files or dirs
	Other  []string
}

var hex64 = regexp.MustCompile(`^[0-9a-f]{64}$`)

func (w *World) Listing() Listing {
	var l Listing
	ents, _ := os.ReadDir(w.WorkDir)
	for _, e := range ents {
		n := e.Name()
		switch {
		case tmpPat.MatchString(n):
			l.Temps = append(l.Temps, n)
		case hex64.MatchString(n) && e.IsDir():
			l.Stores = append(l.Stores, n)
		default:
			l.Other = append(l.Other, n)
		}
	}
	sort.Strings(l.Stores)
	sort.Strings(l.Temps)
	sort.Strings(l.Other)
	return l
}

// SandboxOutside lists everything in the sandbox parent other than work_dir and the names in allowed.
func (w *World) SandboxOutside(allowed map[string]bool) []string {
	var out []string
	ents, _ := os.ReadDir(w.Sandbox)
	for _, e := range ents {
		if e.Name() == filepath.Base(w.WorkDir) || allowed[e.Name()] {
			continue
		}
		out = append(out, e.Name())
	}
	return out
}

// FlushOCSPCache empties the process-global OCSP cache table.
func FlushOCSPCache() { cache2go.Cache("ocsp_client").Flush() }

// ParsedMode exposes the parsed revocation mode of the validator.
func (w *World) ParsedMode() config.RevocationCheckMode { return w.V.ModeParsed }
