package world

import (
	"crypto/ecdsa"
	"crypto/elliptic"
	"crypto/rand"
	"crypto/x509"
	"crypto/x509/pkix"
	"math/big"
	"os"
	"path/filepath"
	"strings"
	"sync"
	"time"

	"github.com/gr33nbl00d/caddy-revocation-validator/core/verifhook"
)

// How a handshake denied because of revocation is told apart from one denied because of an internal error: the validator has no
// typed error, so the text it uses is learnt once per process from a case that is revoked beyond doubt (a configured CRL file, read
// at Provision, lists the certificate). A reworded message therefore does not change any classification.
var (
	calibrateOnce sync.Once
	revokedText   string
)

// Calibrate must run before any hook handler is installed (cmd/check does it first thing).
func Calibrate() {
	calibrateOnce.Do(func() {
		defer func() { recover() }()
		key, err := ecdsa.GenerateKey(elliptic.P256(), rand.Reader)
		if err != nil {
			return
		}
		now := time.Now()
		caT := &x509.Certificate{SerialNumber: big.NewInt(1), Subject: pkix.Name{CommonName: "Calibration CA"}, NotBefore: now.Add(-time.Hour), NotAfter: now.Add(24 * time.Hour),
			IsCA: true, BasicConstraintsValid: true, KeyUsage: x509.KeyUsageCertSign | x509.KeyUsageCRLSign, SubjectKeyId: []byte{1, 2, 3, 4}}
		caDER, err := x509.CreateCertificate(rand.Reader, caT, caT, &key.PublicKey, key)
		if err != nil {
			return
		}
		ca, _ := x509.ParseCertificate(caDER)
		lk, _ := ecdsa.GenerateKey(elliptic.P256(), rand.Reader)
		leafT := &x509.Certificate{SerialNumber: big.NewInt(77), Subject: pkix.Name{CommonName: "calibration leaf"}, NotBefore: now.Add(-time.Hour), NotAfter: now.Add(24 * time.Hour),
			KeyUsage: x509.KeyUsageDigitalSignature, ExtKeyUsage: []x509.ExtKeyUsage{x509.ExtKeyUsageClientAuth}}
		leafDER, err := x509.CreateCertificate(rand.Reader, leafT, ca, &lk.PublicKey, key)
		if err != nil {
			return
		}
		leaf, _ := x509.ParseCertificate(leafDER)
		crl, err := x509.CreateRevocationList(rand.Reader, &x509.RevocationList{Number: big.NewInt(1), ThisUpdate: now.Add(-time.Minute), NextUpdate: now.Add(time.Hour),
			RevokedCertificateEntries: []x509.RevocationListEntry{{SerialNumber: big.NewInt(77), RevocationTime: now.Add(-time.Minute)}}}, ca, key)
		if err != nil {
			return
		}
		w, err := New(Cfg{Mode: "crl_only", Storage: "memory", Sig: "none", Fetch: "fetch_actively", Interval: "1h"})
		if err != nil {
			return
		}
		defer w.Destroy()
		file := filepath.Join(w.Sandbox, "calibration.crl")
		os.WriteFile(file, crl, 0o644)
		w.Cfg.CRLFiles = []string{file}
		if err := w.Provision(); err != nil {
			return
		}
		if err := w.V.VerifyClientCertificate(nil, [][]*x509.Certificate{{leaf, ca}}); err != nil {
			revokedText = err.Error()
		}
	})
}

// FastRetries shortens the pauses of the loaders' and stores' retry loops (5 x 500 ms after a failed download, 5 x 1 s around
// LevelDB directory operations) by a constant factor: the number of attempts and everything else stay as they are, only the waiting
// between the attempts shrinks, so that histories with many unreachable origins are affordable.
func FastRetries() {
	verifhook.SetPace(func(d time.Duration) time.Duration { return d / 50 })
}

// RevokedText is the learnt message ("" if the calibration case was not denied).
func RevokedText() string { return revokedText }

func isRevokedErr(err error) bool {
	if revokedText != "" && err.Error() == revokedText {
		return true
	}
	return strings.Contains(err.Error(), "revoked")
}
