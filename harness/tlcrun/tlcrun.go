// Package tlcrun runs TLC on a specification of /verif/spec in a scratch directory and
// collects (a) the model-checking verdict and statistics and (b) the payloads the
// specification exported with PrintT(<<"TAG", ToJson(x)>>).
package tlcrun

import (
	"bufio"
	"bytes"
	"context"
	"encoding/json"
	"fmt"
	"io"
	"os"
	"os/exec"
	"path/filepath"
	"regexp"
	"strconv"
	"strings"
	"time"
)

// Options for one TLC run.
type Options struct {
	SpecDir  string            // directory holding the .tla files (copied to scratch)
	Module   string            // module name without .tla
	Config   string            // cfg file name (inside SpecDir) or literal cfg text when it contains a newline
	Workers  int               // 0 => 8
	Timeout  time.Duration     // 0 => 10 min
	Simulate string            // e.g. "num=100" enables -simulate
	Depth    int               // -depth for simulation
	Seed     int64             // -seed for simulation
	Env      map[string]string // extra environment (IOEnv)
	Extra    []string          // extra TLC args
	Files    map[string][]byte // extra files to place in the scratch dir (e.g. traces)
	OnTagged func(tag string, payload json.RawMessage)
	Coverage bool
	Heap     string // e.g. "8g"
}

// Result of one TLC run.
type Result struct {
	OK          bool // "Model checking completed. No error has been found." (or simulation finished)
	Generated   int64
	Distinct    int64
	Depth       int
	Violation   string // first "Error:" block, if any
	Tagged      int    // number of exported payloads
	WallS       float64
	Tail        string // last lines of output for diagnostics
	InfraErr    error  // timeout / JVM failure / parse problem
	ZeroActions []string
	PostOK      bool
}

var (
	reStates = regexp.MustCompile(`^(\d+) states generated, (\d+) distinct states found`)
	reDepth  = regexp.MustCompile(`^The depth of the complete state graph search is (\d+)`)
	reCov0   = regexp.MustCompile(`^<(\w+) line .*>: 0:0$`)
)

func copySpecs(src, dst string) error {
	ents, err := os.ReadDir(src)
	if err != nil {
		return err
	}
	for _, e := range ents {
		if e.IsDir() {
			continue
		}
		n := e.Name()
		if !(strings.HasSuffix(n, ".tla") || strings.HasSuffix(n, ".cfg")) {
			continue
		}
		b, err := os.ReadFile(filepath.Join(src, n))
		if err != nil {
			return err
		}
		if err := os.WriteFile(filepath.Join(dst, n), b, 0o644); err != nil {
			return err
		}
	}
	return nil
}

// Run executes TLC. It never panics; infrastructure problems are reported in Result.InfraErr.
func Run(o Options) Result {
	var res Result
	start := time.Now()
	defer func() { res.WallS = time.Since(start).Seconds() }()
	scratch, err := os.MkdirTemp("", "verif.tlc.")
	if err != nil {
		res.InfraErr = err
		return res
	}
	defer os.RemoveAll(scratch)
	if err := copySpecs(o.SpecDir, scratch); err != nil {
		res.InfraErr = err
		return res
	}
	for n, b := range o.Files {
		if err := os.WriteFile(filepath.Join(scratch, n), b, 0o644); err != nil {
			res.InfraErr = err
			return res
		}
	}
	cfg := o.Config
	if strings.Contains(cfg, "\n") {
		cfg = "_inline.cfg"
		if err := os.WriteFile(filepath.Join(scratch, cfg), []byte(o.Config), 0o644); err != nil {
			res.InfraErr = err
			return res
		}
	}
	if o.Workers == 0 {
		o.Workers = 8
	}
	if o.Timeout == 0 {
		o.Timeout = 10 * time.Minute
	}
	heap := o.Heap
	if heap == "" {
		heap = "6g"
	}
	args := []string{"-XX:+UseParallelGC", "-Xmx" + heap, "-Xss64m",
		"-cp", "/opt/veriftools/tla/tla2tools.jar:/opt/veriftools/tla/CommunityModules-deps.jar", "tlc2.TLC",
		"-config", cfg, "-workers", strconv.Itoa(o.Workers), "-metadir", filepath.Join(scratch, "meta"), "-noGenerateSpecTE"}
	if o.Simulate != "" {
		args = append(args, "-simulate", o.Simulate)
		if o.Depth > 0 {
			args = append(args, "-depth", strconv.Itoa(o.Depth))
		}
		args = append(args, "-seed", strconv.FormatInt(o.Seed, 10))
	}
	if o.Coverage {
		args = append(args, "-coverage", "1")
	}
	args = append(args, o.Extra...)
	args = append(args, o.Module+".tla")
	ctx, cancel := context.WithTimeout(context.Background(), o.Timeout)
	defer cancel()
	cmd := exec.CommandContext(ctx, "java", args...)
	cmd.Dir = scratch
	cmd.Env = os.Environ()
	for k, v := range o.Env {
		cmd.Env = append(cmd.Env, k+"="+v)
	}
	stdout, err := cmd.StdoutPipe()
	if err != nil {
		res.InfraErr = err
		return res
	}
	cmd.Stderr = cmd.Stdout
	if err := cmd.Start(); err != nil {
		res.InfraErr = err
		return res
	}
	var tail []string
	var errBlock []string
	inErr := false
	rd := bufio.NewReaderSize(stdout, 1<<20)
	for {
		line, err := readLine(rd)
		if line != "" || err == nil {
			if strings.HasPrefix(line, "<<\"") && strings.HasSuffix(line, ">>") {
				if tag, payload, ok := parseTagged(line); ok {
					res.Tagged++
					if o.OnTagged != nil {
						o.OnTagged(tag, payload)
					}
					if err != nil {
						break
					}
					continue
				}
			}
			if m := reStates.FindStringSubmatch(line); m != nil {
				res.Generated, _ = strconv.ParseInt(m[1], 10, 64)
				res.Distinct, _ = strconv.ParseInt(m[2], 10, 64)
			}
			if m := reDepth.FindStringSubmatch(line); m != nil {
				res.Depth, _ = strconv.Atoi(m[1])
			}
			if m := reCov0.FindStringSubmatch(line); m != nil {
				res.ZeroActions = append(res.ZeroActions, m[1])
			}
			if strings.Contains(line, "Model checking completed. No error has been found.") {
				res.OK = true
			}
			if strings.HasPrefix(line, "Error:") {
				inErr = true
			}
			if inErr && len(errBlock) < 80 {
				errBlock = append(errBlock, line)
			}
			tail = append(tail, line)
			if len(tail) > 60 {
				tail = tail[1:]
			}
		}
		if err != nil {
			break
		}
	}
	werr := cmd.Wait()
	res.Tail = strings.Join(tail, "\n")
	if len(errBlock) > 0 {
		res.Violation = strings.Join(errBlock, "\n")
		res.OK = false
	}
	if ctx.Err() != nil {
		res.InfraErr = fmt.Errorf("tlc timed out after %v", o.Timeout)
		return res
	}
	if o.Simulate != "" && res.Violation == "" && werr == nil {
		res.OK = true
	}
	if werr != nil && res.Violation == "" {
		res.InfraErr = fmt.Errorf("tlc failed: %v\n%s", werr, res.Tail)
	}
	return res
}

func readLine(rd *bufio.Reader) (string, error) {
	var buf bytes.Buffer
	for {
		part, isPrefix, err := rd.ReadLine()
		buf.Write(part)
		if err != nil {
			if err == io.EOF {
				return buf.String(), err
			}
			return buf.String(), err
		}
		if !isPrefix {
			return buf.String(), nil
		}
	}
}

// parseTagged parses `<<"TAG", "escaped json">>`.
func parseTagged(line string) (string, json.RawMessage, bool) {
	body := strings.TrimSuffix(strings.TrimPrefix(line, "<<"), ">>")
	i := strings.Index(body, ", ")
	if i < 0 {
		return "", nil, false
	}
	tagQ, payQ := body[:i], body[i+2:]
	tag, err := strconv.Unquote(tagQ)
	if err != nil {
		return "", nil, false
	}
	pay, err := strconv.Unquote(payQ)
	if err != nil {
		return "", nil, false
	}
	if !json.Valid([]byte(pay)) {
		return "", nil, false
	}
	return tag, json.RawMessage(pay), true
}
