SPECIFICATION Spec
CONSTANTS
  Readers = {"r1", "r2"}
  Keys = {"k1", "k2"}
  MaxRuns = 2
  Disk = TRUE
  WithCrash = TRUE
  Export = FALSE
  LoadedBeforeSwap <- DeviationOn
INVARIANTS TypeOK Atomic LockOK NoResidue NoResidueClosed LiveKept CrashSafe OnlyAccepted
PROPERTIES Monotone FailKeeps SwapLocked ClosedStaysClosed
CHECK_DEADLOCK FALSE
VIEW View
