SPECIFICATION Spec
CONSTANTS
  Keys = {"k1", "k2"}
  Vals = {"v1", "v2"}
  Disk = TRUE
  Faulty = FALSE
  Export = TRUE
INVARIANTS TypeOK LookupExact FailClosed
PROPERTIES ReplaceWhole Frame
CHECK_DEADLOCK FALSE
