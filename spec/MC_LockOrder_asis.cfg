SPECIFICATION Spec
CONSTANTS
  Registered = TRUE
INVARIANTS NoDeadlock Ordered
CHECK_DEADLOCK FALSE
