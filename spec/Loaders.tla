------------------------------- MODULE Loaders -------------------------------
(***************************************************************************)
(* Two loaders and a lookup on ONE repository entry that is known but not  *)
(* yet loaded (crl/crlrepository: an earlier first load was rejected).     *)
(* CrlRepo.tla has one loader process per entry; this module is about what *)
(* that assumption hides:                                                  *)
(*                                                                         *)
(*   A  the handshake's active load (AddCRL -> isEntryLoaded ->            *)
(*      loadActively): takes the entry write lock, checks Loaded again,    *)
(*      downloads, parses and activates under the lock;                    *)
(*   B  the pass's background load (UpdateCRLs -> updateCRL ->             *)
(*      loadCRLInBackground): downloads and parses WITHOUT the lock, then  *)
(*      takes the write lock, checks Loaded again and either activates its *)
(*      staged list or discards it;                                        *)
(*   CA publishes list after list (the version number stands for the       *)
(*      list: a larger number supersedes a smaller one);                   *)
(*   L  a lookup (checkCrl): read lock, answers from the store if the      *)
(*      entry is loaded.                                                   *)
(*                                                                         *)
(* NoRollback: the list in force is never replaced by an older one (C08    *)
(* "once the new list has been observed the old one is never observed      *)
(* again", C11 "entries of a superseded list do not outlive its            *)
(* replacement").  LookupSound: a lookup that begins while version v is in *)
(* force is never answered from less than v - in particular never with     *)
(* "nothing is in force" (C01/C03).                                        *)
(*                                                                         *)
(* Named deviations (off; selftest turns each on and TLC must object):     *)
(*   NoRecheck  B activates whatever it staged (seeded change C11-g)       *)
(*   TryRead    L does not wait for a writer and answers "not revoked"     *)
(*              (seeded change C03-g)                                      *)
(* The harness replays every behaviour of A, B and CA on a real repository *)
(* (origin-side gates hold each loader inside its transfer) and compares   *)
(* what is in force at the end (harness/checks/loaders.go).                *)
(***************************************************************************)
EXTENDS Naturals, TLC, Json

CONSTANTS MaxVer,      \* the CA publishes versions 1..MaxVer
          NoRecheck,   \* deviation
          TryRead,     \* deviation
          WithLookup,  \* FALSE: only the loaders (the graph that is replayed)
          Export

VARIABLES origin,   \* version the origin serves
          store,    \* version in the entry's store (0: nothing)
          loaded,   \* Entry.Loaded
          wlock,    \* holder of the entry write lock: "none" | "A" | "B"
          pcA, fA,  \* active load and what it fetched
          pcB, fB,  \* background load and what it fetched
          pcL, atBegin, ans  \* lookup: version in force when it began, its answer
vars == <<origin, store, loaded, wlock, pcA, fA, pcB, fB, pcL, atBegin, ans>>

Init == /\ origin = 1 /\ store = 0 /\ loaded = FALSE /\ wlock = "none"
        /\ pcA = "idle" /\ fA = 0 /\ pcB = "idle" /\ fB = 0
        /\ pcL = "idle" /\ atBegin = 0 /\ ans = 0

State == [origin |-> origin, store |-> store, loaded |-> loaded, wlock |-> wlock, pcA |-> pcA, fA |-> fA, pcB |-> pcB, fB |-> fB]
Emit(op) == Export => PrintT(<<"EDGE", ToJson([from |-> State, op |-> op,
                to |-> [origin |-> origin', store |-> store', loaded |-> loaded', wlock |-> wlock', pcA |-> pcA', fA |-> fA', pcB |-> pcB', fB |-> fB'],
                expect |-> [inforce |-> IF loaded' THEN store' ELSE 0]])>>)
LUnch == UNCHANGED <<pcL, atBegin, ans>>

Publish == /\ origin < MaxVer /\ origin' = origin + 1
           /\ UNCHANGED <<store, loaded, wlock, pcA, fA, pcB, fB>> /\ LUnch /\ Emit(<<"publish">>)

(* ---- A: the handshake ---------------------------------------------------- *)
\* isEntryLoaded (a short critical section of its own): a loaded entry needs no load
AStart == /\ pcA = "idle" /\ wlock = "none"
          /\ pcA' = IF loaded THEN "done" ELSE "want"
          /\ UNCHANGED <<origin, store, loaded, wlock, fA, pcB, fB>> /\ LUnch /\ Emit(<<"aStart">>)
\* loadActively: write lock, check again
ALock == /\ pcA = "want" /\ wlock = "none"
         /\ IF loaded THEN pcA' = "done" /\ wlock' = "none" ELSE pcA' = "fetching" /\ wlock' = "A"
         /\ UNCHANGED <<origin, store, loaded, fA, pcB, fB>> /\ LUnch /\ Emit(<<"aLock">>)
AFetch == /\ pcA = "fetching" /\ fA' = origin /\ pcA' = "fetched"
          /\ UNCHANGED <<origin, store, loaded, wlock, pcB, fB>> /\ LUnch /\ Emit(<<"aFetch">>)
AActivate == /\ pcA = "fetched" /\ store' = fA /\ loaded' = TRUE /\ wlock' = "none" /\ pcA' = "done"
             /\ UNCHANGED <<origin, fA, pcB, fB>> /\ LUnch /\ Emit(<<"aActivate">>)

(* ---- B: the pass ---------------------------------------------------------- *)
\* updateCRL: isEntryLoaded; a loaded entry is refreshed (CrlRepo.tla), a not yet loaded one is loaded in the background
BStart == /\ pcB = "idle" /\ wlock = "none" /\ ~loaded /\ pcB' = "fetching"
          /\ UNCHANGED <<origin, store, loaded, wlock, pcA, fA, fB>> /\ LUnch /\ Emit(<<"bStart">>)
BFetch == /\ pcB = "fetching" /\ fB' = origin /\ pcB' = "fetched"
          /\ UNCHANGED <<origin, store, loaded, wlock, pcA, fA>> /\ LUnch /\ Emit(<<"bFetch">>)
BLock == /\ pcB = "fetched" /\ wlock = "none" /\ wlock' = "B" /\ pcB' = "locked"
         /\ UNCHANGED <<origin, store, loaded, pcA, fA, fB>> /\ LUnch /\ Emit(<<"bLock">>)
\* loaded by someone else in the meantime: the staged list is discarded
BFinish == /\ pcB = "locked" /\ wlock' = "none" /\ pcB' = "done"
           /\ IF loaded /\ ~NoRecheck THEN UNCHANGED <<store, loaded>> ELSE store' = fB /\ loaded' = TRUE
           /\ UNCHANGED <<origin, pcA, fA, fB>> /\ LUnch /\ Emit(<<"bFinish">>)

(* ---- L: a lookup ----------------------------------------------------------- *)
LBegin == /\ WithLookup /\ pcL = "idle" /\ pcL' = "begun" /\ atBegin' = (IF loaded THEN store ELSE 0)
          /\ UNCHANGED <<origin, store, loaded, wlock, pcA, fA, pcB, fB, ans>>
LRead == /\ WithLookup /\ pcL = "begun"
         /\ IF wlock = "none" THEN ans' = (IF loaded THEN store ELSE 0)
            ELSE TryRead /\ ans' = 0                          \* (without the deviation the lookup waits for the writer)
         /\ pcL' = "done"
         /\ UNCHANGED <<origin, store, loaded, wlock, pcA, fA, pcB, fB, atBegin>>

Next == Publish \/ AStart \/ ALock \/ AFetch \/ AActivate \/ BStart \/ BFetch \/ BLock \/ BFinish \/ LBegin \/ LRead
Spec == Init /\ [][Next]_vars

TypeOK == /\ origin \in 1..MaxVer /\ store \in 0..MaxVer /\ loaded \in BOOLEAN /\ wlock \in {"none", "A", "B"}
          /\ pcA \in {"idle", "want", "fetching", "fetched", "done"} /\ pcB \in {"idle", "fetching", "fetched", "locked", "done"}
          /\ fA \in 0..MaxVer /\ fB \in 0..MaxVer /\ pcL \in {"idle", "begun", "done"}
LoadedHasList == loaded => store >= 1
NoRollback == [][store' >= store]_vars
LookupSound == pcL = "done" => ans >= atBegin
\* what is in force was fetched by one of the two loaders
Provenance == loaded => store \in {fA, fB}
\* both loaders finished and one of them ran: something is in force
Effective == (pcA = "done" /\ pcB = "done") => loaded
=============================================================================
