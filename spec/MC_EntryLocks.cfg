SPECIFICATION Spec
CONSTANTS
  Relock = FALSE
  Recheck = TRUE
INVARIANTS NoDeadlock NoCrash FlagHasPending
PROPERTIES Lockset
CHECK_DEADLOCK FALSE
