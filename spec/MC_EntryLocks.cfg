SPECIFICATION Spec
CONSTANTS Relock = FALSE
INVARIANTS NoDeadlock
PROPERTIES Lockset
CHECK_DEADLOCK FALSE
