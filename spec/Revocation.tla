----------------------------- MODULE Revocation -----------------------------
(***************************************************************************)
(* The whole validator at API granularity: every public call is one        *)
(* action.  Anchors: revocation.go (VerifyClientCertificate, Provision,    *)
(* Cleanup), crl/crlrevocationchecker.go (IsRevoked, Provision,            *)
(* updateCRLs), crl/crlrepository/crlrepository.go (AddCRL, loadActively,  *)
(* loadCRL, updateCrlEntry, tryUpdateSignatureCertFromChain, IsRevoked).   *)
(*                                                                         *)
(* Two layers (DESIGN.md 3.1):                                             *)
(*  - requirement layer (ghost): accepted[l], verified[l], known[l] say    *)
(*    which CRL OUGHT to be in force; they change only at environment-     *)
(*    visible fetches and are computed by PolicyAccepts, written from the  *)
(*    property statements and independent of the mechanism;                *)
(*  - mechanism layer: ent[l], bg, mirror the code step by step.           *)
(* Serves C01 C03 C10 C11 C16 (and the API-level part of C09 C15 C20).     *)
(***************************************************************************)
EXTENDS Naturals, FiniteSets, Sequences, TLC, Json

CONSTANTS
  Dev,        \* set of named deviations of the code from the design that are modelled (empty = intended design)
  CfgSpace,   \* the set of configurations to explore (records, see the generated MCRev.tla); one is chosen in Init
  MaxSteps,   \* bound on behaviour length (0 = unbounded; the abstraction is finite anyway)
  Export      \* print every edge for the replay harness

(* ---- abstract PKI ------------------------------------------------------ *)
CAs     == {"A", "S", "B"}                 \* A and S share the name n1 (sibling keys); B has name n2
Signers == CAs \cup {"E"}                  \* E: the end-entity c1 signing a CRL with its own key (never entitled, whatever is at hand)
NameOf(ca) == IF ca = "B" THEN "n2" ELSE IF ca = "E" THEN "e1" ELSE "n1"
Serials == {1, 2}
Locs    == {"D", "U"}                      \* D: the CDP of certificate c1;  U: a configured crl_url / crl_file
Certs   == { [id |-> "c1", ca |-> "A", serial |-> 1, cdp |-> "D"],
             [id |-> "c2", ca |-> "A", serial |-> 2, cdp |-> "none"],
             [id |-> "c3", ca |-> "B", serial |-> 1, cdp |-> "ldap"] }
CertById(i) == CHOOSE c \in Certs : c.id = i

(* documents an origin can serve.  What a location serves is chosen by the environment at the moment of
   each fetch (a parameter of the fetching action), so it is not part of the state: this keeps the graph
   small without losing any history -- every sequence of published documents is still a path. *)
NoDoc == [signer |-> "A", keys |-> {}, q |-> "nodoc"]
Down  == [signer |-> "A", keys |-> {}, q |-> "down"]
Garb  == [signer |-> "A", keys |-> {}, q |-> "garbage"]
Docs  == [signer : Signers, keys : SUBSET Serials, q : {"valid"}]
         \cup [signer : {"A"}, keys : SUBSET Serials, q : {"critext"}]
         \cup {Down, Garb}
DocsU == [signer : {"A", "S"}, keys : {{}, {2}}, q : {"valid"}] \cup {Garb}      \* what the configured location may serve
KeysOf(d)    == IF d.q \in {"valid", "critext"} THEN {<<NameOf(d.signer), s>> : s \in d.keys} ELSE {}
Parseable(d) == d.q = "valid"
Fetchable(d) == d.q # "down"

(* ---- configuration ------------------------------------------------------ *)
VARIABLE cfg       \* the configuration of this instance, chosen in Init and never changed
Cfg == cfg
\* Cfg == [mode, sig, strict, fetch, disk, trustA, conf, ocsp, aia]
\*  mode  \in {"unset","prefer_ocsp","prefer_crl","crl_only","ocsp_only","disabled"}
\*  sig   \in {"none","verify_log","verify"}      fetch \in {"actively","background"}
\*  conf  \in {"none","url","file"}  (is U configured)   trustA: is CA A a configured trusted signer
\*  ocsp  \in {"noaia","good","revoked","down"}   what c1's OCSP responder does;  aia: ocsp_aia_strict
\*        or "dyn" / "dyncache": the responder changes its behaviour over time (variable resp, action Respond), with the
\*        OCSP cache off / on (default_cache_duration of an hour: an authentic answer is remembered in ocache)
CrlOn  == Cfg.mode \in {"unset", "prefer_ocsp", "prefer_crl", "crl_only"}
OcspOn == Cfg.mode \in {"unset", "prefer_ocsp", "prefer_crl", "ocsp_only"}
Trusted == IF Cfg.trustA THEN {"A"} ELSE {}
ChainCtx(c) == {c.ca} \cup Trusted          \* certificates at hand in a handshake of c (3.4)

VARIABLES
  phase,      \* "new" | "up" | "failed" (Provision returned an error)
  ent,        \* [Locs -> entry] mechanism: repository entry + store content (the store survives Restart on disk)
  bg,         \* a forced background update is pending (fetch_background)
  accepted,   \* ghost: [Locs -> Docs \cup {NoDoc}] the document that policy says is in force at l
  verified,   \* ghost: [Locs -> BOOLEAN] the accepted document's signer certificate was resolved and persisted
  known,      \* ghost: [Locs -> BOOLEAN] the running instance knows l (configured, or seen in a CDP since start)
  resp,       \* what c1's responder does right now: "good" | "revoked" | "down" (constant unless Cfg.ocsp is dynamic)
  ocache,     \* the OCSP cache entry of c1: "none" | "good" | "revoked" (only used with Cfg.ocsp = "dyncache")
  out,        \* observable result of the last action
  steps
vars == <<cfg, phase, ent, bg, accepted, verified, known, resp, ocache, out, steps>>
Dyn == Cfg.ocsp \in {"dyn", "dyncache"}

Empty == [present |-> FALSE, loaded |-> FALSE, keys |-> {}, meta |-> FALSE, locs |-> FALSE, signer |-> "none",
          sigFailed |-> FALSE, pending |-> "none", ctx |-> {}]
NoOut == [kind |-> "none"]

(* =========================== requirement layer ========================== *)
\* Does the signature policy bring d into force on a path that has the certificates in ctx at hand?
PolicyAccepts(d, ctx) == Parseable(d) /\ (Cfg.sig = "verify" => d.signer \in ctx)
Resolves(d, ctx)      == Parseable(d) /\ Cfg.sig # "none" /\ d.signer \in ctx
\* context of a refresh: the signer persisted by the last accepted intake
StoredCtx(l) == IF accepted[l] # NoDoc /\ verified[l] THEN {accepted[l].signer} ELSE {}
\* in force: known to the running instance, taken in by policy, and - under the CURRENT policy 'verify' - vouched for by a
\* persisted signer (a list that an earlier run stored under 'none' / 'verify_log' without verifying it does not count)
InForce(l)  == known[l] /\ accepted[l] # NoDoc /\ (Cfg.sig = "verify" => verified[l])
Listed(c)   == \E l \in Locs : InForce(l) /\ <<NameOf(c.ca), c.serial>> \in KeysOf(accepted[l])
\* ghost update for one fetch of d at l on a path with context ctx
GhostFetch(acc, ver, l, d, ctx) ==
  IF PolicyAccepts(d, ctx)
  THEN <<[acc EXCEPT ![l] = d], [ver EXCEPT ![l] = Resolves(d, ctx)]>>
  ELSE <<acc, ver>>

(* ============================ mechanism layer =========================== *)
\* --- first load: loadCRL(entry, chains) -----------------------------------------------------
\* intended: stage, verify, swap in on acceptance.  Deviation "D9": stream into the live store.
FirstLoad(e, d, ctx) ==
  IF ~Fetchable(d) THEN e
  ELSE IF d.q = "garbage" THEN e
  ELSE IF d.q = "critext"
       THEN IF "D9" \in Dev THEN [e EXCEPT !.keys = @ \cup KeysOf(d), !.meta = TRUE] ELSE e
  ELSE LET ver == Cfg.sig # "none" /\ d.signer \in ctx
           acc == Cfg.sig = "none" \/ ver \/ Cfg.sig = "verify_log"
       IN IF acc
          THEN [e EXCEPT !.keys = IF "D9" \in Dev THEN @ \cup KeysOf(d) ELSE KeysOf(d),
                         !.meta = TRUE, !.loaded = TRUE, !.ctx = {},
                         !.signer = IF ver THEN d.signer ELSE (IF "D9" \in Dev THEN @ ELSE "none")]
          ELSE IF "D9" \in Dev THEN [e EXCEPT !.keys = @ \cup KeysOf(d), !.meta = TRUE] ELSE e
FirstLoadOK(d, ctx) == Parseable(d) /\ (Cfg.sig = "verify" => d.signer \in ctx)

\* --- refresh: updateCrlEntry(entry, newChains) ----------------------------------------------
\* ctx = newChains if given (provision path) else the stored signer.
\* intended: the signature mode applies.  Deviation "D13": verification is demanded in every mode.
RefreshCtx(e, given) == IF given # {"-"} THEN given ELSE (IF e.signer = "none" THEN {} ELSE {e.signer})
RefreshOK(e, d, ctx) == /\ e.locs /\ Parseable(d)
                        /\ IF "D13" \in Dev THEN d.signer \in ctx ELSE (Cfg.sig = "verify" => d.signer \in ctx)
Refreshed(e, d, given) ==
  LET ctx == RefreshCtx(e, given)
      ver == Cfg.sig # "none" /\ d.signer \in ctx
      verD13 == d.signer \in ctx
  IN IF ~e.locs \/ ~Fetchable(d) \/ ~Parseable(d) THEN e
     ELSE IF RefreshOK(e, d, ctx)
          THEN [e EXCEPT !.keys = KeysOf(d), !.sigFailed = FALSE, !.pending = "none",
                         !.signer = IF (IF "D13" \in Dev THEN verD13 ELSE ver) THEN d.signer ELSE "none"]
          ELSE [e EXCEPT !.sigFailed = TRUE, !.pending = d.signer]
RefreshFetches(e, d) == e.locs       \* a fetch attempt is made iff the location record could be read

\* --- handshake tail: tryUpdateSignatureCertFromChain ----------------------------------------
RetrySigner(e, ctx) ==
  IF e.sigFailed /\ e.pending \in ctx THEN [e EXCEPT !.signer = e.pending, !.sigFailed = FALSE] ELSE e

\* --- entry creation: addNewEmptyEntry (Loaded is inferred from the meta record of a persistent store)
\* Under 'verify' data found on disk only counts if the signer that verified it was persisted with it: a list stored by an
\* earlier run under 'none' / 'verify_log' was never verified.  Deviation "D27": the meta record alone decides.
Create(e, ctx) == IF e.present THEN e
                  ELSE [e EXCEPT !.present = TRUE, !.loaded = e.meta /\ ("D27" \in Dev \/ Cfg.sig # "verify" \/ e.signer # "none"),
                                 !.sigFailed = FALSE, !.pending = "none", !.ctx = ctx]

\* --- one pass over all entries: Repository.UpdateCRLs -----------------------------------------
\* not loaded -> first-load path with the chains captured at creation; loaded -> refresh with the stored signer
PassOne(e, d) == IF ~e.present THEN e
                 ELSE IF ~e.loaded THEN FirstLoad([e EXCEPT !.locs = IF "D23" \in Dev THEN @ ELSE TRUE], d, e.ctx)
                 ELSE Refreshed(e, d, {"-"})
PassFetch(e, d) == e.present /\ (~e.loaded \/ RefreshFetches(e, d))
GhostPassOne(acc, ver, l, e, d) ==
  IF ~e.present \/ ~Fetchable(d) THEN <<acc, ver>>
  ELSE IF ~e.loaded THEN GhostFetch(acc, ver, l, d, e.ctx)
  ELSE IF ~e.locs THEN <<acc, ver>>
  ELSE GhostFetch(acc, ver, l, d, IF acc[l] # NoDoc /\ ver[l] THEN {acc[l].signer} ELSE {})
Pass(en, origin) == [l \in Locs |-> PassOne(en[l], origin[l])]
GhostPass(en, origin) ==
  LET g1 == GhostPassOne(accepted, verified, "D", en["D"], origin["D"])
      g2 == GhostPassOne(g1[1], g1[2], "U", en["U"], origin["U"])
  IN g2
PassFetches(en, origin) == [l \in Locs |-> IF PassFetch(en[l], origin[l]) THEN 1 ELSE 0]
\* the environment picks a document only for locations that are actually fetched
Origins(en) == { o \in [Locs -> Docs] : /\ (IF PassFetch(en["D"], Down) THEN TRUE ELSE o["D"] = Down)
                                       /\ (IF PassFetch(en["U"], Down) THEN o["U"] \in DocsU ELSE o["U"] = Down) }

(* ================================ actions =============================== *)
Step == (MaxSteps = 0 \/ steps < MaxSteps) /\ steps' = IF MaxSteps = 0 THEN 0 ELSE steps + 1
Loaded(en) == [l \in Locs |-> en[l].present /\ en[l].loaded]
Fet0 == [l \in Locs |-> 0]

Emit(op, o) == Export => PrintT(<<"EDGE", ToJson([from |-> [cfg |-> cfg, phase |-> phase, ent |-> ent, bg |-> bg, accepted |-> accepted, verified |-> verified, known |-> known, resp |-> resp, ocache |-> ocache],
                                                    op |-> op,
                                                    to |-> [cfg |-> cfg', phase |-> phase', ent |-> ent', bg |-> bg', accepted |-> accepted', verified |-> verified', known |-> known', resp |-> resp', ocache |-> ocache'],
                                                    expect |-> o])>>)

Ghost(o) == [o EXCEPT !.listed = [c \in {"c1", "c2", "c3"} |-> Listed(CertById(c))'],
                      !.inforce = [l \in Locs |-> InForce(l)']]

\* ---- Provision (also the second half of Restart) --------------------------------------------
\* crl_urls / crl_files: AddCRL(loc, chains(nil, trusted)) ; UpdateCRL(loc, same chains) ; then the ticker
\* goroutine runs one pass over all entries (the harness waits for it).
ProvisionEffect(en0, d) ==
  \* returns <<ok, entries, accepted, verified, fetchesU>>
  IF ~CrlOn \/ Cfg.conf = "none" THEN <<TRUE, en0, accepted, verified, 0>>
  ELSE LET e0 == Create(en0["U"], Trusted)
           \* (A) AddCRL: fetch_actively loads a not yet loaded entry at once
           loadA == ~e0.loaded /\ Cfg.fetch = "actively"
           eA    == IF loadA THEN FirstLoad([e0 EXCEPT !.locs = TRUE], d, Trusted) ELSE e0
           gA    == IF loadA /\ Fetchable(d) THEN GhostFetch(accepted, verified, "U", d, Trusted) ELSE <<accepted, verified>>
           failA == loadA /\ ~eA.loaded
           \* (B) UpdateCRL(loc, chains): a loaded entry is refreshed with the provision chains as context;
           \*     an entry that is not loaded yet (fetch_background) is loaded now -- deviation D23: it is "refreshed"
           \*     without a location record and fails
           loadB == ~failA /\ ~eA.loaded /\ "D23" \notin Dev
           refB  == ~failA /\ eA.loaded
           eB    == IF loadB THEN FirstLoad([eA EXCEPT !.locs = TRUE], d, Trusted)
                    ELSE IF refB THEN Refreshed(eA, d, Trusted) ELSE eA
           fetB  == loadB \/ (refB /\ eA.locs)
           gB    == IF fetB /\ Fetchable(d) THEN GhostFetch(gA[1], gA[2], "U", d, Trusted) ELSE gA
           failB == \/ (loadB /\ ~eB.loaded)
                    \/ (refB /\ ~(Fetchable(d) /\ RefreshOK(eA, d, Trusted)))
                    \/ (~failA /\ ~eA.loaded /\ "D23" \in Dev)
           nf    == (IF loadA THEN 1 ELSE 0) + (IF fetB THEN 1 ELSE 0)
       IN <<~failA /\ ~failB, [en0 EXCEPT !["U"] = eB], gB[1], gB[2], nf>>

Provision(dU) ==
  /\ phase = "new" /\ Step
  /\ (IF CrlOn /\ Cfg.conf # "none" THEN dU \in DocsU ELSE dU = Down)
  /\ LET p  == ProvisionEffect(ent, dU)
         ok == p[1]
     IN /\ phase' = IF ok THEN "up" ELSE "failed"
        /\ known' = [l \in Locs |-> ok /\ l = "U" /\ CrlOn /\ Cfg.conf # "none"]
        /\ bg' = FALSE
        /\ IF ok
           THEN \* initial pass of the ticker goroutine over the configured entries (same document: nothing is published in between)
                LET en1 == p[2]
                    g   == GhostPassOne(p[3], p[4], "U", en1["U"], dU)
                IN /\ ent' = [en1 EXCEPT !["U"] = PassOne(en1["U"], dU)]
                   /\ accepted' = g[1] /\ verified' = g[2]
                   /\ out' = Ghost([kind |-> "provision", ok |-> TRUE, acceptable |-> TRUE, loaded |-> Loaded(ent'), listed |-> <<>>, inforce |-> <<>>,
                                    fetch |-> [Fet0 EXCEPT !["U"] = p[5] + (IF PassFetch(en1["U"], dU) THEN 1 ELSE 0)]])
           ELSE /\ ent' = [p[2] EXCEPT !["U"] = [@ EXCEPT !.present = FALSE]] /\ accepted' = p[3] /\ verified' = p[4]
                /\ out' = Ghost([kind |-> "provision", ok |-> FALSE, acceptable |-> (~CrlOn \/ Cfg.conf = "none" \/ PolicyAccepts(dU, Trusted)),
                                 loaded |-> Loaded(ent'), listed |-> <<>>, inforce |-> <<>>,
                                 fetch |-> [Fet0 EXCEPT !["U"] = p[5]]])
  /\ UNCHANGED <<resp, ocache>>
  /\ Emit(<<"provision", dU>>, out')

\* ---- Handshake --------------------------------------------------------------------------------
\* requirement (C02/C03): a still valid cache entry answers; otherwise what the responder says now; no answer: strict denies
OcspAsked(c) == OcspOn /\ c.id = "c1" /\ Cfg.ocsp # "noaia"
OcspVerdict(c) ==
  IF ~OcspAsked(c) THEN "accept"
  ELSE IF ocache # "none" THEN (IF ocache = "revoked" THEN "revoked" ELSE "accept")
  ELSE IF resp = "revoked" THEN "revoked"
  ELSE IF resp = "down" /\ Cfg.aia THEN "error"
  ELSE "accept"
\* what the OCSP mechanism says when the responder is asked now (a cache is optional: an implementation that asks again is right too)
OcspFresh(c) == IF ~OcspAsked(c) THEN "accept" ELSE IF resp = "revoked" THEN "revoked" ELSE IF resp = "down" /\ Cfg.aia THEN "error" ELSE "accept"
\* only an authentic answer is remembered, and only with the cache on; a failed query leaves nothing behind
OcacheAfter(c) == IF OcspAsked(c) /\ Cfg.ocsp = "dyncache" /\ ocache = "none" /\ resp \in {"good", "revoked"} THEN resp ELSE ocache

CrlLookup(c, en) == \E l \in Locs : en[l].present /\ en[l].loaded /\ <<NameOf(c.ca), c.serial>> \in en[l].keys
CrlVerdict(c, en) ==
  IF c.cdp = "ldap" /\ (Cfg.strict \/ "D8" \in Dev) THEN "error"        \* no usable location: strict denies; lenient must not (D8)
  ELSE IF c.cdp = "D" /\ Cfg.strict /\ ~(en["D"].present /\ en["D"].loaded) THEN "error"
  ELSE IF CrlLookup(c, en) THEN "revoked" ELSE "accept"

Handshake(c, d) ==
  /\ phase = "up" /\ Step
  /\ (IF CrlOn /\ OcspVerdict(c) = "accept" /\ c.cdp = "D" /\ Cfg.fetch = "actively" /\ ~Create(ent["D"], {}).loaded THEN d \in Docs ELSE d = Down)
  /\ LET ov == OcspVerdict(c) IN
     IF ov # "accept" \/ ~CrlOn
     THEN /\ UNCHANGED <<phase, ent, bg, accepted, verified, known>>
          /\ out' = Ghost([kind |-> "handshake", cert |-> c.id, verdict |-> ov, cause |-> "ocsp", loaded |-> Loaded(ent), fetch |-> Fet0,
                           listed |-> <<>>, inforce |-> <<>>, intake |-> "none",
                           alt |-> IF OcspFresh(c) # "accept" THEN OcspFresh(c) ELSE IF ~CrlOn THEN "accept" ELSE "any"])
     ELSE LET useD   == c.cdp = "D"
              ctx    == ChainCtx(c)
              added  == useD /\ ~ent["D"].present
              e0     == IF useD THEN Create(ent["D"], ctx) ELSE ent["D"]
              doLoad == useD /\ Cfg.fetch = "actively" /\ ~e0.loaded
              e1     == IF doLoad THEN FirstLoad([e0 EXCEPT !.locs = TRUE], d, ctx)
                        ELSE IF useD THEN RetrySigner(e0, ctx) ELSE e0
              g      == IF doLoad /\ Fetchable(d) THEN GhostFetch(accepted, verified, "D", d, ctx) ELSE <<accepted, verified>>
              en1    == [ent EXCEPT !["D"] = e1]
          IN /\ ent' = en1
             /\ accepted' = g[1] /\ verified' = g[2]
             /\ known' = IF useD THEN [known EXCEPT !["D"] = TRUE] ELSE known
             /\ bg' = (bg \/ (added /\ Cfg.fetch = "background"))
             /\ UNCHANGED phase
             /\ out' = Ghost([kind |-> "handshake", cert |-> c.id, verdict |-> CrlVerdict(c, en1), cause |-> "crl", loaded |-> Loaded(en1),
                              fetch |-> [Fet0 EXCEPT !["D"] = IF doLoad THEN 1 ELSE 0],
                              listed |-> <<>>, inforce |-> <<>>, intake |-> IF doLoad THEN "firstload" ELSE "none",
                              alt |-> IF OcspFresh(c) # "accept" THEN OcspFresh(c) ELSE CrlVerdict(c, en1)])
  /\ resp' = resp /\ ocache' = OcacheAfter(c)
  /\ Emit(<<"handshake", c.id, d>>, out')

\* ---- BgLoad: the forced background update spawned by a handshake that added an entry runs ---------
BgLoad(o) ==
  /\ phase = "up" /\ Step /\ bg /\ bg' = FALSE
  /\ o \in Origins(ent)
  /\ ent' = Pass(ent, o)
  /\ LET g == GhostPass(ent, o) IN accepted' = g[1] /\ verified' = g[2]
  /\ UNCHANGED <<phase, known>>
  /\ out' = Ghost([kind |-> "pass", loaded |-> Loaded(ent'), fetch |-> PassFetches(ent, o), listed |-> <<>>, inforce |-> <<>>, origin |-> o])
  /\ UNCHANGED <<resp, ocache>>
  /\ Emit(<<"bgload", o>>, out')

\* ---- RefreshAll: a ticker tick / forced update runs one pass over all entries ---------------------
RefreshAll(o) ==
  /\ phase = "up" /\ Step /\ CrlOn /\ ~bg
  /\ o \in Origins(ent)
  /\ ent' = Pass(ent, o)
  /\ LET g == GhostPass(ent, o) IN accepted' = g[1] /\ verified' = g[2]
  /\ UNCHANGED <<phase, bg, known>>
  /\ out' = Ghost([kind |-> "pass", loaded |-> Loaded(ent'), fetch |-> PassFetches(ent, o), listed |-> <<>>, inforce |-> <<>>, origin |-> o])
  /\ UNCHANGED <<resp, ocache>>
  /\ Emit(<<"refresh", o>>, out')

\* ---- Restart: Cleanup, then a new instance on the same work_dir is provisioned ---------------------
\* disk: store directories (keys, meta, locs, signer) survive; memory: everything is gone.
Restart ==
  /\ phase = "up" /\ Step /\ ~bg
  /\ \E nc \in CfgSpace :
       /\ nc.disk = cfg.disk /\ nc.conf = cfg.conf /\ nc.ocsp = cfg.ocsp   \* the same work_dir, storage, configured locations and responder; policy options may change
       /\ cfg' = nc
       /\ LET keep(e) == IF cfg.disk THEN [e EXCEPT !.present = FALSE, !.loaded = FALSE, !.sigFailed = FALSE, !.pending = "none", !.ctx = {}] ELSE Empty
              en0 == [l \in Locs |-> keep(ent[l])]
              \* what is on disk stays on disk; whether it is in force is judged by the new configuration (see InForce)
              acc0 == [l \in Locs |-> IF cfg.disk THEN accepted[l] ELSE NoDoc]
              ver0 == [l \in Locs |-> cfg.disk /\ verified[l]]
          IN /\ phase' = "new" /\ ent' = en0 /\ accepted' = acc0 /\ verified' = ver0
             /\ known' = [l \in Locs |-> FALSE] /\ bg' = FALSE
             /\ out' = NoOut
  /\ resp' = resp /\ ocache' = "none"      \* Cleanup empties the OCSP cache
  /\ Emit(<<"cleanup">>, out')

\* ---- a handshake without any verified chain: nothing to check, nothing touched ------------------------
HandshakeNoChain ==
  /\ phase = "up" /\ Step
  /\ UNCHANGED <<phase, ent, bg, accepted, verified, known>>
  /\ out' = Ghost([kind |-> "handshake", cert |-> "nochain", verdict |-> "accept", cause |-> "nochain", loaded |-> Loaded(ent), fetch |-> Fet0,
                   listed |-> <<>>, inforce |-> <<>>, intake |-> "none", alt |-> "accept"])
  /\ UNCHANGED <<resp, ocache>>
  /\ Emit(<<"handshake-nochain">>, out')

\* ---- the responder of c1 changes its behaviour (environment; only in the dynamic configurations) ------------
Respond(r) ==
  /\ phase = "up" /\ Step /\ Dyn /\ OcspOn /\ r \in {"good", "revoked", "down"} /\ r # resp
  /\ resp' = r
  /\ UNCHANGED <<phase, ent, bg, accepted, verified, known, ocache>>
  /\ out' = Ghost([kind |-> "respond", loaded |-> Loaded(ent), fetch |-> Fet0, listed |-> <<>>, inforce |-> <<>>])
  /\ Emit(<<"respond", r>>, out')

Next == \/ /\ UNCHANGED cfg
           /\ \/ \E d \in DocsU \cup {Down} : Provision(d)
              \/ \E o \in [Locs -> Docs] : BgLoad(o) \/ RefreshAll(o)
              \/ \E c \in Certs, d \in Docs : Handshake(c, d)
              \/ HandshakeNoChain
              \/ \E r \in {"good", "revoked", "down"} : Respond(r)
        \/ Restart

Init == /\ cfg \in CfgSpace
        /\ phase = "new"
        /\ ent = [l \in Locs |-> Empty] /\ bg = FALSE
        /\ accepted = [l \in Locs |-> NoDoc] /\ verified = [l \in Locs |-> FALSE] /\ known = [l \in Locs |-> FALSE]
        /\ resp = (IF cfg.ocsp \in {"dyn", "dyncache"} THEN "good" ELSE cfg.ocsp) /\ ocache = "none"
        /\ out = NoOut /\ steps = 0
Spec == Init /\ [][Next]_vars

(* =============================== properties ============================= *)
\* mechanism refines requirement: a loaded entry holds exactly the accepted document (C01 + C11 + C16)
Refines == \A l \in Locs : (ent[l].present /\ ent[l].loaded) => (InForce(l) /\ ent[l].keys = KeysOf(accepted[l]))
\* and conversely what ought to be in force is loaded
Complete == \A l \in Locs : (phase = "up" /\ InForce(l)) => (ent[l].present /\ ent[l].loaded)
IsHandshake == out'.kind = "handshake"
HS(c) == IsHandshake /\ out'.cert = c.id
\* C01: listed in a CRL in force => rejected, whatever OCSP answered
Sound   == [][\A c \in Certs : (HS(c) /\ CrlOn /\ Listed(c)') => out'.verdict # "accept"]_vars
\* C11: reported revoked => listed in a CRL in force (or OCSP said so)
Precise == [][\A c \in Certs : (HS(c) /\ out'.verdict = "revoked") => (Listed(c)' \/ OcspVerdict(c) = "revoked")]_vars
\* C10: strict accepts a certificate naming distribution points only while that CRL is in force
StrictGate == [][\A c \in Certs : (HS(c) /\ CrlOn /\ Cfg.strict /\ c.cdp # "none" /\ out'.verdict = "accept") => (c.cdp = "D" /\ InForce("D")')]_vars
\* C10: lenient never denies because of distribution-point trouble alone
LenientNeverDenies == [][\A c \in Certs : (HS(c) /\ ~Cfg.strict /\ out'.verdict # "accept") => (Listed(c)' \/ OcspVerdict(c) # "accept")]_vars
\* C16: under verify nothing unverifiable is ever in force (also after restart)
VerifyNeverInForce == \A l \in Locs : (Cfg.sig = "verify" /\ ent[l].present /\ ent[l].loaded) => (accepted[l].q = "valid" /\ verified[l])
\* C16: under verify_log / none a parseable CRL is accepted on every intake path and keeps being refreshed
LenientRefreshWorks == [][(out'.kind = "pass" /\ Cfg.sig # "verify") =>
                             \A l \in Locs : (ent[l].present /\ ent[l].loaded /\ ent[l].locs /\ Parseable(out'.origin[l]))
                                               => ent'[l].keys = KeysOf(out'.origin[l])]_vars
\* C03: the verdict is what the mode promises
Promise(c, en) ==
  LET o == OcspVerdict(c)
      r == IF CrlOn THEN CrlVerdict(c, en) ELSE "accept"
  IN IF o # "accept" THEN o ELSE r
ModePromise == [][\A c \in Certs : HS(c) => out'.verdict = Promise(c, ent')]_vars
\* C16/C19: a configured CRL that is acceptable under the signature mode never makes Provision fail
ProvisionAcceptsAcceptable == [][(out'.kind = "provision" /\ ~out'.ok) => ~out'.acceptable]_vars
ProvisionLoads == (phase = "up" /\ CrlOn /\ Cfg.conf # "none") => (ent["U"].present /\ ent["U"].loaded)
View == <<cfg, phase, ent, bg, accepted, verified, known, resp, ocache>>
\* C14/C02 at validator level: the cache holds only what the responder said authentically, failures are not remembered
OcacheSound == [][ocache' # ocache => (ocache' = "none" \/ (IsHandshake /\ ocache = "none" /\ ocache' = resp))]_vars
TypeOK == phase \in {"new", "up", "failed"} /\ bg \in BOOLEAN
=============================================================================
