-------------------------------- MODULE Authz --------------------------------
(***************************************************************************)
(* Who may sign a CRL (C04): the RFC 5280 5.2.1 issuer-candidate search of *)
(* core/certificatechains.go (FindCertificateIssuerCandidates: by name +   *)
(* algorithm / by AKI keyIdentifier / by AKI issuer + serial), the         *)
(* signature check of crlrepository.go:verifyCRLSignature, and the         *)
(* requirement written from the property: the signer must be ENTITLED.     *)
(*                                                                         *)
(* One behaviour = one row of the decision table: Init picks a row, Intake *)
(* computes what the mechanism does and what the requirement demands.      *)
(* Dev = {"D18"} models the code before the repair (the end-entity and CAs *)
(* without cRLSign are accepted as CRL signers).                           *)
(***************************************************************************)
EXTENDS Naturals, FiniteSets, TLC, Json

CONSTANTS Dev, Export, AlgSet

Signers   == {"issuerCA", "intermediate", "sibling", "endEntity", "unrelatedSameName", "unrelatedOtherName", "trustedSigner"}
AkiForms  == {"absent", "keyIdOK", "keyIdBad", "issuerSerialOK", "issuerSerialBad", "both"}
KeyUsages == {"absent", "crlSign", "noCrlSign"}
Supported == {"sha1WithRSA", "sha224WithRSA", "sha256WithRSA", "sha384WithRSA", "sha512WithRSA",
              "ecdsaWithSHA1", "ecdsaWithSHA224", "ecdsaWithSHA256", "ecdsaWithSHA384", "ecdsaWithSHA512"}
Unsupported == {"rsaPSS", "ed25519"}
Mutations == {"none", "tbs", "outerAlg", "innerAlg", "signature"}
KeyType(alg) == IF alg \in {"ecdsaWithSHA1", "ecdsaWithSHA224", "ecdsaWithSHA256", "ecdsaWithSHA384", "ecdsaWithSHA512"} THEN "ecdsa"
                ELSE IF alg = "ed25519" THEN "ed25519" ELSE "rsa"

Rows == { r \in [signer : Signers, aki : AkiForms, ku : KeyUsages, alg : AlgSet, mut : Mutations] :
            \* key usage is a property of a CA certificate at hand; the other signers have fixed usages
            /\ (r.signer \in {"sibling", "unrelatedSameName", "unrelatedOtherName"} => r.ku = "absent")
            \* (the end-entity certificate may carry any key usage - none at all, or one that includes cRLSign: it is the ROLE that
            \* rules it out, not the bits it was issued with)
            /\ TRUE }

(* ---- certificates at hand on the first-CDP-fetch path: the presented chain plus trusted signers ---- *)
\* cert = [id, name, ski, serial, issuerName, key, keyType, ku, role]
Ctx(r) ==
  LET kt == KeyType(r.alg)
      kuOf(s) == IF r.signer = s THEN r.ku ELSE "crlSign"
      ee    == [id |-> "ee",    name |-> "leaf",  ski |-> "ski-ee",    serial |-> 7,  issuerName |-> IF r.signer = "intermediate" THEN "inter" ELSE "ca",
                key |-> "k-ee", keyType |-> kt, ku |-> (IF r.signer = "endEntity" THEN r.ku ELSE "noCrlSign"), role |-> "ee"]
      ca    == [id |-> "ca",    name |-> "ca",    ski |-> "ski-ca",    serial |-> 1,  issuerName |-> "ca",   key |-> "k-ca",    keyType |-> kt, ku |-> kuOf("issuerCA"),     role |-> "ca"]
      inter == [id |-> "inter", name |-> "inter", ski |-> "ski-inter", serial |-> 2,  issuerName |-> "ca",   key |-> "k-inter", keyType |-> kt, ku |-> kuOf("intermediate"), role |-> "ca"]
      trust == [id |-> "trust", name |-> "trust", ski |-> "ski-trust", serial |-> 3,  issuerName |-> "trust", key |-> "k-trust", keyType |-> kt, ku |-> kuOf("trustedSigner"), role |-> "trusted"]
  IN IF r.signer = "intermediate" THEN {ee, inter, ca} ELSE IF r.signer = "trustedSigner" THEN {ee, ca, trust} ELSE {ee, ca}

CertOf(r, id) == CHOOSE c \in Ctx(r) : c.id = id

\* who signs, and which identity the CRL claims (a signer without certificate at hand spoofs the real issuer's identifiers)
SignerKey(r) == CASE r.signer = "issuerCA" -> "k-ca" [] r.signer = "intermediate" -> "k-inter" [] r.signer = "trustedSigner" -> "k-trust"
                  [] r.signer = "endEntity" -> "k-ee" [] r.signer = "sibling" -> "k-sibling" [] OTHER -> "k-unrelated"
Claimed(r) == CASE r.signer = "issuerCA" -> CertOf(r, "ca") [] r.signer = "intermediate" -> CertOf(r, "inter") [] r.signer = "trustedSigner" -> CertOf(r, "trust")
                [] r.signer = "endEntity" -> CertOf(r, "ee") [] OTHER -> CertOf(r, "ca")
Doc(r) ==
  LET cl == Claimed(r) IN
  [issuerName |-> IF r.signer = "unrelatedOtherName" THEN "nobody" ELSE cl.name,
   aki |-> CASE r.aki = "absent" -> [keyId |-> "none", issuerName |-> "none", serial |-> 0]
             [] r.aki = "keyIdOK" -> [keyId |-> cl.ski, issuerName |-> "none", serial |-> 0]
             [] r.aki = "keyIdBad" -> [keyId |-> "ski-bogus", issuerName |-> "none", serial |-> 0]
             [] r.aki = "issuerSerialOK" -> [keyId |-> "none", issuerName |-> cl.issuerName, serial |-> cl.serial]
             [] r.aki = "issuerSerialBad" -> [keyId |-> "none", issuerName |-> cl.issuerName, serial |-> 99]
             [] OTHER -> [keyId |-> cl.ski, issuerName |-> cl.issuerName, serial |-> cl.serial],
   alg |-> r.alg, key |-> SignerKey(r), mut |-> r.mut]

(* ---- mechanism: candidate search + signature check -------------------------------------------- *)
Candidates(d, ctx) ==
  IF d.aki.keyId = "none" /\ d.aki.serial = 0
  THEN {c \in ctx : c.name = d.issuerName /\ c.keyType = KeyType(d.alg)}
  ELSE IF d.aki.serial # 0
  THEN {c \in ctx : c.serial = d.aki.serial /\ c.issuerName = d.aki.issuerName}
  ELSE {c \in ctx : c.ski = d.aki.keyId}
SigOK(d, c) == d.alg \in Supported /\ d.mut = "none" /\ c.key = d.key /\ c.keyType = KeyType(d.alg)
Allowed(c)  == "D18" \in Dev \/ (c.role # "ee" /\ c.ku # "noCrlSign")      \* the repair: only entitled certificates are candidates
MechInForce(r) == \E c \in Candidates(Doc(r), Ctx(r)) : Allowed(c) /\ SigOK(Doc(r), c)

(* ---- requirement (C04) ------------------------------------------------------------------------- *)
Entitled(r)   == r.signer \in {"issuerCA", "intermediate", "trustedSigner"} /\ r.ku # "noCrlSign"
ReqMayBeInForce(r) == Entitled(r) /\ r.alg \in Supported /\ r.mut = "none" /\ r.aki \in {"absent", "keyIdOK", "issuerSerialOK", "both"}

VARIABLES row, done
vars == <<row, done>>
Init == row \in Rows /\ done = FALSE
Intake == /\ ~done /\ done' = TRUE /\ UNCHANGED row
          /\ (Export => PrintT(<<"ROW", ToJson([row |-> row, mech |-> MechInForce(row), req |-> ReqMayBeInForce(row)])>>))
Spec == Init /\ [][Intake]_vars

\* C04: whatever comes into force was signed by an entitled issuer, unmodified, under a supported algorithm
OnlyEntitled == MechInForce(row) => ReqMayBeInForce(row)
\* the intended mechanism accepts every CRL the requirement allows (no needless rejection; not demanded by C04, checked as drift)
Complete == ReqMayBeInForce(row) => MechInForce(row)
=============================================================================
