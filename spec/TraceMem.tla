------------------------------ MODULE TraceMem ------------------------------
(***************************************************************************)
(* Trace specification for C17 (streaming memory bound).                   *)
(* A child process reads a CRL of N entries with the real reader / store   *)
(* and logs, at every 1/20 of the list and after a forced GC, how many     *)
(* entries were delivered so far and the live heap.  This module consumes  *)
(* that trace: the entry counter follows the reader's Deliver steps        *)
(* (monotone, by at most one block per event) and the requirement          *)
(*    heap <= C0 + C1 * (held + resident)                                  *)
(* is evaluated at every event, with held <= 1 from CrlReader.tla and      *)
(* resident = 0 for the disk backend / no store, = entries for memory.     *)
(***************************************************************************)
EXTENDS Naturals, Sequences, TLC, Json, IOUtils

CONSTANTS C0,        \* constant allowance in KiB (first sample + slack)
          C1,        \* per resident entry allowance in KiB (0 for the disk path)
          Block      \* number of entries between two samples

Trace == ndJsonDeserialize(IOEnv.TRACE)

VARIABLES l, entries, heap, run
vars == <<l, entries, heap, run>>

Init == l = 1 /\ entries = 0 /\ heap = 0 /\ run = "none"

IsEvent(e) == l <= Len(Trace) /\ Trace[l].ev = e /\ l' = l + 1

\* a new run starts (many traces are concatenated into one file)
Reset == /\ IsEvent("reset") /\ entries' = 0 /\ heap' = Trace[l].heap /\ run' = Trace[l].run

\* the reader delivered entries (one block since the previous sample, never backwards)
Sample == /\ IsEvent("sample")
          /\ Trace[l].n >= entries /\ Trace[l].n <= entries + Block
          /\ entries' = Trace[l].n /\ heap' = Trace[l].heap /\ UNCHANGED run

\* the document is finished (signature read); the counter may not move any more
Done == /\ IsEvent("done") /\ Trace[l].n = entries /\ heap' = Trace[l].heap /\ UNCHANGED <<entries, run>>

Next == Reset \/ Sample \/ Done
Spec == Init /\ [][Next]_vars

Resident == IF C1 = 0 THEN 0 ELSE entries
MemBound == heap <= C0 + C1 * (1 + Resident)
Accepted == TLCGet("stats").diameter - 1 = Len(Trace)
=============================================================================
