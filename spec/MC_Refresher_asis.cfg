SPECIFICATION Spec
CONSTANTS
  V = {"v1", "v2"}
  I = 4
  B = 2
  Global = TRUE
  D = 1
  DropWhenBusy = FALSE
  LeakOnSibling = FALSE
  Export = FALSE
INVARIANTS TypeOK BoundedRefresh
PROPERTIES Live
CHECK_DEADLOCK FALSE
