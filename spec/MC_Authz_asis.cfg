SPECIFICATION Spec
CONSTANTS
  Dev <- DevD18
  Export = FALSE
  AlgSet <- AlgAll
INVARIANTS OnlyEntitled Complete
CHECK_DEADLOCK FALSE
