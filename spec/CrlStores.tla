------------------------------ MODULE CrlStores ------------------------------
(***************************************************************************)
(* Several stores of ONE base path (work_dir) and the temporary stores     *)
(* that stage their replacements, each with a life time of its own         *)
(* (crl/crlstore: Factory.CreateStore(id, temporary), Update, Delete,      *)
(* Close).  CrlStore.tla is the map ONE store is; this module is about     *)
(* what the stores of a base path do to each other: a staged store is      *)
(* created, filled and - possibly much later, after other stores were      *)
(* replaced or reopened - consumed by a replacement or deleted.  In the    *)
(* plugin this is stageCRL / updateCrlEntry of one CRL running while       *)
(* another CRL of the same work_dir is swapped.                            *)
(* Serves C18 (replacement sequences over several stores) and C20          *)
(* (distinct locations never share a store).                               *)
(***************************************************************************)
EXTENDS Naturals, FiniteSets, Sequences, TLC, Json

CONSTANTS Ids,      \* identifiers of the main stores of the base path
          Slots,    \* how many temporary stores may be alive at a time
          Keys,     \* abstract (issuer, serial) pairs
          Export

Absent == "absent"
Fresh == [meta |-> Absent, ext |-> Absent, signer |-> Absent, locs |-> Absent, ents |-> [k \in Keys |-> Absent]]
AnyKey == CHOOSE k \in Keys : TRUE
\* the prepared contents of CrlStore.tla
Prepared ==
  { Fresh,
    [Fresh EXCEPT !.meta = "v1"],
    [Fresh EXCEPT !.meta = "v2", !.ext = "v2", !.signer = "v2", !.locs = "v2", !.ents = [k \in Keys |-> "v2"]],
    [Fresh EXCEPT !.meta = "v1", !.locs = "v1", !.ents = [k \in Keys |-> IF k = AnyKey THEN "v1" ELSE Absent]] }
None == [meta |-> "none", ext |-> "none", signer |-> "none", locs |-> "none", ents |-> [k \in Keys |-> "none"]]

VARIABLES main,     \* [Ids -> Prepared]: content of each main store
          staged    \* [Slots -> Prepared \cup {None}]: temporary stores alive (None = slot free)
vars == <<main, staged>>

Obs(x) == [meta |-> x.meta, ext |-> x.ext, signer |-> x.signer, locs |-> x.locs,
           look |-> [k \in Keys |-> IF x.ents[k] = Absent THEN "notrevoked" ELSE x.ents[k]]]
ObsAll(m, st) == [main |-> [i \in Ids |-> Obs(m[i])], staged |-> [sl \in Slots |-> IF st[sl] = None THEN "none" ELSE Obs(st[sl])]]

Init == main = [i \in Ids |-> Fresh] /\ staged = [sl \in Slots |-> None]

Emit(op) == Export => PrintT(<<"EDGE", ToJson([from |-> [main |-> main, staged |-> staged], op |-> op,
                                              to |-> [main |-> main', staged |-> staged'], expect |-> ObsAll(main', staged')])>>)

\* Factory.CreateStore(id, TRUE) followed by filling it
Stage(sl, i, p) == /\ staged[sl] = None /\ staged' = [staged EXCEPT ![sl] = p] /\ UNCHANGED main
                   /\ Emit(<<"stage", sl, i, Obs(p)>>)
\* main[i].Update(staged store): whole-store replacement; the temporary store is consumed
Replace(i, sl) == /\ staged[sl] # None /\ main' = [main EXCEPT ![i] = staged[sl]] /\ staged' = [staged EXCEPT ![sl] = None]
                  /\ Emit(<<"replace", i, sl>>)
\* a staging that is given up: Close + Delete of the temporary store
Discard(sl) == /\ staged[sl] # None /\ staged' = [staged EXCEPT ![sl] = None] /\ UNCHANGED main
               /\ Emit(<<"discard", sl>>)
\* Close + CreateStore(same identifier, FALSE)
Reopen(i) == /\ UNCHANGED vars /\ Emit(<<"reopen", i>>)

Next == \/ \E sl \in Slots, i \in Ids, p \in Prepared : Stage(sl, i, p)
        \/ \E i \in Ids, sl \in Slots : Replace(i, sl)
        \/ \E sl \in Slots : Discard(sl)
        \/ \E i \in Ids : Reopen(i)
Spec == Init /\ [][Next]_vars

(* ---- properties ---------------------------------------------------------- *)
TypeOK == main \in [Ids -> Prepared] /\ staged \in [Slots -> Prepared \cup {None}]
\* C18/C20: a store changes only by a replacement of itself, and then to exactly the content that was staged for it
Isolation == [][\A i \in Ids : main'[i] # main[i] => \E sl \in Slots : staged[sl] = main'[i] /\ staged'[sl] = None]_vars
\* a temporary store keeps its content until it is consumed or discarded, whatever happens to the other stores
StagedStable == [][\A sl \in Slots : (staged[sl] # None /\ staged'[sl] # None) => staged'[sl] = staged[sl]]_vars
=============================================================================
