SPECIFICATION Spec
CONSTANTS
  Registered = FALSE
INVARIANTS NoDeadlock Ordered
CHECK_DEADLOCK FALSE
