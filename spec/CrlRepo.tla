------------------------------- MODULE CrlRepo -------------------------------
(***************************************************************************)
(* Fine-grained model of one repository entry (crl/crlrepository:          *)
(* loadActively/loadCRL, updateCrlEntry/updateEntry, checkCrl, Close;      *)
(* crl/crlstore/leveldb.go:Update, map.go:Update): one loader/refresher    *)
(* process whose program counter names the verif hook that fired last,     *)
(* reader processes (lookups under the entry read lock), the file-system   *)
(* artefacts in work_dir, crash and restart.                               *)
(* Serves C08 (refresh atomicity), C12 (crash consistency), C13 (lock      *)
(* discipline), C20 (no residue, live store kept).                         *)
(*                                                                         *)
(* pc of the loader = name of the last completed step = hook site:         *)
(*   idle -> tmp -> [info] -> fetching -> fetched -> staged -> parsed -> verified ->   *)
(*   locked -> closedOld -> closedNew -> movedAside -> movedIn ->          *)
(*   removedOld -> reopened   (memory: locked -> replaced)                 *)
(*   -> unlocked -> idle ;  any failure: -> failed -> idle                 *)
(* A first load (entry not loaded) holds the entry write lock from the     *)
(* start (loadActively); a refresh takes it only for the swap.             *)
(***************************************************************************)
EXTENDS Naturals, FiniteSets, Sequences, TLC, Json

CONSTANTS Readers, Keys, MaxRuns, Disk, WithCrash, Export

Docs  == SUBSET Keys                      \* a CRL is identified by its complete key set
NoDoc == [some |-> FALSE, keys |-> {}]          \* "no accepted document"
DocOf(ks) == [some |-> TRUE, keys |-> ks]
NoStage == [some |-> FALSE, keys |-> {}, full |-> FALSE]
NoFetch == [kind |-> "none", keys |-> {}]
Kinds == {"good", "badsig", "garbage", "trunc", "down"}
Origins == [kind : {"good", "badsig", "trunc"}, keys : Docs] \cup {[kind |-> "garbage", keys |-> {}], [kind |-> "down", keys |-> {}]}

VARIABLES
  origin,      \* what the location serves
  final,       \* the store directory work_dir/<id>: [exists, keys, meta, open]; meta = the record IsEmpty looks at
  liveDoc,     \* ghost: the accepted document the final directory was built from, or NoDoc
  stage,       \* temporary store crl_<uuid>_tmp: NoDoc or [keys, full]
  aside,       \* the old store moved aside (crl_<uuid>_tmp): BOOLEAN
  tmpfile,     \* the download file crl_*_tmp: BOOLEAN
  loaded,      \* Entry.Loaded
  wlock, rlock,\* entry RW lock: writer in {"none", "ldr"}, set of readers
  lpc, kind,   \* loader pc and kind of run ("first" | "refresh")
  rpc,         \* per reader pc: idle | locked | got
  cursor, fetched, runs,
  ver,         \* ghost: number of swaps so far
  seen, floor, \* ghost per reader: version observed by its last lookup; highest version any lookup had completed with when it began
  maxDone,     \* ghost: highest version a completed lookup has observed
  up,          \* the process is running
  closed       \* the instance was cleaned up (Repository.Close) while the process keeps running; a run in flight goes on
vars == <<origin, final, liveDoc, stage, aside, tmpfile, loaded, wlock, rlock, lpc, kind, rpc, cursor, fetched, runs, ver, seen, floor, maxDone, up, closed>>

EmptyDir == [exists |-> TRUE, keys |-> {}, meta |-> FALSE, open |-> TRUE]

Init == /\ origin \in {o \in Origins : o.kind = "good"}
        /\ final = EmptyDir /\ liveDoc = NoDoc
        /\ stage = NoStage /\ aside = FALSE /\ tmpfile = FALSE /\ loaded = FALSE
        /\ wlock = "none" /\ rlock = {}
        /\ lpc = "idle" /\ kind = "first" /\ rpc = [r \in Readers |-> "idle"]
        /\ cursor = {} /\ fetched = NoFetch /\ runs = 0
        /\ ver = 0 /\ seen = [r \in Readers |-> 0] /\ floor = [r \in Readers |-> 0] /\ maxDone = 0
        /\ up = TRUE /\ closed = FALSE

Emit(op) == Export => PrintT(<<"EDGE", ToJson([from |-> [origin |-> origin, final |-> final, liveDoc |-> liveDoc, stage |-> stage, aside |-> aside, tmpfile |-> tmpfile, loaded |-> loaded,
                                                         wlock |-> wlock, lpc |-> lpc, kind |-> kind, fetched |-> fetched, cursor |-> cursor, runs |-> runs, up |-> up, closed |-> closed],
                                              op |-> op,
                                              to |-> [origin |-> origin', final |-> final', liveDoc |-> liveDoc', stage |-> stage', aside |-> aside', tmpfile |-> tmpfile', loaded |-> loaded',
                                                       wlock |-> wlock', lpc |-> lpc', kind |-> kind', fetched |-> fetched', cursor |-> cursor', runs |-> runs', up |-> up', closed |-> closed'],
                                              expect |-> [loaded |-> loaded', live |-> liveDoc', temps |-> (tmpfile' \/ stage'.some \/ aside'), finalExists |-> final'.exists]])>>)

Ghosts == <<ver, seen, floor, maxDone>>
RdVars == <<rlock, rpc>>

Publish == /\ up /\ lpc = "idle" /\ runs < MaxRuns
           /\ \E o \in Origins : origin' = o /\ o # origin
           /\ UNCHANGED <<final, liveDoc, stage, aside, tmpfile, loaded, wlock, lpc, kind, cursor, fetched, runs, up, closed>> /\ UNCHANGED Ghosts /\ UNCHANGED RdVars
           /\ Emit(<<"publish", origin'>>)

(* ---- loader / refresher ---------------------------------------------------------------------- *)
L(next) == lpc' = next
Same(vs) == UNCHANGED vs /\ UNCHANGED closed

\* start of a run: a first load takes the entry write lock for its whole duration
LStart == /\ up /\ ~closed /\ lpc = "idle" /\ runs < MaxRuns /\ runs' = runs + 1
          /\ IF loaded THEN kind' = "refresh" /\ wlock' = wlock
             ELSE kind' = "first" /\ wlock = "none" /\ rlock = {} /\ wlock' = "ldr"
          /\ tmpfile' = TRUE /\ L("tmp")
          /\ Same(<<origin, final, liveDoc, stage, aside, loaded, cursor, fetched, up>>) /\ UNCHANGED Ghosts /\ UNCHANGED RdVars
          /\ Emit(<<"start">>)
\* refresh only: read locations and stored signer under the read lock (collapsed to one step: needs no writer)
LInfo == /\ up /\ lpc = "tmp" /\ kind = "refresh" /\ wlock = "none" /\ (IF closed \/ ~final.open THEN L("failed") ELSE L("info"))   \* (a closed store cannot be read)
         /\ Same(<<origin, final, liveDoc, stage, aside, tmpfile, loaded, wlock, kind, cursor, fetched, runs, up>>) /\ UNCHANGED Ghosts /\ UNCHANGED RdVars
         /\ Emit(<<"info">>)
\* the transfer is under way: the download file holds a prefix of the body (a crash point of its own; an origin that is down
\* fails the fetch without reaching it)
LFetchBegin == /\ up /\ ((lpc = "tmp" /\ kind = "first") \/ lpc = "info") /\ origin.kind # "down" /\ L("fetching")
               /\ Same(<<origin, final, liveDoc, stage, aside, tmpfile, loaded, wlock, kind, cursor, fetched, runs, up>>) /\ UNCHANGED Ghosts /\ UNCHANGED RdVars
               /\ Emit(<<"fetchBegin">>)
LFetch == /\ up /\ (IF origin.kind = "down" THEN ((lpc = "tmp" /\ kind = "first") \/ lpc = "info") ELSE lpc = "fetching")
          /\ IF origin.kind = "down" THEN L("failed") /\ fetched' = NoFetch ELSE L("fetched") /\ fetched' = origin
          /\ Same(<<origin, final, liveDoc, stage, aside, tmpfile, loaded, wlock, kind, cursor, runs, up>>) /\ UNCHANGED Ghosts /\ UNCHANGED RdVars
          /\ Emit(<<"fetch">>)
LStage == /\ up /\ lpc = "fetched"
          /\ \/ (stage' = [some |-> TRUE, keys |-> {}, full |-> FALSE] /\ L("staged") /\ cursor' = fetched.keys)
             \/ (stage' = NoStage /\ L("failed") /\ cursor' = {})                       \* staging store cannot be created
          /\ Same(<<origin, final, liveDoc, aside, tmpfile, loaded, wlock, kind, fetched, runs, up>>) /\ UNCHANGED Ghosts /\ UNCHANGED RdVars
          /\ Emit(<<"stage", stage'.some>>)
LParse == /\ up /\ lpc = "staged"
          /\ IF fetched.kind = "garbage" THEN L("failed") /\ UNCHANGED <<stage, cursor>>
             ELSE IF cursor = {} THEN (IF fetched.kind = "trunc" THEN L("failed") /\ UNCHANGED <<stage, cursor>>
                                       ELSE L("parsed") /\ stage' = [stage EXCEPT !.full = TRUE] /\ UNCHANGED cursor)
             ELSE \/ \E k \in cursor : stage' = [stage EXCEPT !.keys = @ \cup {k}] /\ cursor' = cursor \ {k} /\ L("staged")
                  \/ (L("failed") /\ UNCHANGED <<stage, cursor>>)                        \* insert error at this step
          /\ Same(<<origin, final, liveDoc, aside, tmpfile, loaded, wlock, kind, fetched, runs, up>>) /\ UNCHANGED Ghosts /\ UNCHANGED RdVars
          /\ Emit(<<"parse">>)
\* (the run may also fail here although the signature verifies: the staging store refuses the last record that fills it, the signer)
LVerify == /\ up /\ lpc = "parsed"
           /\ \/ (fetched.kind # "badsig" /\ L("verified"))
              \/ L("failed")
           /\ Same(<<origin, final, liveDoc, stage, aside, tmpfile, loaded, wlock, kind, cursor, fetched, runs, up>>) /\ UNCHANGED Ghosts /\ UNCHANGED RdVars
           /\ Emit(<<"verify">>)
\* the swap happens under the entry write lock
LLock == /\ up /\ lpc = "verified"
         /\ IF kind = "first" THEN wlock' = wlock ELSE (wlock = "none" /\ rlock = {} /\ wlock' = "ldr")
         /\ L("locked")
         /\ Same(<<origin, final, liveDoc, stage, aside, tmpfile, loaded, kind, cursor, fetched, runs, up>>) /\ UNCHANGED Ghosts /\ UNCHANGED RdVars
         /\ Emit(<<"lock">>)
Swapped == /\ ver' = ver + 1 /\ Same(<<seen, floor, maxDone>>)
\* the swap of an instance that was closed meanwhile fails (the live store is closed): nothing is moved, nothing reopened
LSwapClosed == /\ up /\ closed /\ lpc = "locked" /\ L("failed") /\ wlock' = "none"
               /\ Same(<<origin, final, liveDoc, stage, aside, tmpfile, loaded, kind, cursor, fetched, runs, up>>) /\ UNCHANGED Ghosts /\ UNCHANGED RdVars
               /\ Emit(<<"swapClosed">>)
\* the swap fails (the storage layer refuses it; injected before anything is moved). The code does not trust a store whose swap
\* failed: it closes it and keeps the entry - with the disk backend every later lookup in this CRL is an error and the connection
\* is denied (fail closed, C09) until the next instance opens the directory again; a closed memory store keeps answering. The
\* contents on disk are untouched, and an entry that had nothing in force is still not loaded.
\* Named deviation (off; a configuration may replace it by DeviationOn): the entry is marked loaded BEFORE the swap is attempted.
LoadedBeforeSwap == FALSE
DeviationOn == TRUE
LSwapFault == /\ up /\ ~closed /\ lpc = "locked" /\ L("failed") /\ wlock' = "none"
              /\ final' = IF Disk THEN [final EXCEPT !.open = FALSE] ELSE final
              /\ loaded' = (loaded \/ LoadedBeforeSwap)
              /\ Same(<<origin, liveDoc, stage, aside, tmpfile, kind, cursor, fetched, runs, up>>) /\ UNCHANGED Ghosts /\ UNCHANGED RdVars
              /\ Emit(<<"swapFault">>)
LMapSwap == /\ up /\ ~closed /\ ~Disk /\ lpc = "locked"
            /\ final' = [exists |-> TRUE, keys |-> stage.keys, meta |-> TRUE, open |-> TRUE] /\ liveDoc' = DocOf(fetched.keys) /\ stage' = NoStage
            /\ L("replaced") /\ Swapped
            /\ Same(<<origin, aside, tmpfile, loaded, wlock, kind, cursor, fetched, runs, up>>) /\ UNCHANGED RdVars
            /\ Emit(<<"mapswap">>)
LCloseOld == /\ up /\ ~closed /\ Disk /\ lpc = "locked" /\ final' = [final EXCEPT !.open = FALSE] /\ L("closedOld")
             /\ Same(<<origin, liveDoc, stage, aside, tmpfile, loaded, wlock, kind, cursor, fetched, runs, up>>) /\ UNCHANGED Ghosts /\ UNCHANGED RdVars
             /\ Emit(<<"closeOld">>)
LCloseNew == /\ up /\ lpc = "closedOld" /\ L("closedNew")
             /\ Same(<<origin, final, liveDoc, stage, aside, tmpfile, loaded, wlock, kind, cursor, fetched, runs, up>>) /\ UNCHANGED Ghosts /\ UNCHANGED RdVars
             /\ Emit(<<"closeNew">>)
LMvAside == /\ up /\ lpc = "closedNew" /\ aside' = TRUE /\ final' = [exists |-> FALSE, keys |-> {}, meta |-> FALSE, open |-> FALSE] /\ L("movedAside")
            /\ Same(<<origin, liveDoc, stage, tmpfile, loaded, wlock, kind, cursor, fetched, runs, up>>) /\ UNCHANGED Ghosts /\ UNCHANGED RdVars
            /\ Emit(<<"mvAside">>)
LMvNew == /\ up /\ lpc = "movedAside"
          /\ final' = [exists |-> TRUE, keys |-> stage.keys, meta |-> TRUE, open |-> FALSE] /\ liveDoc' = DocOf(fetched.keys) /\ stage' = NoStage /\ L("movedIn") /\ Swapped
          /\ Same(<<origin, aside, tmpfile, loaded, wlock, kind, cursor, fetched, runs, up>>) /\ UNCHANGED RdVars
          /\ Emit(<<"mvNew">>)
LRmOld == /\ up /\ lpc = "movedIn" /\ aside' = FALSE /\ L("removedOld")
          /\ Same(<<origin, final, liveDoc, stage, tmpfile, loaded, wlock, kind, cursor, fetched, runs, up>>) /\ UNCHANGED Ghosts /\ UNCHANGED RdVars
          /\ Emit(<<"rmOld">>)
LReopen == /\ up /\ lpc = "removedOld" /\ final' = [final EXCEPT !.open = TRUE] /\ L("reopened")
           /\ Same(<<origin, liveDoc, stage, aside, tmpfile, loaded, wlock, kind, cursor, fetched, runs, up>>) /\ UNCHANGED Ghosts /\ UNCHANGED RdVars
           /\ Emit(<<"reopen">>)
LUnlock == /\ up /\ lpc \in {"reopened", "replaced"} /\ wlock' = "none" /\ loaded' = TRUE /\ L("unlocked")
           /\ Same(<<origin, final, liveDoc, stage, aside, tmpfile, kind, cursor, fetched, runs, up>>) /\ UNCHANGED Ghosts /\ UNCHANGED RdVars
           /\ Emit(<<"unlock">>)
\* failure: only the staging store is deleted; a first load releases the lock it held
LFail == /\ up /\ lpc = "failed" /\ stage' = NoStage
         /\ wlock' = IF kind = "first" THEN "none" ELSE wlock
         /\ L("done")
         /\ Same(<<origin, final, liveDoc, aside, tmpfile, loaded, kind, cursor, fetched, runs, up>>) /\ UNCHANGED Ghosts /\ UNCHANGED RdVars
         /\ Emit(<<"fail">>)
LDone == /\ up /\ lpc \in {"unlocked", "done"} /\ tmpfile' = FALSE /\ L("idle") /\ fetched' = NoFetch /\ cursor' = {}
         /\ Same(<<origin, final, liveDoc, stage, aside, loaded, wlock, kind, runs, up>>) /\ UNCHANGED Ghosts /\ UNCHANGED RdVars
         /\ Emit(<<"done">>)

(* ---- readers: checkCrl under the entry read lock ------------------------------------------------- *)
RBegin(r) == /\ up /\ ~closed /\ rpc[r] = "idle" /\ wlock = "none" /\ rlock' = rlock \cup {r} /\ rpc' = [rpc EXCEPT ![r] = "locked"]
             /\ floor' = [floor EXCEPT ![r] = maxDone]
             /\ Same(<<origin, final, liveDoc, stage, aside, tmpfile, loaded, wlock, lpc, kind, cursor, fetched, runs, ver, seen, maxDone, up>>)
RLookup(r) == /\ up /\ rpc[r] = "locked" /\ rpc' = [rpc EXCEPT ![r] = "got"]
              /\ seen' = [seen EXCEPT ![r] = IF loaded /\ final.open THEN ver ELSE @]        \* (a closed store answers with an error)
              /\ Same(<<origin, final, liveDoc, stage, aside, tmpfile, loaded, wlock, rlock, lpc, kind, cursor, fetched, runs, ver, floor, maxDone, up>>)
REnd(r) == /\ up /\ rpc[r] = "got" /\ rlock' = rlock \ {r} /\ rpc' = [rpc EXCEPT ![r] = "idle"]
           /\ maxDone' = IF seen[r] > maxDone THEN seen[r] ELSE maxDone
           /\ Same(<<origin, final, liveDoc, stage, aside, tmpfile, loaded, wlock, lpc, kind, cursor, fetched, runs, ver, seen, floor, up>>)

(* ---- crash and restart (disk only) ----------------------------------------------------------------- *)
Crash == /\ WithCrash /\ Disk /\ up /\ ~closed /\ lpc # "idle" /\ up' = FALSE
         /\ wlock' = "none" /\ rlock' = {} /\ rpc' = [r \in Readers |-> "idle"] /\ L("idle") /\ loaded' = FALSE
         /\ final' = [final EXCEPT !.open = FALSE] /\ cursor' = {} /\ fetched' = NoFetch
         /\ Same(<<origin, liveDoc, stage, aside, tmpfile, kind, runs>>) /\ UNCHANGED Ghosts
         /\ Emit(<<"crash", lpc, kind>>)
\* Provision of a new instance: temp sweep, then the entry is re-created on first use: Loaded := the meta record exists
Restart == /\ ~up /\ up' = TRUE
           /\ stage' = NoStage /\ aside' = FALSE /\ tmpfile' = FALSE
           /\ final' = IF final.exists THEN [final EXCEPT !.open = TRUE] ELSE EmptyDir
           /\ liveDoc' = IF final.exists THEN liveDoc ELSE NoDoc
           /\ loaded' = (final.exists /\ final.meta)
           /\ Same(<<origin, wlock, rlock, lpc, kind, rpc, cursor, fetched, runs>>) /\ UNCHANGED Ghosts
           /\ Emit(<<"restart">>)

(* ---- Cleanup of the instance while a refresh is in flight, and a new instance in the same process ---------- *)
\* Repository.Close takes every entry's write lock: it waits for a first load (which holds it) and for a swap, not for a refresh
\* that is still fetching, staging or parsing.  The stores are closed, the entry is gone; the run in flight goes on alone.
Shutdown == /\ up /\ ~closed /\ kind = "refresh" /\ lpc \in {"tmp", "info", "fetching", "fetched", "staged", "parsed", "verified"}
            /\ wlock = "none" /\ rlock = {}
            /\ closed' = TRUE /\ final' = [final EXCEPT !.open = FALSE] /\ loaded' = FALSE
            /\ UNCHANGED <<origin, liveDoc, stage, aside, tmpfile, wlock, rlock, lpc, kind, rpc, cursor, fetched, runs, up>> /\ UNCHANGED Ghosts
            /\ Emit(<<"shutdown">>)
\* Provision of a new instance on the same work_dir once the old run has ended: like Restart, without a process death
Reprovision == /\ up /\ closed /\ lpc = "idle" /\ closed' = FALSE
               /\ stage' = NoStage /\ aside' = FALSE /\ tmpfile' = FALSE
               /\ final' = IF final.exists THEN [final EXCEPT !.open = TRUE] ELSE EmptyDir
               /\ loaded' = (final.exists /\ final.meta)
               /\ UNCHANGED <<origin, liveDoc, wlock, rlock, lpc, kind, rpc, cursor, fetched, runs, up>> /\ UNCHANGED Ghosts
               /\ Emit(<<"reprovision">>)

Next == Publish \/ Shutdown \/ Reprovision \/ LSwapClosed \/ LSwapFault \/ LStart \/ LInfo \/ LFetchBegin \/ LFetch \/ LStage \/ LParse \/ LVerify \/ LLock \/ LMapSwap \/ LCloseOld \/ LCloseNew \/ LMvAside
        \/ LMvNew \/ LRmOld \/ LReopen \/ LUnlock \/ LFail \/ LDone \/ Crash \/ Restart
        \/ \E r \in Readers : RBegin(r) \/ RLookup(r) \/ REnd(r)
Spec == Init /\ [][Next]_vars
View == <<origin, final, liveDoc, stage, aside, tmpfile, loaded, wlock, rlock, lpc, kind, rpc, cursor, fetched, runs, up, seen, floor, maxDone, ver, closed>>

(* =============================== properties ============================= *)
\* C08: whenever a reader is inside its critical section of a loaded entry, the live store is open and holds exactly one complete accepted list
Atomic == \A r \in Readers : (rpc[r] = "locked" /\ loaded /\ final.open) => (final.exists /\ final.meta /\ liveDoc.some /\ final.keys = liveDoc.keys)
\* C08: once the new list has been observed, the old one is never observed again (per reader, and in real-time order across readers)
Monotone == [][\A r \in Readers : seen'[r] >= seen[r] /\ (rpc[r] = "locked" /\ rpc'[r] = "got" /\ loaded /\ final.open => seen'[r] >= floor[r])]_vars
\* C08: a failed run leaves the previous list fully in force
FailKeeps == [][(up /\ up' /\ (lpc' = "failed" \/ lpc = "failed")) => ([final' EXCEPT !.open = final.open] = final /\ liveDoc' = liveDoc /\ loaded' = loaded)]_vars
\* C13: lock discipline: never a writer together with readers; the store is only replaced under the write lock
LockOK == ~(wlock # "none" /\ rlock # {})
SwapLocked == [][(up /\ up' /\ final'.keys # final.keys) => wlock = "ldr"]_vars
\* C20: no temporary artefacts when quiescent; the live store of a loaded entry is never deleted while the process runs
NoResidue == (up /\ lpc = "idle") => (~tmpfile /\ ~stage.some /\ ~aside)
LiveKept  == (up /\ loaded /\ lpc \notin {"movedAside"}) => final.exists
\* C12: after a restart a location is treated as loaded only if the directory holds one complete accepted list
CrashSafe == (up /\ loaded /\ wlock = "none") => (final.exists /\ final.meta /\ liveDoc.some /\ final.keys = liveDoc.keys)
\* C12: only accepted documents ever reach the final directory
OnlyAccepted == final.meta => liveDoc.some
\* C20: nothing of a closed instance is reopened or replaced by its run in flight: the next instance finds the store as it was left
ClosedStaysClosed == [][(closed /\ closed') => (final' = final /\ liveDoc' = liveDoc)]_vars
\* ... and its temporary artefacts are gone when that run has ended
NoResidueClosed == (up /\ closed /\ lpc = "idle") => (~tmpfile /\ ~stage.some /\ ~aside)
TypeOK == lpc \in {"idle", "tmp", "info", "fetching", "fetched", "staged", "parsed", "verified", "locked", "closedOld", "closedNew", "movedAside", "movedIn", "removedOld", "reopened", "replaced", "unlocked", "failed", "done"}
=============================================================================
