------------------------------ MODULE TraceRepo ------------------------------
(***************************************************************************)
(* Trace specification for free-running concurrent executions of the real  *)
(* repository (C13 "each verdict is one that some sequential ordering of   *)
(* the same operations would have produced", C08 atomicity/monotonicity).  *)
(*                                                                         *)
(* The refresher publishes list number k = {common, marker_k} and swaps it *)
(* in; the swap event is logged inside the verif hook that fires under the *)
(* entry write lock (the linearization point of CrlRepo.tla's LMvNew /     *)
(* LMapSwap).  Every lookup logs the version counter at its call start (s) *)
(* and call end (e), the probe and the answer.  A lookup is explainable    *)
(* iff its answer is the answer of ONE complete version v in s..e, and the *)
(* versions a reader observes never go backwards.                          *)
(***************************************************************************)
EXTENDS Naturals, Sequences, FiniteSets, TLC, Json, IOUtils

Trace == ndJsonDeserialize(IOEnv.TRACE)

VARIABLES l, ver, hi
vars == <<l, ver, hi>>

Readers == {Trace[i].r : i \in {j \in 1..Len(Trace) : Trace[j].ev = "lookup"}}

Init == l = 1 /\ ver = 0 /\ hi = [r \in Readers |-> 0]

IsEvent(e) == l <= Len(Trace) /\ Trace[l].ev = e /\ l' = l + 1

\* a new list came into force (logged under the write lock): versions only grow
Swap == /\ IsEvent("swap") /\ Trace[l].ver > ver /\ ver' = Trace[l].ver /\ UNCHANGED hi

\* the answer of a lookup of marker j under version v: revoked iff v = j; the common probe is revoked under every version
Answer(probe, j, v) == IF probe = "common" THEN "revoked" ELSE IF v = j THEN "revoked" ELSE "accept"

Lookup == /\ IsEvent("lookup")
          /\ LET ev == Trace[l] IN
             /\ ev.s <= ev.e /\ ev.e <= ver
             /\ \E v \in ev.s..ev.e : v >= hi[ev.r] /\ Answer(ev.probe, ev.j, v) = ev.ans       \* explainable by one complete version, not older than what this reader saw
             /\ hi' = [hi EXCEPT ![ev.r] = IF ev.probe = "marker" /\ ev.ans = "revoked" /\ ev.j > @ THEN ev.j ELSE @]
          /\ UNCHANGED ver

Next == Swap \/ Lookup
Spec == Init /\ [][Next]_vars
Accepted == TLCGet("stats").diameter - 1 = Len(Trace)
=============================================================================
