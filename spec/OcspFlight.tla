----------------------------- MODULE OcspFlight -----------------------------
(***************************************************************************)
(* OCSP queries as operations with a duration: several handshakes are      *)
(* inside OCSPRevocationChecker.IsRevoked at the same time (Caddy verifies *)
(* every connection on its own goroutine).  Ocsp.tla treats a query as one *)
(* atomic step; here a query is Begin (cache lookup, request sent) and     *)
(* Answer (the responder's reply arrives, is judged, cached), and other    *)
(* queries may begin and end in between.                                   *)
(*                                                                         *)
(* Two certificates with the same subject and serial under different       *)
(* issuers name the SAME responder URL (one responder serving several      *)
(* CAs).  The responder decodes the request and answers about the          *)
(* certificate asked for, as its class for that certificate says.          *)
(* Anchors: ocsp/ocsprevocationchecker.go (IsRevoked: cache lookup,        *)
(* request, parseOcspResponse, cache.Add).  Serves C05 (only an answer     *)
(* for THIS certificate by ITS issuer counts), C02 and C13 (each verdict   *)
(* is the one the query would have produced alone).                        *)
(***************************************************************************)
EXTENDS Naturals, FiniteSets, TLC, Json

CONSTANTS CfgSpace,   \* set of [cls: [Certs -> Classes], strict: [V -> BOOLEAN], cacheOn: BOOLEAN]
          MaxBegins,  \* bound on the number of queries of a behaviour
          Merge,      \* deviation: a query that begins while another one with the same responder and serial is in flight takes over its result
          Export

V       == {"v1", "v2"}
Certs   == {"cA", "cB"}
Slots   == {"q1", "q2"}
Classes == {"good", "revoked", "http500"}
Counts(cl)   == cl \in {"good", "revoked"}
StatusOf(cl) == IF cl = "revoked" THEN "revoked" ELSE "good"

VARIABLES cfg, fl, cache, out, nb
vars == <<cfg, fl, cache, out, nb>>
Idle == [st |-> "idle", v |-> "v1", c |-> "cA", rider |-> FALSE]

Init == /\ cfg \in CfgSpace /\ fl = [s \in Slots |-> Idle] /\ cache = [c \in Certs |-> "none"] /\ out = [kind |-> "none"] /\ nb = 0

Emit(op) == Export => PrintT(<<"EDGE", ToJson([from |-> [cfg |-> cfg, fl |-> fl, cache |-> cache, nb |-> nb], op |-> op,
                                              to |-> [cfg |-> cfg, fl |-> fl', cache |-> cache', nb |-> nb'], expect |-> out'])>>)

Verdict(st) == IF st = "revoked" THEN "revoked" ELSE "accept"
\* what the query of certificate c on instance v yields when the responder answers (no cache entry)
Alone(v, c) == IF Counts(cfg.cls[c]) THEN Verdict(StatusOf(cfg.cls[c])) ELSE IF cfg.strict[v] THEN "error" ELSE "accept"

\* a handshake enters IsRevoked: a valid cache entry answers at once, otherwise the request goes out and the query is in flight
Begin(s, v, c) ==
  /\ fl[s].st = "idle" /\ nb < MaxBegins /\ nb' = nb + 1
  /\ \A t \in Slots : fl[t].st = "asked" => fl[t].c # c        \* (one query per certificate in flight: what the replay can tell apart)
  /\ IF cache[c] # "none"
     THEN /\ fl' = fl /\ cache' = cache
          /\ out' = [kind |-> "begin", s |-> s, v |-> v, c |-> c, served |-> "cache", verdict |-> Verdict(cache[c]), asked |-> FALSE]
     ELSE /\ fl' = [fl EXCEPT ![s] = [st |-> "asked", v |-> v, c |-> c, rider |-> (Merge /\ \E t \in Slots : fl[t].st = "asked")]]
          /\ cache' = cache
          /\ out' = [kind |-> "begin", s |-> s, v |-> v, c |-> c, served |-> "none", verdict |-> "pending", asked |-> TRUE]
  /\ UNCHANGED cfg
  /\ Emit(<<"begin", s, v, c>>)

\* the reply to the query in slot s arrives and is judged
Answer(s) ==
  /\ fl[s].st = "asked"
  /\ LET v == fl[s].v
         c == fl[s].c
         \* deviation Merge: the rider is answered with the result of the other query in flight (if that one is still there)
         lead == IF fl[s].rider /\ \E t \in Slots \ {s} : fl[t].st = "asked" THEN (CHOOSE t \in Slots \ {s} : fl[t].st = "asked") ELSE s
         src == fl[lead].c
     IN /\ out' = [kind |-> "answer", s |-> s, v |-> v, c |-> c, served |-> IF Counts(cfg.cls[src]) THEN "fresh" ELSE "none",
                   verdict |-> IF src = c THEN Alone(v, c) ELSE (IF Counts(cfg.cls[src]) THEN Verdict(StatusOf(cfg.cls[src])) ELSE Alone(v, c)),
                   from |-> src, asked |-> FALSE]
        /\ cache' = IF cfg.cacheOn /\ src = c /\ Counts(cfg.cls[c]) THEN [cache EXCEPT ![c] = StatusOf(cfg.cls[c])] ELSE cache
        /\ fl' = [fl EXCEPT ![s] = Idle]
  /\ UNCHANGED <<cfg, nb>>
  /\ Emit(<<"answer", s>>)

Next == (\E s \in Slots, v \in V, c \in Certs : Begin(s, v, c)) \/ (\E s \in Slots : Answer(s))
Spec == Init /\ [][Next]_vars
View == <<cfg, fl, cache, nb>>

(* =============================== properties ============================= *)
IsAns == out'.kind = "answer"
\* C05 / C13: the verdict of a query is the one it would have produced alone: only the reply about ITS certificate by ITS issuer counts
OwnAnswerOnly == [][IsAns => out'.from = out'.c /\ out'.verdict = Alone(out'.v, out'.c)]_vars
\* C02: an authentic "revoked" rejects, also while other queries are in flight
RevokedRejects == [][IsAns /\ cfg.cls[out'.c] = "revoked" => out'.verdict = "revoked"]_vars
\* C02: strict instance, no authentic answer: rejected, whatever another query learnt meanwhile
StrictNeedsAnswer == [][IsAns /\ cfg.strict[out'.v] /\ ~Counts(cfg.cls[out'.c]) => out'.verdict = "error"]_vars
\* C14: the cache holds for a certificate only what its own responder said
KeyRight == \A c \in Certs : cache[c] # "none" => (Counts(cfg.cls[c]) /\ cache[c] = StatusOf(cfg.cls[c]))
=============================================================================
