SPECIFICATION Spec
CONSTANTS
  Dev <- NoDev
  Export = FALSE
  AlgSet <- AlgAll
INVARIANTS OnlyEntitled Complete
CHECK_DEADLOCK FALSE
