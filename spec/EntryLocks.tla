---- MODULE EntryLocks ----
(* Lock-level model of one repository entry (crl/crlrepository): AddCRL tail (entry write lock, optional
   tryUpdateSignatureCertFromChain), checkCrl (read lock), set/resetLastSignatureVerifyFailed (write lock).
   Deadlock is an invariant over the wait-for relation: TLC's built-in deadlock check is useless here because
   the environment can always move.  Relock = TRUE models the code before the C13/D10 repair (the callee
   re-acquires the non-reentrant lock its caller holds).  Serves C13. *)
EXTENDS Naturals, FiniteSets, TLC
CONSTANTS Relock      \* TRUE: tryUpdateSignatureCertFromChain re-acquires the entry lock (code as it is)
Procs == {"h1", "h2", "ref"}
VARIABLES pc, w, r, sigFailed     \* w: writer holding entryLock or "none"; r: set of read holders
vars == <<pc, w, r, sigFailed>>
Init == pc = [p \in Procs |-> "idle"] /\ w = "none" /\ r = {} /\ sigFailed = FALSE
CanW(p) == w = "none" /\ r = {}
CanR(p) == w = "none"
\* which lock step a process is waiting at, if any
WantsW(p) == pc[p] \in {"add.lock", "try.lock", "ref.lock"}
WantsR(p) == pc[p] \in {"look.rlock"}
Blocked(p) == (WantsW(p) /\ ~CanW(p)) \/ (WantsR(p) /\ ~CanR(p))
Blockers(p) == IF WantsW(p) THEN (IF w = "none" THEN {} ELSE {w}) \cup r ELSE IF WantsR(p) THEN (IF w = "none" THEN {} ELSE {w}) ELSE {}
Goto(p, l) == pc' = [pc EXCEPT ![p] = l]
\* handshake: AddCRL tail then IsRevoked lookup
HStart(p)   == p \in {"h1","h2"} /\ pc[p] = "idle" /\ Goto(p, "add.lock") /\ UNCHANGED <<w, r, sigFailed>>
HAddLock(p) == pc[p] = "add.lock" /\ CanW(p) /\ w' = p /\ Goto(p, "add.locked") /\ UNCHANGED <<r, sigFailed>>
HAddChk(p)  == pc[p] = "add.locked" /\ (IF sigFailed THEN Goto(p, IF Relock THEN "try.lock" ELSE "try.body") ELSE Goto(p, "add.unlock")) /\ UNCHANGED <<w, r, sigFailed>>
HTryLock(p) == pc[p] = "try.lock" /\ CanW(p) /\ w' = p /\ Goto(p, "try.body") /\ UNCHANGED <<r, sigFailed>>
HTryBody(p) == pc[p] = "try.body" /\ sigFailed' \in {sigFailed, FALSE} /\ Goto(p, "add.unlock") /\ UNCHANGED <<w, r>>
HAddUnl(p)  == pc[p] = "add.unlock" /\ w' = "none" /\ Goto(p, "look.rlock") /\ UNCHANGED <<r, sigFailed>>
HRLock(p)   == pc[p] = "look.rlock" /\ CanR(p) /\ r' = r \cup {p} /\ Goto(p, "look.body") /\ UNCHANGED <<w, sigFailed>>
HRUnl(p)    == pc[p] = "look.body" /\ r' = r \ {p} /\ Goto(p, "idle") /\ UNCHANGED <<w, sigFailed>>
\* refresher: a refresh whose signature check failed records the fact under the write lock
RStart == pc["ref"] = "idle" /\ Goto("ref", "ref.lock") /\ UNCHANGED <<w, r, sigFailed>>
RLock  == pc["ref"] = "ref.lock" /\ CanW("ref") /\ w' = "ref" /\ Goto("ref", "ref.body") /\ UNCHANGED <<r, sigFailed>>
RBody  == pc["ref"] = "ref.body" /\ sigFailed' \in BOOLEAN /\ w' = "none" /\ Goto("ref", "idle") /\ UNCHANGED r
Next == RStart \/ RLock \/ RBody \/ \E p \in {"h1","h2"} : HStart(p) \/ HAddLock(p) \/ HAddChk(p) \/ HTryLock(p) \/ HTryBody(p) \/ HAddUnl(p) \/ HRLock(p) \/ HRUnl(p)
Spec == Init /\ [][Next]_vars
\* a deadlock is a non-empty set of blocked processes whose blockers all lie inside the set
NoDeadlock == ~ \E S \in (SUBSET Procs) \ {{}} : \A p \in S : Blocked(p) /\ Blockers(p) # {} /\ Blockers(p) \subseteq S
\* lockset discipline: sigFailed is only written while holding the write lock
Lockset == [][sigFailed' # sigFailed => \E p \in Procs : w = p]_vars
====
