---- MODULE EntryLocks ----
(* Lock-level model of one repository entry (crl/crlrepository): the tail of AddCRL (flag read under the read lock,
   then tryUpdateSignatureCertFromChain under the write lock with a re-check of the flag), checkCrl (read lock),
   set/resetLastSignatureVerifyFailed (write lock, by a refresh).
   Deadlock is an invariant over the wait-for relation: TLC's built-in deadlock check is useless here because
   the environment can always move.
   Relock = TRUE models the code before the C13/D10 repair (the callee re-acquires the non-reentrant lock its
   caller still holds).  Recheck = FALSE models a callee that trusts the caller's earlier read of the flag: a
   refresh may have reset the state in between, and the pending signature it dereferences is gone.  Serves C13. *)
EXTENDS Naturals, FiniteSets, TLC
CONSTANTS Relock, Recheck
Procs == {"h1", "h2", "ref"}
VARIABLES pc, w, r, sigFailed, pending, seen, crashed
\* w: writer holding entryLock or "none"; r: set of read holders; sigFailed: LastUpdateSignatureVerifyFailed;
\* pending: LastUpdateSignature # nil; seen[p]: what handshake p read; crashed: a nil dereference happened
vars == <<pc, w, r, sigFailed, pending, seen, crashed>>
Init == /\ pc = [p \in Procs |-> "idle"] /\ w = "none" /\ r = {} /\ sigFailed = FALSE /\ pending = FALSE
        /\ seen = [p \in Procs |-> FALSE] /\ crashed = FALSE
CanW(p) == w = "none" /\ r = {}
CanR(p) == w = "none"
WantsW(p) == pc[p] \in {"try.lock", "ref.lock"}
WantsR(p) == pc[p] \in {"add.rlock", "look.rlock"}
Blocked(p) == (WantsW(p) /\ ~CanW(p)) \/ (WantsR(p) /\ ~CanR(p))
Blockers(p) == IF WantsW(p) THEN (IF w = "none" THEN {} ELSE {w}) \cup r ELSE IF WantsR(p) THEN (IF w = "none" THEN {} ELSE {w}) ELSE {}
Goto(p, l) == pc' = [pc EXCEPT ![p] = l]
Same(vs) == UNCHANGED vs
\* ---- handshake: AddCRL tail, then the lookup of IsRevoked ----
HStart(p)   == p \in {"h1", "h2"} /\ pc[p] = "idle" /\ Goto(p, "add.rlock") /\ Same(<<w, r, sigFailed, pending, seen, crashed>>)
HAddRLock(p) == pc[p] = "add.rlock" /\ CanR(p) /\ r' = r \cup {p} /\ Goto(p, "add.read") /\ Same(<<w, sigFailed, pending, seen, crashed>>)
HAddRead(p) == pc[p] = "add.read" /\ seen' = [seen EXCEPT ![p] = sigFailed]
               /\ (IF Relock THEN Goto(p, IF sigFailed THEN "try.lock" ELSE "add.runlock") /\ r' = r      \* old code: keeps the lock while calling the callee
                   ELSE Goto(p, "add.runlock") /\ r' = r)
               /\ Same(<<w, sigFailed, pending, crashed>>)
HAddRUnl(p) == pc[p] = "add.runlock" /\ r' = r \ {p} /\ Goto(p, IF seen[p] /\ ~Relock THEN "try.lock" ELSE "look.rlock") /\ Same(<<w, sigFailed, pending, seen, crashed>>)
HTryLock(p) == pc[p] = "try.lock" /\ CanW(p) /\ w' = p /\ Goto(p, "try.check") /\ Same(<<r, sigFailed, pending, seen, crashed>>)
\* the callee: check again whether somebody else already repaired / reset the state, then use the pending signature
HTryCheck(p) == /\ pc[p] = "try.check"
                /\ IF Recheck /\ ~sigFailed THEN Same(<<sigFailed, pending, crashed>>)
                   ELSE /\ crashed' = (crashed \/ ~pending)                 \* verifyCRLSignature(LastUpdateSignature): nil if reset
                        /\ sigFailed' \in {sigFailed, FALSE} /\ Same(pending)
                /\ Goto(p, "try.unlock") /\ Same(<<w, r, seen>>)
HTryUnl(p)  == pc[p] = "try.unlock" /\ w' = "none" /\ Goto(p, "look.rlock") /\ Same(<<r, sigFailed, pending, seen, crashed>>)
HRLock(p)   == pc[p] = "look.rlock" /\ CanR(p) /\ r' = r \cup {p} /\ Goto(p, "look.body") /\ Same(<<w, sigFailed, pending, seen, crashed>>)
HRUnl(p)    == pc[p] = "look.body" /\ r' = r \ {p} /\ Goto(p, "idle") /\ Same(<<w, sigFailed, pending, seen, crashed>>)
\* ---- refresher: records a failed verification (with the pending result) or resets both, under the write lock ----
RStart == pc["ref"] = "idle" /\ Goto("ref", "ref.lock") /\ Same(<<w, r, sigFailed, pending, seen, crashed>>)
RLock  == pc["ref"] = "ref.lock" /\ CanW("ref") /\ w' = "ref" /\ Goto("ref", "ref.body") /\ Same(<<r, sigFailed, pending, seen, crashed>>)
RBody  == /\ pc["ref"] = "ref.body"
          /\ \/ (sigFailed' = TRUE /\ pending' = TRUE)
             \/ (sigFailed' = FALSE /\ pending' = FALSE)
          /\ w' = "none" /\ Goto("ref", "idle") /\ Same(<<r, seen, crashed>>)
Next == RStart \/ RLock \/ RBody \/ \E p \in {"h1", "h2"} : HStart(p) \/ HAddRLock(p) \/ HAddRead(p) \/ HAddRUnl(p) \/ HTryLock(p) \/ HTryCheck(p) \/ HTryUnl(p) \/ HRLock(p) \/ HRUnl(p)
Spec == Init /\ [][Next]_vars
\* a deadlock is a non-empty set of blocked processes whose blockers all lie inside the set (covers self-deadlock)
NoDeadlock == ~ \E S \in (SUBSET Procs) \ {{}} : \A p \in S : Blocked(p) /\ Blockers(p) # {} /\ Blockers(p) \subseteq S
\* lockset discipline: the flag and the pending signature are only written while holding the write lock
Lockset == [][(sigFailed' # sigFailed \/ pending' # pending) => \E p \in Procs : w = p]_vars
\* never crash: the pending signature is only dereferenced while it exists
NoCrash == ~crashed
\* the data invariant the callee relies on
FlagHasPending == sigFailed => pending
====
