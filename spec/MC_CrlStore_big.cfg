SPECIFICATION Spec
CONSTANTS
  Keys = {"k1", "k2", "k3"}
  Vals = {"v1", "v2"}
  Disk = TRUE
  Faulty = TRUE
  Export = FALSE
INVARIANTS TypeOK LookupExact FailClosed
PROPERTIES ReplaceWhole Frame
CHECK_DEADLOCK FALSE
