------------------------------ MODULE LockOrder ------------------------------
(***************************************************************************)
(* The two levels of locks of the CRL repository and the order in which    *)
(* every code path takes them (crl/crlrepository/crlrepository.go):        *)
(*   repo  = Repository.crlRepositoryLock (RW): the map of entries         *)
(*   entry = Entry.entryLock (RW): one entry                               *)
(* EntryLocks.tla is the protocol on ONE entry lock; this module is about  *)
(* shutdown (Close: repo write lock, then every entry's write lock)        *)
(* overlapping first-use loads, lookups and refreshes.  Every path is a    *)
(* straight-line lock program; Go's RWMutex semantics are modelled incl.   *)
(* writer preference (a reader waits while a writer is waiting).           *)
(* Serves C13 (never deadlock: every call returns).                        *)
(***************************************************************************)
EXTENDS Naturals, Sequences, FiniteSets, TLC

CONSTANTS Registered    \* deviation: a first-use load asks the repository (read lock) whether its entry is still registered
                        \* while it holds the entry write lock

Locks == {"repo", "entry"}
A(l, m) == <<"acq", l, m>>
R(l)    == <<"rel", l, "-">>
\* lock programs of the code paths
Prog == [
  \* AddCRL + loadActively: add the entry under the repo write lock; then the whole first load under the entry write lock
  load   |-> <<A("repo", "W"), R("repo"), A("entry", "W")>> \o (IF Registered THEN <<A("repo", "R"), R("repo")>> ELSE <<>>) \o <<R("entry")>>,
  \* IsRevoked: list the identifiers, look the entry up, read it under its read lock
  look   |-> <<A("repo", "R"), R("repo"), A("repo", "R"), R("repo"), A("entry", "R"), R("entry")>>,
  \* updateCrlEntry: look the entry up, isEntryLoaded (write lock), update information (read lock), swap (write lock)
  refr   |-> <<A("repo", "R"), R("repo"), A("entry", "W"), R("entry"), A("entry", "R"), R("entry"), A("entry", "W"), R("entry")>>,
  \* Close: the repo write lock is held while every entry is closed under its write lock
  close  |-> <<A("repo", "W"), A("entry", "W"), R("entry"), R("repo")>> ]
Procs == DOMAIN Prog

VARIABLES pc,      \* [Procs -> 1..Len+1]
          held     \* [Locks -> [w: Procs \cup {"none"}, r: SUBSET Procs]]
vars == <<pc, held>>

Init == pc = [p \in Procs |-> 1] /\ held = [l \in Locks |-> [w |-> "none", r |-> {}]]

Done(p) == pc[p] > Len(Prog[p])
Op(p)   == Prog[p][pc[p]]
WantsW(p, l) == ~Done(p) /\ Op(p) = A(l, "W")
CanW(p, l)   == held[l].w = "none" /\ held[l].r = {}
WaitingW(l)  == {q \in Procs : WantsW(q, l) /\ ~CanW(q, l)}
\* Go's RWMutex: a new reader waits while a writer holds the lock or is waiting for it
CanR(p, l)   == held[l].w = "none" /\ WaitingW(l) \ {p} = {}
Enabled(p) == /\ ~Done(p)
              /\ LET o == Op(p) IN
                 IF o[1] = "rel" THEN TRUE ELSE IF o[3] = "W" THEN CanW(p, o[2]) ELSE CanR(p, o[2])

Step(p) == /\ Enabled(p)
           /\ LET o == Op(p) IN
              held' = IF o[1] = "rel" THEN [held EXCEPT ![o[2]] = [w |-> IF @.w = p THEN "none" ELSE @.w, r |-> @.r \ {p}]]
                      ELSE IF o[3] = "W" THEN [held EXCEPT ![o[2]].w = p]
                      ELSE [held EXCEPT ![o[2]].r = @ \cup {p}]
           /\ pc' = [pc EXCEPT ![p] = @ + 1]
Next == \E p \in Procs : Step(p)
Spec == Init /\ [][Next]_vars

\* every call returns: whenever some path is not finished, some path can take a step
NoDeadlock == (\E p \in Procs : ~Done(p)) => (\E p \in Procs : Enabled(p))
\* the order itself: nobody asks for the repository lock while holding an entry lock
Ordered == \A p \in Procs : (~Done(p) /\ Op(p)[1] = "acq" /\ Op(p)[2] = "repo") => (held["entry"].w # p /\ p \notin held["entry"].r)
=============================================================================
