SPECIFICATION Spec
CONSTANTS
  MaxVer = 3
  NoRecheck = TRUE
  TryRead = FALSE
  WithLookup = TRUE
  Export = FALSE
INVARIANTS TypeOK LoadedHasList LookupSound Provenance Effective
PROPERTIES NoRollback
CHECK_DEADLOCK FALSE
