SPECIFICATION Spec
CONSTANTS
  Dev = {}
  Cfg = [mode |-> "crl_only", sig |-> "verify", strict |-> TRUE, fetch |-> "actively", disk |-> TRUE, trustA |-> TRUE, conf |-> "url", ocsp |-> "noaia", aia |-> FALSE]
  MaxSteps = 0
  Export = FALSE
INVARIANTS TypeOK Refines Complete VerifyNeverInForce ProvisionLoads
PROPERTIES Sound Precise StrictGate LenientNeverDenies LenientRefreshWorks ModePromise
CHECK_DEADLOCK FALSE
