SPECIFICATION Spec
CONSTANTS
  V = {"v1", "v2"}
  I = 4
  B = 2
  Global = FALSE
  D = 1
  DropWhenBusy = TRUE
  LeakOnSibling = FALSE
  Export = FALSE
INVARIANTS TypeOK BoundedRefresh
PROPERTIES Live
CHECK_DEADLOCK FALSE
