-------------------------------- MODULE Config --------------------------------
(***************************************************************************)
(* The option space of the validator in both syntaxes and its meaning.     *)
(* Anchors: caddyfile.go (parseConfigFromCaddyfile and helpers),           *)
(* configparser.go (ParseConfig, parseMode, parseCRLConfig, ...),          *)
(* revocation.go (Provision, validateConfig, UnmarshalCaddyfile),          *)
(* config/config.go (JSON field tags).  Serves C19.                        *)
(*                                                                         *)
(* A configuration is a record of option choices, each "absent", a valid   *)
(* value or "invalid", plus the place of one unknown (misspelt) key.       *)
(* Effective(c) is the requirement: the documented meaning of c,           *)
(* independent of syntax.  One behaviour = one configuration: Init picks   *)
(* it, Load computes the expectation the harness compares both real        *)
(* parsers with.                                                           *)
(***************************************************************************)
EXTENDS Naturals, FiniteSets, TLC, Json

CONSTANTS CfgSpace, Export

Modes    == {"prefer_ocsp", "prefer_crl", "ocsp_only", "crl_only", "disabled"}
Storages == {"memory", "disk"}
Sigs     == {"none", "verify_log", "verify"}
Fetches  == {"fetch_actively", "fetch_background"}
Bools    == {"true", "false"}
Opt(S)   == S \cup {"absent", "invalid"}
Lists    == {"none", "one"}
Places   == {"none", "top", "crl", "cdp", "ocsp"}

\* the full option space (CfgSpace is a subset chosen by the harness: covering arrays, single faults, or everything)
AllCfgs == [mode : Opt(Modes), crlcfg : BOOLEAN, workdir : BOOLEAN, storage : Opt(Storages), interval : {"absent", "45m", "invalid"},
            sig : Opt(Sigs), urls : Lists, files : Lists, trusted : Lists, cdpcfg : BOOLEAN, fetch : Opt(Fetches), cdpstrict : Opt(Bools),
            ocspcfg : BOOLEAN, cache : {"absent", "10m", "invalid"}, aiastrict : Opt(Bools), responder : Lists, unknown : Places]

WellFormed(c) == /\ (~c.crlcfg => (~c.workdir /\ c.storage = "absent" /\ c.interval = "absent" /\ c.sig = "absent" /\ c.urls = "none" /\ c.files = "none"
                                     /\ c.trusted = "none" /\ ~c.cdpcfg /\ c.unknown \notin {"crl", "cdp"}))
                 /\ (~c.cdpcfg => (c.fetch = "absent" /\ c.cdpstrict = "absent" /\ c.unknown # "cdp"))
                 /\ (~c.ocspcfg => (c.cache = "absent" /\ c.aiastrict = "absent" /\ c.responder = "none" /\ c.unknown # "ocsp"))

(* ---- the documented meaning ------------------------------------------------------------------ *)
Def(v, d) == IF v = "absent" THEN d ELSE v
ModeOf(c) == Def(c.mode, "prefer_ocsp")
CrlEnabled(c) == ModeOf(c) \in {"prefer_ocsp", "prefer_crl", "crl_only"}
HasInvalid(c) == \E f \in {"mode", "storage", "interval", "sig", "fetch", "cdpstrict", "cache", "aiastrict"} : c[f] = "invalid"
\* CRL checking needs a working directory; modes without CRL checking do not
NeedsWorkDir(c) == CrlEnabled(c) /\ ~(c.crlcfg /\ c.workdir)
Rejected(c) == HasInvalid(c) \/ c.unknown # "none" \/ NeedsWorkDir(c)

Effective(c) ==
  IF Rejected(c) THEN [reject |-> TRUE]
  ELSE [reject |-> FALSE,
        mode |-> ModeOf(c),
        crl |-> IF ~CrlEnabled(c) THEN [on |-> FALSE]
                ELSE [on |-> TRUE, storage |-> Def(c.storage, "disk"), interval |-> Def(c.interval, "30m"), sig |-> Def(c.sig, "verify"),
                      urls |-> c.urls, files |-> c.files, trusted |-> c.trusted,
                      fetch |-> Def(c.fetch, "fetch_actively"), cdpstrict |-> Def(c.cdpstrict, "false")],
        ocsp |-> [cache |-> Def(c.cache, "0"), aiastrict |-> Def(c.aiastrict, "false"), responder |-> c.responder]]

\* every combination of valid values provisions, given that configured CRLs are acceptable under the chosen signature mode
\* (the concretiser signs configured CRLs with a CA that is only at hand as a configured trusted signer)
ConfiguredAcceptable(c) == (c.urls = "one" \/ c.files = "one") /\ Def(c.sig, "verify") = "verify" => c.trusted = "one"
ProvisionOK(c) == ~Rejected(c) /\ (CrlEnabled(c) => ConfiguredAcceptable(c))

VARIABLES cfg, done
vars == <<cfg, done>>
Init == cfg \in CfgSpace /\ done = FALSE
Load == /\ ~done /\ done' = TRUE /\ UNCHANGED cfg
        /\ (Export => PrintT(<<"CFG", ToJson([cfg |-> cfg, effective |-> Effective(cfg), provision |-> ProvisionOK(cfg)])>>))
Spec == Init /\ [][Load]_vars

(* ---- properties --------------------------------------------------------------------------------- *)
InSpace == cfg \in AllCfgs /\ WellFormed(cfg)
\* documented defaults: prefer_ocsp, disk, 30 minutes, verify, active fetch, non-strict
Defaults == (~Rejected(cfg) /\ CrlEnabled(cfg)) =>
              /\ (cfg.mode = "absent" => Effective(cfg).mode = "prefer_ocsp")
              /\ (cfg.storage = "absent" => Effective(cfg).crl.storage = "disk")
              /\ (cfg.interval = "absent" => Effective(cfg).crl.interval = "30m")
              /\ (cfg.sig = "absent" => Effective(cfg).crl.sig = "verify")
              /\ (cfg.fetch = "absent" => Effective(cfg).crl.fetch = "fetch_actively")
              /\ (cfg.cdpstrict = "absent" => Effective(cfg).crl.cdpstrict = "false")
              /\ (cfg.aiastrict = "absent" => Effective(cfg).ocsp.aiastrict = "false")
RejectUnknown == (cfg.unknown # "none" \/ HasInvalid(cfg)) => Effective(cfg).reject
\* the effective configuration is a function of the documented options only: nothing else enters Effective
NoIgnoring == \A f \in {"storage", "sig", "fetch", "cdpstrict"} :
                (~Rejected(cfg) /\ CrlEnabled(cfg) /\ cfg[f] \notin {"absent", "invalid"}) => Effective(cfg).crl[f] = cfg[f]
ValidProvisions == (~Rejected(cfg) /\ (CrlEnabled(cfg) => ConfiguredAcceptable(cfg))) => ProvisionOK(cfg)
=============================================================================
