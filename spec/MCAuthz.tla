---- MODULE MCAuthz ----
EXTENDS Authz
AlgAll == Supported \cup Unsupported
NoDev == {}
DevD18 == {"D18"}
====
