-------------------------------- MODULE Ocsp --------------------------------
(***************************************************************************)
(* OCSP checking: responder walk, authenticity, strictness, cache.         *)
(* Anchors: ocsp/ocsprevocationchecker.go (IsRevoked, parseOcspResponse,   *)
(* calculateEvictionTime, tryGetResponseFromCache, filterHTTPOCSPServers), *)
(* the process-global cache2go table "ocsp_client".                        *)
(* Serves C02 (soundness + AIA strictness), C05 (authenticity), C14        *)
(* (cache soundness).                                                      *)
(*                                                                         *)
(* A certificate names a sequence of responders; each responder behaves    *)
(* according to a class.  Whether an answer COUNTS is the requirement      *)
(* operator Counts (written from C05), independent of how the code parses. *)
(* Time is discrete; one unit is mapped to a real duration by the harness  *)
(* only where real time must pass (default-duration expiry).               *)
(***************************************************************************)
EXTENDS Naturals, Sequences, FiniteSets, TLC, Json

CONSTANTS
  CfgSpace,    \* set of configurations [strict: [V -> BOOLEAN], dur: [V -> Nat], nu: {"absent","past","future"}, lists, alt: [Certs -> Seq(Classes)]]
               \* (alt: what the responders of a certificate turn into when the environment switches them)
  MaxTime,     \* horizon of the discrete clock
  MaxQueries,  \* bound on the number of queries in a behaviour
  Expiry,      \* "absolute" (intended) | "sliding" (deviation D15: every read renews the lifetime)
  KeyBy,       \* "issuer" (intended: issuer + serial) | "subject" (deviation D15: subject + serial)
  Export

V     == {"v1", "v2"}                    \* validator instances sharing the process-global table
Certs == {"cA", "cB"}                    \* same subject and serial, different issuers
IssuerOf(c)  == IF c = "cA" THEN "I1" ELSE "I2"
Skew == 3                                \* the fixed clock-skew allowance, in time units
NuDelta == 2                             \* a "future" nextUpdate lies this many units after the answer

(* ---- responder behaviour classes ---------------------------------------- *)
Authentic == {"good", "revoked", "unknown", "delegGood", "delegRevoked"}
\* (...AsIssuer: signed by that key with its certificate embedded, the signed responder id naming the issuer)
NoAnswer  == {"stranger", "strangerEmbedded", "lookalikeEmbedded", "ownCert", "ownCertBare", "ownCertAsIssuer", "delegNoEku", "delegNoEkuBare", "delegNoEkuAsIssuer", "otherDelegBare", "otherDelegEmbedded", "sibling", "otherSerial",
              "errStatus", "http500", "garbage", "refused", "wrongContent", "httpsUntrusted"}
NonHttp   == {"ldap"}
Classes   == Authentic \cup NoAnswer \cup NonHttp
\* C05: an answer counts iff it is a successful response, signed by the issuer or by a responder the issuer
\* authorised for OCSP signing, about exactly this serial
Counts(cl)   == cl \in Authentic
StatusOf(cl) == IF cl \in {"revoked", "delegRevoked"} THEN "revoked" ELSE IF cl = "unknown" THEN "unknown" ELSE "good"
IsHttp(cl)   == cl \notin NonHttp
FlipOf(cl)   == IF cl = "good" THEN "revoked" ELSE IF cl = "delegGood" THEN "delegRevoked" ELSE cl

VARIABLES cfg, now, lists, cache, out, nq
vars == <<cfg, now, lists, cache, out, nq>>

Key(c) == IF KeyBy = "issuer" THEN <<IssuerOf(c), "subj", 1>> ELSE <<"subj", 1>>
Keys   == {Key(c) : c \in Certs}
NoItem == [status |-> "none", addedAt |-> 0, life |-> 0, last |-> 0, for |-> "none"]

Valid(it) == it.status # "none" /\ (IF Expiry = "absolute" THEN now < it.addedAt + it.life ELSE now < it.last + it.life)

\* index of the first responder whose answer counts (0 if none); non-HTTP entries are skipped, not contacted
Decider(l) == IF \E i \in 1..Len(l) : Counts(l[i]) THEN CHOOSE i \in 1..Len(l) : Counts(l[i]) /\ \A j \in 1..(i-1) : ~Counts(l[j]) ELSE 0
HasHttp(l) == \E i \in 1..Len(l) : IsHttp(l[i])
Contacted(l) == LET d == Decider(l) IN {i \in 1..Len(l) : IsHttp(l[i]) /\ (d = 0 \/ i <= d)}
\* lifetime of a fresh answer: nextUpdate (if in the future) + skew, else the configured default
Life(v) == IF cfg.nu = "future" THEN NuDelta + Skew ELSE cfg.dur[v]

Emit(op, o) == Export => PrintT(<<"EDGE", ToJson([from |-> [cfg |-> cfg, now |-> now, lists |-> lists, cache |-> cache],
                                                    op |-> op,
                                                    to |-> [cfg |-> cfg, now |-> now', lists |-> lists', cache |-> cache'],
                                                    expect |-> o])>>)

Init == /\ cfg \in CfgSpace /\ now = 0 /\ lists = cfg.lists
        /\ cache = [k \in Keys |-> NoItem] /\ out = [kind |-> "none"] /\ nq = 0

Query(v, c) ==
  /\ nq < MaxQueries /\ nq' = nq + 1
  /\ LET it == cache[Key(c)]
         l  == lists[c]
         d  == Decider(l)
     IN IF Valid(it)
        THEN /\ cache' = [cache EXCEPT ![Key(c)].last = now]
             /\ out' = [kind |-> "query", v |-> v, c |-> c, served |-> "cache", status |-> it.status,
                        verdict |-> IF it.status = "revoked" THEN "revoked" ELSE "accept",
                        contacted |-> {}, cachedLife |-> 0, itemFor |-> it.for, age |-> now - it.addedAt, life |-> it.life]
        ELSE IF d # 0
        THEN LET st == StatusOf(l[d]) IN
             /\ cache' = IF Life(v) > 0 THEN [cache EXCEPT ![Key(c)] = [status |-> st, addedAt |-> now, life |-> Life(v), last |-> now, for |-> c]]
                         ELSE cache
             /\ out' = [kind |-> "query", v |-> v, c |-> c, served |-> "fresh", status |-> st,
                        verdict |-> IF st = "revoked" THEN "revoked" ELSE "accept",
                        contacted |-> Contacted(l), cachedLife |-> Life(v), itemFor |-> c, age |-> 0, life |-> Life(v)]
        ELSE /\ cache' = cache
             /\ out' = [kind |-> "query", v |-> v, c |-> c, served |-> "none", status |-> "none",
                        verdict |-> IF cfg.strict[v] /\ HasHttp(l) THEN "error" ELSE "accept",
                        contacted |-> Contacted(l), cachedLife |-> 0, itemFor |-> "none", age |-> 0, life |-> 0]
  /\ UNCHANGED <<cfg, now, lists>>
  /\ Emit(<<"query", v, c>>, out')

Tick == /\ now < MaxTime /\ now' = now + 1
        /\ out' = [kind |-> "tick"] /\ UNCHANGED <<cfg, lists, cache, nq>>
        /\ Emit(<<"tick">>, out')

\* the responder's view of a certificate flips good -> revoked
Flip(c) == /\ \E i \in 1..Len(lists[c]) : FlipOf(lists[c][i]) # lists[c][i]
           /\ lists' = [lists EXCEPT ![c] = [i \in 1..Len(lists[c]) |-> FlipOf(lists[c][i])]]
           /\ out' = [kind |-> "flip"] /\ UNCHANGED <<cfg, now, cache, nq>>
           /\ Emit(<<"flip", c>>, out')

\* the responders of a certificate change their behaviour altogether (e.g. the same key now answers without embedding its certificate)
Switch(c) == /\ lists[c] # cfg.alt[c]
             /\ lists' = [lists EXCEPT ![c] = cfg.alt[c]]
             /\ out' = [kind |-> "switch"] /\ UNCHANGED <<cfg, now, cache, nq>>
             /\ Emit(<<"switch", c>>, out')

Next == Tick \/ (\E v \in V, c \in Certs : Query(v, c)) \/ (\E c \in Certs : Flip(c) \/ Switch(c))
Spec == Init /\ [][Next]_vars
View == <<cfg, now, lists, cache, nq>>

(* =============================== properties ============================= *)
IsQ == out'.kind = "query"
\* C02: an authentic "revoked" (fresh or from a still valid cache entry) rejects
RevokedRejects == [][IsQ /\ out'.status = "revoked" => out'.verdict = "revoked"]_vars
\* C02: strict + at least one HTTP responder + no authentic answer + no valid cache entry => rejected
StrictNeedsAnswer == [][IsQ /\ cfg.strict[out'.v] /\ HasHttp(lists[out'.c]) /\ out'.served = "none" => out'.verdict = "error"]_vars
\* C02: lenient never denies unless an authentic answer (or valid cache entry) said revoked
LenientNeverDenies == [][IsQ /\ ~cfg.strict[out'.v] /\ out'.verdict # "accept" => out'.status = "revoked"]_vars
\* C02: the walk stops at the first authentic answer and never contacts non-HTTP locations
WalkStops == [][IsQ => \A i \in out'.contacted : IsHttp(lists[out'.c][i]) /\ (Decider(lists[out'.c]) # 0 => i <= Decider(lists[out'.c]))]_vars
\* C05: only an answer that counts influences the verdict or is cached
OnlyCounted == [][IsQ /\ out'.served = "fresh" => Counts(lists[out'.c][Decider(lists[out'.c])])]_vars
\* C14: a cached status is served only for the certificate it was obtained for
KeyRight == [][IsQ /\ out'.served = "cache" => out'.itemFor = out'.c]_vars
\* C14: ... and only until its lifetime ends, however often it is read
Bounded == [][IsQ /\ out'.served = "cache" => out'.age < out'.life]_vars
\* C14: zero default duration and no usable nextUpdate: nothing is cached; failed queries are never cached
ZeroMeansNone == [][IsQ /\ cfg.nu # "future" /\ cfg.dur[out'.v] = 0 => cache' = cache \/ out'.served = "cache"]_vars
FailuresNotCached == [][IsQ /\ out'.served = "none" => cache' = cache]_vars
LifetimeRule == \A k \in Keys : cache[k].status # "none" =>
                   cache[k].life = (IF cfg.nu = "future" THEN NuDelta + Skew ELSE cache[k].life) /\ cache[k].life > 0
=============================================================================
