------------------------------ MODULE CrlStore ------------------------------
(***************************************************************************)
(* The abstract map that a CRL store is (crl/crlstore: MapStore and        *)
(* LevelDbStore).  This module IS the reference model of C18 and the       *)
(* lookup-fault model of C09.                                              *)
(*                                                                         *)
(* One store holds five kinds of records: meta (issuer/thisUpdate/         *)
(* nextUpdate), ext (CRL number), signer (certificate that verified the    *)
(* CRL), locs (where to fetch it again) and one optional entry per key     *)
(* (issuer name, serial).  Every public operation of the CRLStore          *)
(* interface is one action; `expect' is what every getter must answer      *)
(* afterwards.  The harness walks the exported labelled transition graph   *)
(* on both real backends (harness/checks/store.go).                        *)
(***************************************************************************)
EXTENDS Naturals, FiniteSets, Sequences, TLC, Json

CONSTANTS Keys,      \* abstract (issuer, serial) pairs
          Vals,      \* abstract payload variants ("v1", "v2"); the concretiser picks shapes per seed
          Disk,      \* TRUE: close+reopen is an operation (LevelDB); FALSE: memory
          Faulty,    \* TRUE: lookup-time fault actions of C09 are enabled
          Export     \* TRUE: print every edge for the harness

Absent == "absent"
Rec    == Vals \cup {Absent}

Fresh == [meta |-> Absent, ext |-> Absent, signer |-> Absent, locs |-> Absent,
          ents |-> [k \in Keys |-> Absent], open |-> TRUE, bad |-> {}]

\* Replacement contents are prepared stores (what updateCrlEntry stages), not built op by op:
\* empty, meta only, everything set to v2, one entry with v1.
Prepared ==
  LET AnyKey == CHOOSE k \in Keys : TRUE IN
  { Fresh,
    [Fresh EXCEPT !.meta = "v1"],
    [Fresh EXCEPT !.meta = "v2", !.ext = "v2", !.signer = "v2", !.locs = "v2", !.ents = [k \in Keys |-> "v2"]],
    [Fresh EXCEPT !.meta = "v1", !.locs = "v1", !.ents = [k \in Keys |-> IF k = AnyKey THEN "v1" ELSE Absent]] }

VARIABLE s
vars == <<s>>

TypeOK == /\ s.meta \in Rec /\ s.ext \in Rec /\ s.signer \in Rec /\ s.locs \in Rec
          /\ s.ents \in [Keys -> Rec] /\ s.open \in BOOLEAN /\ s.bad \subseteq Keys

Init == s = Fresh

(* ---- observations: the answer of every getter in state x ---------------- *)
Get(x, f)    == IF ~x.open THEN "error" ELSE x[f]            \* Absent is reported as a "not found" error by the code
Lookup(x, k) == IF ~x.open \/ k \in x.bad THEN "error"      \* C09: a fault is an error, never "not revoked"
                ELSE IF x.ents[k] = Absent THEN "notrevoked" ELSE x.ents[k]
Obs(x) == [meta |-> Get(x, "meta"), ext |-> Get(x, "ext"), signer |-> Get(x, "signer"), locs |-> Get(x, "locs"),
           look |-> [k \in Keys |-> Lookup(x, k)]]

Edge(op, y) == /\ s' = y
               /\ (Export => PrintT(<<"EDGE", ToJson([from |-> s, op |-> op, to |-> y, expect |-> Obs(y)])>>))

(* ---- operations ---------------------------------------------------------- *)
Start(v)     == s.open /\ Edge(<<"start", v>>,  [s EXCEPT !.meta = v])      \* StartUpdateCrl
ExtMeta(v)   == s.open /\ Edge(<<"ext", v>>,    [s EXCEPT !.ext = v])       \* UpdateExtendedMetaInfo
Signer(v)    == s.open /\ Edge(<<"signer", v>>, [s EXCEPT !.signer = v])    \* UpdateSignatureCertificate
Locs(v)      == s.open /\ Edge(<<"locs", v>>,   [s EXCEPT !.locs = v])      \* UpdateCRLLocations
Insert(k, v) == s.open /\ Edge(<<"insert", k, v>>, [s EXCEPT !.ents[k] = v, !.bad = @ \ {k}])   \* InsertRevokedCert
Replace(p)   == s.open /\ Edge(<<"replace", Obs(p)>>, p)                    \* Update(other store): whole-store replacement
Reopen       == Disk /\ s.open /\ s.bad = {} /\ Edge(<<"reopen">>, s)       \* Close + CreateStore(same identifier)

(* ---- C09 fault actions --------------------------------------------------- *)
CloseUnder   == Faulty /\ Disk /\ s.open /\ Edge(<<"closeunder">>, [s EXCEPT !.open = FALSE])       \* handle closed underneath (concurrent shutdown)
Corrupt(k)   == Faulty /\ s.open /\ s.ents[k] # Absent /\ k \notin s.bad
                /\ Edge(<<"corrupt", k>>, [s EXCEPT !.bad = @ \cup {k}])                            \* record value undecodable

\* the database files are found damaged when the store is opened again (a table file is missing, a block is unreadable): the store
\* does not open - or opens and knows which records it cannot vouch for; either way no lookup is answered "not revoked" from what is left
OpenDamaged  == Faulty /\ Disk /\ s.open /\ s.bad = {} /\ (\E k \in Keys : s.ents[k] # Absent)
                /\ Edge(<<"opendamaged">>, [s EXCEPT !.open = FALSE])

Next == \/ \E v \in Vals : Start(v) \/ ExtMeta(v) \/ Signer(v) \/ Locs(v)
        \/ \E k \in Keys, v \in Vals : Insert(k, v)
        \/ \E p \in Prepared : Replace(p)
        \/ Reopen
        \/ CloseUnder
        \/ OpenDamaged
        \/ \E k \in Keys : Corrupt(k)

Spec == Init /\ [][Next]_vars

(* ---- properties ---------------------------------------------------------- *)
\* C18: a lookup reports revoked exactly for the inserted keys, with the stored payload
LookupExact == \A k \in Keys : (s.open /\ k \notin s.bad) =>
                  /\ (Lookup(s, k) = "notrevoked") = (s.ents[k] = Absent)
                  /\ (s.ents[k] # Absent => Lookup(s, k) = s.ents[k])
\* C18: replacement is whole-store (no merge): after Replace(p) the state is p
ReplaceWhole == [][\A p \in Prepared : (s.open /\ s' = p /\ s # p) => Obs(s') = Obs(p)]_vars
\* C09: a fault at lookup time is never answered "not revoked"
FailClosed == \A k \in Keys : (~s.open \/ k \in s.bad) => Lookup(s, k) = "error"
\* metadata ops do not disturb entries and vice versa (frame condition)
Frame == [][(\E v \in Vals : s' = [s EXCEPT !.meta = v] \/ s' = [s EXCEPT !.ext = v] \/ s' = [s EXCEPT !.signer = v] \/ s' = [s EXCEPT !.locs = v])
            => s'.ents = s.ents]_vars
=============================================================================
