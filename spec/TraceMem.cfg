SPECIFICATION Spec
CONSTANTS
  C0 = 40000
  C1 = 0
  Block = 100000
INVARIANT MemBound
POSTCONDITION Accepted
CHECK_DEADLOCK FALSE
