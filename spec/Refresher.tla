------------------------------ MODULE Refresher ------------------------------
(***************************************************************************)
(* The periodic refresh of known CRLs (crl/crlrevocationchecker.go:        *)
(* initCRLUpdateTicker, updateCRLs, updateWasRecentlyFinished, the refresh *)
(* mutex and the refresh-finish timestamp) for several validator instances *)
(* in one process.  Serves C15.                                            *)
(*                                                                         *)
(* Time is kept finite by clocks and capped ages instead of absolute time: *)
(* a phase clock per ticker, the age of the finish timestamp capped at the *)
(* interval, the time since the last refresh capped at B*I+1, so liveness  *)
(* is checked on the complete graph without a state constraint.            *)
(* Global = TRUE models the code before the C15/D16 repair: one            *)
(* process-wide timestamp shared by all instances.                         *)
(***************************************************************************)
EXTENDS Naturals, FiniteSets, TLC, Json

CONSTANTS V,        \* validator instances
          I,        \* update_interval in time units
          B,        \* claimed bound: every known CRL is fetched again within B*I
          Global,   \* TRUE: one process-wide finish timestamp (deviation D16); FALSE: one per instance
          D,        \* a refresh pass lasts at most D time units (the refresh mutex is held meanwhile)
          DropWhenBusy, \* TRUE: a tick that finds the refresh mutex taken is dropped instead of waiting (deviation)
          LeakOnSibling, \* TRUE: cleaning up another instance whose provisioning failed leaves the refresh mutex taken (deviation)
          Export

Cap == B * I + 1
NoStamp == I + 1      \* "the timestamp is zero"

VARIABLES clk,        \* [V -> 0..I-1]  phase clock of each instance's ticker; the tick fires when clk[v] = 0
          due,        \* SUBSET V       instances whose tick at the current instant has not been processed yet
          age,        \* [V -> 0..I] or NoStamp: time since the finish timestamp consulted by v was written
          since,      \* [V -> 0..Cap]  time since instance v last re-fetched its CRLs
          fails,      \* [V -> 0..2]    consecutive failed refreshes of v (the outcome is the environment's choice)
          holder,     \* the instance whose pass is in progress (holds the process-wide refresh mutex), or "none"
          busy,       \* 0..D           time the current pass has lasted
          sib         \* 0..1           another validator instance has come and gone in this process (a reload that was rejected
                      \*                or replaced: provisioned - successfully or not - and cleaned up); once per behaviour
vars == <<clk, due, age, since, fails, holder, busy, sib>>

Key(v) == IF Global THEN CHOOSE w \in V : TRUE ELSE v
Min(a, b) == IF a < b THEN a ELSE b

Init == /\ clk \in [V -> 0..I-1]
        /\ due = {v \in V : clk[v] = 0}
        /\ age = [v \in V |-> NoStamp]
        /\ since = [v \in V |-> 0]
        /\ fails = [v \in V |-> 0]
        /\ holder = "none" /\ busy = 0 /\ sib = 0

\* time.Since(lastFinish) < interval/2
Recent(v) == age[Key(v)] # NoStamp /\ 2 * age[Key(v)] < I

Emit(op, o) == Export => PrintT(<<"EDGE", ToJson([from |-> [clk |-> clk, due |-> due, age |-> age, since |-> since, fails |-> fails, holder |-> holder, busy |-> busy, sib |-> sib], op |-> op,
                                                    to |-> [clk |-> clk', due |-> due', age |-> age', since |-> since', fails |-> fails', holder |-> holder', busy |-> busy', sib |-> sib'], expect |-> o])>>)

\* a ticker tick of instance v gets the refresh mutex: it is skipped iff a pass of v finished less than half an interval
\* ago, otherwise a pass over every known location starts. A tick that finds the mutex taken WAITS (it stays due).
TickBegin(v) ==
  /\ v \in due /\ holder = "none" /\ due' = due \ {v}
  /\ UNCHANGED <<clk, age, since, fails, busy, sib>>
  /\ IF Recent(v)
     THEN holder' = holder /\ Emit(<<"tickbegin", v>>, [decision |-> "skip"])
     ELSE holder' = v /\ Emit(<<"tickbegin", v>>, [decision |-> "run"])

\* deviation: the tick gives up when another pass is in progress
TickDropped(v) ==
  /\ DropWhenBusy /\ v \in due /\ holder # "none" /\ holder # v /\ due' = due \ {v}
  /\ UNCHANGED <<clk, age, since, fails, holder, busy, sib>>
  /\ Emit(<<"tickdropped", v>>, [decision |-> "dropped"])

\* the pass of v finishes: every known location was fetched again, whatever the outcome of the previous attempts
TickEnd(v, ok) ==
  /\ holder = v /\ holder' = "none" /\ busy' = 0
  /\ since' = [since EXCEPT ![v] = 0]
  /\ age' = [w \in V |-> IF Key(w) = Key(v) THEN 0 ELSE age[w]]
  /\ fails' = [fails EXCEPT ![v] = IF ok THEN 0 ELSE Min(@ + 1, 2)]
  /\ UNCHANGED <<clk, due, sib>>
  /\ Emit(<<"tickend", v, ok>>, [decision |-> "done"])

\* time passes when no tick is waiting to be processed, or while a pass is in progress (at most D units per pass)
Advance ==
  /\ (IF holder = "none" THEN due = {} ELSE busy < D)
  /\ clk' = [v \in V |-> (clk[v] + 1) % I]
  /\ due' = due \cup {v \in V : clk'[v] = 0}
  /\ age' = [v \in V |-> IF age[v] = NoStamp THEN NoStamp ELSE Min(age[v] + 1, I)]
  /\ since' = [v \in V |-> Min(since[v] + 1, Cap)]
  /\ busy' = IF holder = "none" THEN 0 ELSE busy + 1
  /\ UNCHANGED <<fails, holder, sib>>
  /\ Emit(<<"advance">>, [decision |-> "none"])

\* another instance is provisioned in this process and cleaned up again (kind: its provisioning failed because the work_dir is in
\* use / does not exist, or it succeeded): nothing of the instances in V changes.  Deviation LeakOnSibling: the clean-up of an
\* instance that never got a repository leaves the refresh mutex taken - by nobody who will ever release it.
Sibling(kind) ==
  /\ sib = 0 /\ sib' = 1 /\ holder = "none"
  /\ holder' = IF LeakOnSibling /\ kind # "ok" THEN "leaked" ELSE holder
  /\ UNCHANGED <<clk, due, age, since, fails, busy>>
  /\ Emit(<<"sibling", kind>>, [decision |-> "none"])

Next == Advance \/ (\E v \in V : TickBegin(v) \/ TickDropped(v) \/ \E ok \in BOOLEAN : TickEnd(v, ok))
        \/ \E kind \in {"inuse", "missing", "ok"} : Sibling(kind)
Spec == Init /\ [][Next]_vars /\ WF_vars(Next)

(* =============================== properties ============================= *)
\* C15: every known CRL is fetched again within B*I, independently of the other instances and of earlier failures
BoundedRefresh == \A v \in V : since[v] <= B * I
\* ... forever (checked on the complete graph under weak fairness)
Live == \A v \in V : []<>(since[v] = 0)
TypeOK == clk \in [V -> 0..I-1] /\ due \subseteq V /\ holder \in V \cup {"none", "leaked"} /\ busy \in 0..D /\ sib \in 0..1
=============================================================================
