SPECIFICATION Spec
CONSTANTS
  MaxEntries = 2
  BoundByTbs = TRUE
  Faulty = FALSE
  Export = FALSE
INVARIANTS Agree RejectsOutOfProfile DigestExact NoPanic Total AllocBounded OneResident
PROPERTIES QuietAfterReject
CHECK_DEADLOCK FALSE
