------------------------------ MODULE CrlReader ------------------------------
(***************************************************************************)
(* The streaming CRL reader (crl/crlreader/crlreader.go: ReadCRL) as a     *)
(* control-state machine over an abstract element stream, next to an       *)
(* independent whole-document reference semantics (the Ref operators).     *)
(* Anchors: ReadCRL, versionExists, nextUpdateTimeExists,                  *)
(* revokedCertificateListExists, parseRevokedCertificateList,              *)
(* extensionsExists, CheckForCriticalUnhandledCRLExtensions,               *)
(* core/hashing.HashingReaderWrapper (Start/FinishHashCalculation),        *)
(* core/asn1parser (ReadExpectedBytes and the length handling).            *)
(* Serves C06 (agreement with the reference), C07 (totality under faults), *)
(* C17 (at most one entry resident), C04 (digest covers exactly tbs).      *)
(*                                                                         *)
(* BoundByTbs = TRUE is the intended design: an optional part is present   *)
(* iff the next tag fits AND the reader is still inside tbsCertList /      *)
(* inside the list.  FALSE models the code before the C06/C07 repairs      *)
(* (peeking the next tag only).                                            *)
(***************************************************************************)
EXTENDS Naturals, Sequences, FiniteSets, TLC, Json

CONSTANTS MaxEntries, BoundByTbs, Faulty, Export

Vers     == {"absent", "v2", "v3"}
ExtKinds == {"absent", "plain", "number", "crit"}        \* crlExtensions: none / AKI only / AKI + cRLNumber / + unknown critical
EntryT   == [ext : BOOLEAN, gen : BOOLEAN]                 \* entry extensions present?  GeneralizedTime revocation date?
EntrySeqs == UNION { [1..n -> EntryT] : n \in 0..MaxEntries }
Lists    == [present : BOOLEAN, es : EntrySeqs]
Docs == {d \in [ver : Vers, next : BOOLEAN, list : Lists, exts : ExtKinds] :
            /\ (~d.list.present => d.list.es = <<>>)
            /\ (d.exts # "absent" => d.ver # "absent") }     \* RFC 5280: extensions require v2

(* ---- the element stream of a document ------------------------------------ *)
E(k, t, i) == [kind |-> k, tag |-> t, inTbs |-> i]
K(n) == <<n, 0, FALSE, FALSE>>
Opt(c, s) == IF c THEN s ELSE <<>>
EntryElems(es) == [i \in 1..Len(es) |-> E(<<"entry", i, es[i].ext, es[i].gen>>, "SEQ", TRUE)]
Elems(d) ==
  <<E(K("outer"), "SEQ", FALSE), E(K("tbs"), "SEQ", TRUE)>>
  \o Opt(d.ver # "absent", <<E(<<d.ver, 0, FALSE, FALSE>>, "INT1", TRUE)>>)
  \o <<E(K("innerAlg"), "SEQ", TRUE), E(K("issuer"), "SEQ", TRUE), E(K("thisUpd"), "UTC", TRUE)>>
  \o Opt(d.next, <<E(K("nextUpd"), "UTC", TRUE)>>)
  \o (IF ~d.list.present THEN <<>> ELSE <<E(K("listHdr"), "SEQ", TRUE)>> \o EntryElems(d.list.es))
  \o Opt(d.exts # "absent", <<E(<<d.exts, 0, FALSE, FALSE>>, "CTX0", TRUE)>>)
  \o <<E(K("outerAlg"), "SEQ", FALSE), E(K("algOid"), "OID", FALSE), E(K("sig"), "BITSTR", FALSE)>>

(* ---- reference semantics: a decoder of the whole document ---------------- *)
RefEntries(d) == IF ~d.list.present THEN <<>> ELSE [i \in 1..Len(d.list.es) |-> <<"insert", i, d.list.es[i].ext, d.list.es[i].gen>>]
RefAccept(d)  == d.ver # "v3" /\ d.exts # "crit"
RefEvents(d)  == IF d.ver = "v3" THEN <<>>
                 ELSE <<<<"start", d.next>>>> \o RefEntries(d) \o <<<<"extmeta", d.exts = "number">>>>
RefHashed(d)  == {i \in 1..Len(Elems(d)) : Elems(d)[i].inTbs}

(* ---- faults (C07): what a hostile input can present at a control state ---- *)
Faults == {"eof", "wrongTag", "lenBeyondData", "lenBeyondInt", "lenIndefinite", "lenOversize", "lenOverCap", "contentUndecodable"}
CtlStates == {"Outer", "Tbs", "PeekVer", "InnerAlg", "Issuer", "This", "PeekNext", "PeekList", "PeekEntry", "PeekExt", "OuterAlg", "Sig"}
Cap == 3      \* abstract allocation budget per element (the real one: 80 KiB per structure, 64 KiB chunks)

VARIABLES doc, pos, st, events, hashing, hashed, result, version, held, alloc, fault, faultAt
vars == <<doc, pos, st, events, hashing, hashed, result, version, held, alloc, fault, faultAt>>

Stream == Elems(doc)
Cur    == Stream[pos]
HasCur == pos <= Len(Stream)
Inside == HasCur /\ (BoundByTbs => Cur.inTbs)
Take == /\ pos' = pos + 1
        /\ hashed' = IF hashing THEN hashed \cup {pos} ELSE hashed
Keep == UNCHANGED <<doc, version, fault, faultAt, alloc>>
Final(s, r) == Export => PrintT(<<"DOC", ToJson([doc |-> doc, fault |-> fault, faultAt |-> faultAt, st |-> s, result |-> r,
                                                    events |-> events', hashedAll |-> (hashed' = RefHashed(doc))])>>)
Reject(why) == /\ st' = "Rejected" /\ result' = <<"error", why>> /\ held' = 0
               /\ UNCHANGED <<pos, events, hashing, hashed, doc, version, fault, faultAt, alloc>>
               /\ Final("Rejected", <<"error", why>>)

Init == /\ doc \in Docs /\ pos = 1 /\ st = "Outer" /\ events = <<>> /\ hashing = FALSE /\ hashed = {} /\ result = <<"none">>
        /\ version = 1 /\ held = 0 /\ alloc = 0
        /\ IF Faulty THEN fault \in Faults /\ faultAt \in CtlStates ELSE fault = "none" /\ faultAt = "none"

\* a fault strikes when the reader arrives at faultAt: the reader must reject (never panic, never allocate for a length the
\* input does not back, never spin)
Struck == Faulty /\ st = faultAt
Strike == /\ Struck
          /\ st' = "Rejected" /\ result' = <<"error", fault>> /\ held' = 0
          /\ alloc' = IF fault \in {"lenBeyondData", "lenBeyondInt", "lenOversize", "lenOverCap"} THEN alloc + Cap ELSE alloc   \* bounded, not proportional to the claimed length
          /\ UNCHANGED <<pos, events, hashing, hashed, doc, version, fault, faultAt>>
          /\ Final("Rejected", <<"error", fault>>)

Outer == st = "Outer" /\ ~Struck /\ Take /\ st' = "Tbs" /\ hashing' = TRUE /\ UNCHANGED <<events, result, held>> /\ Keep
Tbs   == st = "Tbs" /\ ~Struck /\ Take /\ st' = "PeekVer" /\ UNCHANGED <<events, result, hashing, held>> /\ Keep
PeekVer == /\ st = "PeekVer" /\ ~Struck
           /\ IF Inside /\ Cur.tag = "INT1"
              THEN /\ Take /\ version' = (IF Cur.kind[1] = "v2" THEN 2 ELSE 3) /\ st' = "VerGate" /\ UNCHANGED <<events, result, hashing, doc, held, fault, faultAt, alloc>>
              ELSE /\ st' = "InnerAlg" /\ UNCHANGED <<pos, hashed, events, result, hashing, doc, version, held, fault, faultAt, alloc>>
VerGate == st = "VerGate" /\ IF version > 2 THEN Reject("version") ELSE (st' = "InnerAlg" /\ UNCHANGED <<pos, hashed, events, result, hashing, doc, version, held, fault, faultAt, alloc>>)
InnerAlg == st = "InnerAlg" /\ ~Struck /\ Take /\ st' = "Issuer" /\ UNCHANGED <<events, result, hashing, held>> /\ Keep
Issuer == st = "Issuer" /\ ~Struck /\ (IF Cur.tag = "SEQ" THEN Take /\ st' = "This" /\ UNCHANGED <<events, result, hashing, held>> /\ Keep ELSE Reject("issuer"))
This == st = "This" /\ ~Struck /\ (IF Cur.tag = "UTC" THEN Take /\ st' = "PeekNext" /\ UNCHANGED <<events, result, hashing, held>> /\ Keep ELSE Reject("thisUpdate"))
PeekNext == /\ st = "PeekNext" /\ ~Struck
            /\ IF Inside /\ Cur.tag = "UTC"
               THEN Take /\ events' = Append(events, <<"start", TRUE>>) /\ st' = "PeekList" /\ UNCHANGED <<result, hashing, held>> /\ Keep
               ELSE events' = Append(events, <<"start", FALSE>>) /\ st' = "PeekList" /\ UNCHANGED <<pos, hashed, result, hashing, held>> /\ Keep
PeekList == /\ st = "PeekList" /\ ~Struck
            /\ IF Inside /\ Cur.tag = "SEQ"
               THEN Take /\ st' = "PeekEntry" /\ UNCHANGED <<events, result, hashing, held>> /\ Keep
               ELSE st' = "PeekExt" /\ UNCHANGED <<pos, hashed, events, result, hashing, held>> /\ Keep
\* one entry at a time: it is decoded (held = 1), handed to the consumer, and dropped (held = 0) before the next peek
PeekEntry == /\ st = "PeekEntry" /\ ~Struck
             /\ IF Inside /\ Cur.tag = "SEQ" /\ (BoundByTbs => Cur.kind[1] = "entry")
                THEN IF Cur.kind[1] = "entry"
                     THEN Take /\ held' = 1 /\ st' = "Deliver" /\ UNCHANGED <<events, result, hashing>> /\ Keep
                     ELSE Reject("entry undecodable")     \* a SEQUENCE that is not a revokedCertificate (only reachable when ~BoundByTbs)
                ELSE st' = "PeekExt" /\ UNCHANGED <<pos, hashed, events, result, hashing, held>> /\ Keep
Deliver == /\ st = "Deliver"
           /\ LET e == Stream[pos - 1] IN events' = Append(events, <<"insert", e.kind[2], e.kind[3], e.kind[4]>>)
           /\ held' = 0 /\ st' = "PeekEntry" /\ UNCHANGED <<pos, hashed, result, hashing>> /\ Keep
PeekExt == /\ st = "PeekExt" /\ ~Struck
           /\ IF Inside /\ version > 1 /\ Cur.tag = "CTX0"
              THEN Take /\ events' = Append(events, <<"extmeta", Cur.kind[1] = "number">>) /\ st' = (IF Cur.kind[1] = "crit" THEN "CritReject" ELSE "Finish") /\ UNCHANGED <<result, hashing, held>> /\ Keep
              ELSE IF BoundByTbs
                   THEN events' = Append(events, <<"extmeta", FALSE>>) /\ st' = "Finish" /\ UNCHANGED <<pos, hashed, result, hashing, held>> /\ Keep
                   ELSE /\ st' = "Panic" /\ result' = <<"panic", "nil extensions">> /\ events' = Append(events, <<"extmeta", FALSE>>)
                        /\ UNCHANGED <<pos, hashed, hashing, held>> /\ Keep
                        /\ Final("Panic", <<"panic", "nil extensions">>)
CritReject == st = "CritReject" /\ Reject("critical extension")
Finish == st = "Finish" /\ hashing' = FALSE /\ st' = "OuterAlg" /\ UNCHANGED <<pos, hashed, events, result, held>> /\ Keep
OuterAlg == st = "OuterAlg" /\ ~Struck
            /\ (IF HasCur /\ Cur.tag = "SEQ" THEN pos' = pos + 2 ELSE pos' = pos + 1)
            /\ st' = "Sig" /\ UNCHANGED <<hashed, events, result, hashing, held>> /\ Keep
Sig == st = "Sig" /\ ~Struck
       /\ (IF HasCur /\ Cur.tag = "BITSTR"
           THEN /\ st' = "Done" /\ result' = <<"ok">> /\ UNCHANGED <<pos, hashed, events, hashing, held>> /\ Keep
                /\ Final("Done", <<"ok">>)
           ELSE Reject("signature"))

Next == Strike \/ Outer \/ Tbs \/ PeekVer \/ VerGate \/ InnerAlg \/ Issuer \/ This \/ PeekNext \/ PeekList \/ PeekEntry \/ Deliver
        \/ PeekExt \/ CritReject \/ Finish \/ OuterAlg \/ Sig
Spec == Init /\ [][Next]_vars

(* =============================== properties ============================= *)
\* C06: the streaming reader agrees with the whole-document reference
Agree == (st = "Done" /\ fault = "none") => (RefAccept(doc) /\ events = RefEvents(doc) /\ hashed = RefHashed(doc))
RejectsOutOfProfile == (st = "Rejected" /\ fault = "none") => ~RefAccept(doc)
\* C04: the digest covers exactly the elements of tbsCertList
DigestExact == (st \in {"OuterAlg", "Sig", "Done"}) => hashed = RefHashed(doc)
\* C07: totality: never the panic state; every non-terminal state can move; allocation stays within the budget
NoPanic == st # "Panic"
Total   == st \in {"Done", "Rejected", "Panic"} \/ ENABLED Next
AllocBounded == alloc <= Cap
\* C17: at most one entry is resident in the reader
OneResident == held <= 1
\* no callback after rejection
QuietAfterReject == [][st = "Rejected" => events' = events]_vars
=============================================================================
