#!/usr/bin/env python3
"""Generates /verif/MANIFEST.json from the table below (single source of truth for the interface)."""
import json, subprocess

BASELINE_OFF = ("cd /repo && export GOFLAGS=-mod=mod GOPROXY=off GOSUMDB=off GOTOOLCHAIN=local && "
                "go build ./... && go test -vet=off -count=1 -timeout 25m ./...")

# id -> (spec modules, level text, level note, technique, design ref)
CHECKS = {
}

PENDING = {
}

def load_table():
    import importlib.util, os
    p = os.path.join(os.path.dirname(__file__), "manifest_table.py")
    spec = importlib.util.spec_from_file_location("manifest_table", p)
    m = importlib.util.module_from_spec(spec)
    spec.loader.exec_module(m)
    return m

def main():
    t = load_table()
    props = [json.loads(l) for l in open("/verif/properties.jsonl")]
    checks, na = [], []
    for p in props:
        pid = p["id"]
        if pid in t.CHECKS:
            c = t.CHECKS[pid]
            checks.append({
                "property_id": pid,
                "quick_cmd": f"bin/check {pid} --tier quick",
                "thorough_cmd": f"bin/check {pid} --tier thorough",
                "evidence_file": f"/verif/evidence/{pid}.json",
                "replay_cmd_template": f"bin/check {pid} --replay {{path}}",
                "engine": c.get("engine", "tlc+replay"),
                "level_claimed": {"category": c.get("category", "model_checking"), "text": c["text"], "design_ref": c.get("design", "DESIGN.md section 6 / " + pid)},
                "level_note": c["note"],
                "technique": c["technique"],
            })
        else:
            na.append({"property_id": pid, "reason": t.PENDING.get(pid, "check not built yet in this round; see DESIGN.md section 6 for the planned decision procedure")})
    try:
        hooks = subprocess.run(["git", "-C", "/repo", "log", "--format=%H", "--grep=^verif-hook:"], capture_output=True, text=True).stdout.split()
    except Exception:
        hooks = []
    m = {
        "version": 1,
        "setup_cmd": "bin/setup",
        "hooks": {
            "guard": "verif",
            "enable": "go build -tags verif (bin/check builds /verif/harness with `replace github.com/gr33nbl00d/caddy-revocation-validator => /repo` and -tags verif)",
            "baseline_off_cmd": BASELINE_OFF,
            "source_commits": hooks,
            "add_only": True,
        },
        "engines": t.ENGINES,
        "checks": checks,
        "notes": t.NOTES,
    }
    if na:
        m["not_applicable"] = na
    json.dump(m, open("/verif/MANIFEST.json", "w"), indent=1)
    print("MANIFEST.json:", len(checks), "checks,", len(na), "not_applicable")

main()
