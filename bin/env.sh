# sourced by every /verif/bin script: offline Go environment
export GOFLAGS=-mod=mod GOPROXY=off GOSUMDB=off GOTOOLCHAIN=local
export VERIF_ROOT=/verif
export REPO_ROOT=${REPO_ROOT:-/repo}
