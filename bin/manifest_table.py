ENGINES = [
  {"name": "tlc+replay", "path": "/verif/spec + /verif/harness",
   "serves_properties": [],
   "kind_free_text": "explicit TLA+ specification checked by TLC; the labelled transition graph / behaviours that TLC exports are replayed on the real code (spec -> code), and event traces recorded from the real code through verif-tagged hooks are validated by TLC against Trace_*.tla (code -> spec)"},
]
NOTES = ("One TLA+ specification (/verif/spec) decides every claimed property; each check = TLC proves the property on the model within the stated bounds, "
         "then the Go harness binds the model to /repo's working tree by replay / trace validation and evaluates the property's own predicate on real observations. "
         "Exit 2 = infrastructure problem, never a verdict.")

CHECKS = {
 "C18": {
  "text": "CrlStore.tla is the abstract map; TLC enumerates its complete state graph (729 states / 12 393 operation edges for 2 keys x 2 payloads x 4 prepared replacements, with LookupExact/ReplaceWhole/Frame proved on it) and every edge is executed on both real backends (MapStore, LevelDbStore incl. close+reopen and whole-store Update) with every getter compared to the edge's expectation and to the other backend; plus all op sequences up to a length and seeded long walks with rotating value shapes.",
  "note": "Exhaustive over the abstract operation graph; concrete value shapes (serial widths, names, optional fields) are seeded samples inside 5 variants. Trusts TLC, Go's encoding/asn1 for comparing read-back values, goleveldb.",
  "technique": "TLC exhaustive state graph of the store model + transition-tour replay on both real backends (model-based differential testing)",
 },
}
PENDING = {}
