ENGINES = [
  {"name": "tlc+replay", "path": "/verif/spec + /verif/harness",
   "serves_properties": [],
   "kind_free_text": "explicit TLA+ specification checked by TLC; the labelled transition graph / behaviours that TLC exports are replayed on the real code (spec -> code), and event traces recorded from the real code through verif-tagged hooks are validated by TLC against Trace_*.tla (code -> spec)"},
]
NOTES = ("One TLA+ specification (/verif/spec) decides every claimed property; each check = TLC proves the property on the model within the stated bounds, "
         "then the Go harness binds the model to /repo's working tree by replay / trace validation and evaluates the property's own predicate on real observations. "
         "Exit 2 = infrastructure problem, never a verdict.")

CHECKS = {
 "C18": {
  "text": "CrlStore.tla is the abstract map; TLC enumerates its complete state graph (729 states / 12 393 operation edges for 2 keys x 2 payloads x 4 prepared replacements, with LookupExact/ReplaceWhole/Frame proved on it) and every edge is executed on both real backends (MapStore, LevelDbStore incl. close+reopen and whole-store Update) with every getter compared to the edge's expectation and to the other backend; plus all op sequences up to a length and seeded long walks with rotating value shapes.",
  "note": "Exhaustive over the abstract operation graph; concrete value shapes (serial widths, names, optional fields) are seeded samples inside 5 variants. Trusts TLC, Go's encoding/asn1 for comparing read-back values, goleveldb.",
  "technique": "TLC exhaustive state graph of the store model + transition-tour replay on both real backends (model-based differential testing)",
 },
}

HUB_NOTE = ("Bounded by the abstraction of Revocation.tla (2 locations: one CDP set, one configured url/file; 3 certificates incl. a foreign issuer sharing a serial and an ldap-only CDP; "
            "documents = signer in {issuer, sibling key with the same name, foreign CA} x key sets over 2 serials x {valid, unknown critical extension, garbage, unreachable}); complete per configuration, configurations sampled per tier. "
            "Concrete bytes (list size, position, serial width, entry extensions, DER/PEM) are seeded samples. Trusts TLC, the harness' projection (verdict, loaded flags, fetch counts) and Go's crypto/x509 for building the PKI.")
CHECKS.update({
 "C01": {
  "text": "Sound (listed in a CRL in force => rejected) is an action property of Revocation.tla proved by TLC on the complete graph of every chosen configuration together with the refinement invariants Refines/Complete (mechanism store == policy-accepted document). Every edge of those graphs (Provision, Handshake with the document served, BgLoad, RefreshAll, Restart) is then executed on a real CertRevocationValidator and the predicate 'ghost says listed-in-force and real verdict is accept' is evaluated; model/code disagreement on verdict, loaded flags or fetches ends the walk as drift.",
  "note": HUB_NOTE,
  "technique": "TLC model checking of Revocation.tla + transition-tour replay through VerifyClientCertificate with the specification's ghost state as oracle",
 },
 "C10": {
  "text": "StrictGate and LenientNeverDenies are action properties of Revocation.tla (strict accepts a certificate naming distribution points only while that CRL is in force by the policy ghost; lenient never denies unless listed or OCSP says so), proved per configuration and replayed edge by edge on the real validator incl. fetch_background with the forced update parked at a blocking hook so that 'pending' is a real observable state, ldap-only CDP, restart on disk.",
  "note": HUB_NOTE,
  "technique": "TLC model checking of Revocation.tla + transition-tour replay with hook-gated background loads",
 },
 "C11": {
  "text": "Precise (reported revoked => listed in a CRL in force or OCSP revoked) as an action property of Revocation.tla plus the Refines invariant, proved per configuration; replay covers load(rejected);load(accepted);refresh(removing entries) histories of every length the finite abstraction has, on both backends, with near-miss filler serials and a foreign issuer sharing the serial.",
  "note": HUB_NOTE,
  "technique": "TLC model checking of Revocation.tla + transition-tour replay with near-miss concretisation",
 },
 "C13": {
  "text": "EntryLocks.tla proves NoDeadlock (as an invariant over the wait-for relation) and the lockset discipline for the entry lock protocol; the Revocation graph of two configurations is replayed with a 30 s watchdog per call so that every explored history incl. 'last refresh failed signature verification' returns. (Concurrent part: see DESIGN.md; grown in later rounds.)",
  "note": "Sequential histories exhaustive per configuration; interleavings are covered by the lock model only until the gated-schedule replay lands. Trusts TLC and the watchdog bound (longest legitimate retry loop is 5 s).",
  "technique": "TLC invariant over the wait-for graph (EntryLocks.tla) + watchdog replay of Revocation.tla histories",
 },
 "C16": {
  "text": "PolicyAccepts(sig, doc, ctx) is the single operator every intake action of Revocation.tla uses, with the per-path context table (provision: trusted signers; first CDP fetch: chain+trusted; refresh: stored signer); VerifyNeverInForce (invariant) and LenientRefreshWorks (action property) are proved per configuration for sig in {verify, verify_log, none} x {url, file, CDP} x {memory, disk} and every edge is replayed; predicates: Provision must succeed when the configured CRL is acceptable under the mode, under verify nothing rejected is ever in force (also after restart), under verify_log/none a parseable CRL is in force after every intake path.",
  "note": HUB_NOTE,
  "technique": "TLC model checking of Revocation.tla (policy ghost vs mechanism) + transition-tour replay incl. restart on disk",
 },
})

CHECKS.update({
 "C03": {
  "text": "The complete one-handshake table mode(6 incl. unset) x OCSP outcome(4) x aia_strict x cdp_strict x backend (192 configurations chosen in Init of Revocation.tla) x every certificate x every document the CDP may serve is enumerated by TLC with ModePromise (verdict = sequential composition of the enabled mechanisms) proved on it; every cell is then executed on a fresh real validator and accept/reject is compared for equality (the property is an iff), together with the touch sets (no CRL fetch / empty work_dir when CRL is not enabled, no responder contact when OCSP is not enabled). Chain shapes rotate by seed.",
  "note": "Exhaustive over the abstract table in the thorough tier; the quick tier runs all memory cells and a seeded third of the disk cells. 'Unavailable CDP' is mostly a garbage body; connection hang-ups are sampled. Trusts TLC and the harness' verdict classification (nil = accept).",
  "technique": "TLC enumeration of the finite mode table (Revocation.tla, MaxSteps=2) + cell-by-cell replay through Provision/VerifyClientCertificate",
 },
 "C09": {
  "text": "CrlStore.tla with the fault actions CloseUnder and Corrupt(k) enabled proves FailClosed (a faulty lookup answers 'error'); its complete graph is walked on the real backends and the lookups compared. The same fault classes plus a failing store swap are injected underneath a provisioned validator (closing LevelDbStore.Db, overwriting the record value found by content, wrapping the live store so that Update fails after closing) and observed through VerifyClientCertificate for listed and unlisted certificates, strict and lenient.",
  "note": "Store-level fault graph exhaustive for 2 keys; validator-level cases are the finite product backend x fault x listed x strict. Block-level .ldb corruption and real I/O errors are not injected (the closed database stands for 'Get returns a non-NotFound error'). Trusts TLC and goleveldb's error reporting.",
  "technique": "TLC fault-transition model (CrlStore.tla, Faulty=TRUE) + fault-injection replay on both backends and through the validator API",
 },
})

OCSP_NOTE = ("Bounded by the abstraction of Ocsp.tla: responder behaviour classes instead of bytes, two certificates sharing subject and serial under different issuers, two validator instances sharing the process-global table, discrete time. "
             "Responses are real signed DER built with x/crypto/ocsp against scripted HTTP responders. Trusts TLC, the per-URL hit log and (C14) a 60 ms timing margin whose failure can only cause drift, never an alarm.")
CHECKS.update({
 "C02": {
  "text": "Ocsp.tla proves RevokedRejects, StrictNeedsAnswer, LenientNeverDenies and WalkStops for every responder list of length 0..2 (seeded length 3) over 10 behaviour classes (good, revoked, unknown, error status, HTTP 500, garbage, connection refused, wrong content, https with untrusted certificate, non-HTTP scheme) x strict x cache duration {0, >0}; each behaviour (two queries, so the second may come from the cache) is replayed on real OCSPRevocationCheckers with the directional predicates of the property.",
  "note": OCSP_NOTE,
  "technique": "TLC over all responder-list behaviours (Ocsp.tla) + replay against scripted responders",
 },
 "C05": {
  "text": "The requirement operator Counts (successful, issuer- or authorised-responder-signed, about this serial) is independent of the parser; OnlyCounted is proved and every signer/serial/status class (issuer, delegated with/without OCSPSigning EKU, the client's own certificate, stranger with/without embedded certificate, sibling CA, other serial, error statuses, malformed) alone and in front of an authentic answer is replayed, with the forged answer always claiming the status that would flip the verdict; plus single-bit mutations inside tbsResponseData/signature of an authentic response.",
  "note": OCSP_NOTE + " Byte mutations are seeded samples (60 quick / 3000 thorough), not all bytes.",
  "technique": "TLC decision table (Ocsp.tla Counts/OnlyCounted) + adversarial replay with real signed responses and bit-flip mutations",
 },
 "C14": {
  "text": "Ocsp.tla with a discrete clock proves KeyRight, Bounded, ZeroMeansNone, FailuresNotCached and LifetimeRule; the cache graphs (ticks, status flips good->revoked, queries by two instances for two certificates sharing subject+serial) are toured in real time (1 unit = 120 ms) with one-sided predicates: served from the cache although the specification has no valid entry for that certificate, cached although it must not be, lifetime reported through the hook longer than nextUpdate+skew / default duration.",
  "note": OCSP_NOTE,
  "technique": "TLC with discrete time (Ocsp.tla) + real-time tour with hook read-back of lifetimes",
 },
})

CHECKS.update({
 "C04": {
  "text": "Authz.tla transcribes the RFC 5280 5.2.1 issuer-candidate search and the signature check next to the requirement 'signed by an entitled issuer' and proves OnlyEntitled on every row of signer(7) x AKI form(6) x keyUsage(3) x algorithm(10 supported + RSA-PSS + Ed25519) x mutation site(5); every row is materialised with real keys and a derbuild CRL, served at a leaf's CDP and taken in by a real validator under verify + crl_cdp_strict; in force <=> the strict gate passes. Plus one bit flipped in every (quick: every third) byte of tbsCertList and signature of a small valid CRL.",
  "note": "Exhaustive over the abstract table in the thorough tier (quick: 4-5 algorithms, a third of the mutation rows). Bit positions inside a byte and mutated offsets inside a region are seeded. Trusts TLC, Go crypto for producing signatures, derbuild for rendering.",
  "technique": "TLC decision table (Authz.tla) + row-by-row replay through the validator with real signatures and bit-flip sweeps",
 },
 "C06": {
  "text": "CrlReader.tla models ReadCRL as a control-state machine over the element stream of every document of the bounded RFC 5280 grammar (396 documents: version absent/v2/v3, nextUpdate?, list absent/empty/1-2 entries with extension and GeneralizedTime flags, crlExtensions absent/plain/number/critical) next to an independent whole-document reference semantics; Agree, RejectsOutOfProfile, DigestExact are invariants. Every document is materialised (derbuild, real signature) in several shapes and read by the real streaming reader; callbacks are compared with the model's event sequence and with a whole-document encoding/asn1 decoder incl. the digest of TBSCertList.Raw.",
  "note": "Structure exhaustive within MaxEntries=2 (each abstract entry is a block of 1/40/130 concrete entries); bytes inside a shape class (algorithm, DER/PEM/CRLF, serial width, extension length class, alignment at 4096k+delta) seeded. Encode/decode fidelity is decided by the differential oracle, not by TLC.",
  "technique": "TLC over the bounded CRL grammar (CrlReader.tla vs reference semantics) + differential replay against a whole-document decoder",
 },
 "C07": {
  "text": "CrlReader.tla with fault transitions: from each of the 12 control states each of 8 fault classes (eof, wrong tag, length beyond data / beyond int / indefinite / oversize / over the structure cap, undecodable content) leads to Rejected with bounded allocation (NoPanic, Total, AllocBounded, QuietAfterReject). Every (state, fault) pair is applied at the structural position of that state in a valid document (with and without re-encoding the enclosing lengths, DER and PEM), plus every truncation of valid CRLs, seeded random bytes / edits / PEM armour faults, and mutated AKI values through the issuer-candidate search; each input runs under recover(), a 20 s watchdog and a TotalAlloc budget of 8 MiB + 32 x input length.",
  "note": "All 96 (state, fault) pairs covered in both tiers; random inputs are seeded samples (1.5 k quick / 100 k thorough). Memory safety itself is the Go runtime's; decided: panic-freedom, termination, allocation volume.",
  "technique": "TLC fault-transition model (CrlReader.tla, Faulty=TRUE) + structure-aware fault injection and seeded fuzzing under watchdog and allocation budget",
 },
 "C17": {
  "category": "other",
  "text": "Child processes read N and 10N entries (reader alone DER/PEM, reader into LevelDB, whole validator path HTTP download -> parse -> disk store) logging live heap after forced GC at every 1/20 of the list; TLC validates each trace against TraceMem.tla (entry counter follows the reader's Deliver steps; invariant heap <= C0 + C1*(held+resident), C1 = 0 on the disk path) and peak(10N) - peak(N) <= 32 MiB. held <= 1 is proved on CrlReader.tla (OneResident).",
  "note": "A measured resource bound seen through a trace: TLC contributes the abstraction and the invariant, not a proof about the allocator. N = 20 k / 200 k (quick), 100 k / 1 M (thorough); validator-path input files are 9 MB / 90 MB so that buffering the download exceeds every allowance.",
  "technique": "trace validation by TLC (TraceMem.tla) of heap samples recorded from the real reader/validator in child processes",
 },
})

CHECKS.update({
 "C19": {
  "text": "Config.tla defines Effective(cfg) (documented meaning incl. defaults, rejection of invalid values / unknown keys / missing work_dir for CRL modes) and ProvisionOK(cfg) over the option space of both syntaxes, with Defaults, RejectUnknown, NoIgnoring, ValidProvisions as invariants; TLC computes the expectation for every chosen configuration; each is rendered as Caddy JSON and as a Caddyfile block, loaded with caddy.StrictUnmarshalJSON resp. UnmarshalCaddyfile + Provision, and every parsed field is compared with Effective(cfg) and across the syntaxes.",
  "note": "Configurations: every single value and every single fault on two bases, every unknown-key place, modes without crl_config, plus seeded random valid combinations (250 quick / 6000 thorough) - not the full 10^5 product. Trusts TLC, the renderers of the harness and caddyfile.NewTestDispenser.",
  "technique": "TLC-computed decision table (Config.tla) + differential replay of both configuration syntaxes",
 },
})

CHECKS.update({
 "C15": {
  "text": "Refresher.tla models per-instance tickers, the refresh mutex and the skip rule (a pass finished less than half an interval ago) with clocks and capped ages, so BoundedRefresh (time since an instance last re-fetched <= 2 intervals) and the liveness property []<> refreshed are checked under weak fairness on the complete graph for all 16 phase pairs of two instances and every outcome history. Walks of that graph (3x the bound and, thorough, a covering tour) are executed on two real validators in one process: time passes by shifting the refresh-finish timestamps through a verif accessor, a tick is one updateCRLs(false); predicates: starvation beyond the bound, a pass that ran without re-fetching a known location (configured url, CDP), a newly published acceptable CRL not in force after a successful pass. Plus the finite table source{url,file} x fetch mode x signature mode x backend for 'configured CRLs are in force when Provision returns'.",
  "note": "Two instances, I = 4 units, B = 2; the real time.Ticker itself is not exercised (ticks are injected at the model's instants). Trusts TLC (incl. its liveness checking) and the hook that reports skip/run.",
  "technique": "TLC safety + liveness on a clock-abstracted model (Refresher.tla) + time-injected replay on two real validators",
 },
})

REPO_NOTE = ("Bounded by CrlRepo.tla (one location, one loader/refresher, 2 reader processes, 2-3 keys, 2-3 runs, origins good/badsig/truncated/garbage/unreachable x all key sets, staging-store create and insert faults, crash at every loader pc on disk). "
             "The replay is exhaustive at hook granularity for one loader with lookups / crash images / listings placed at every loader step; finer interleavings of the readers are covered by the TLC proof and the free-running stress. Trusts TLC, the hook placement (swap events fire under the entry write lock) and cp -r as a SIGKILL image.")
CHECKS.update({
 "C08": {
  "text": "CrlRepo.tla models updateCrlEntry/loadCRL step by step (pc = last verif hook) with readers under the entry RW lock: Atomic (a reader in its critical section sees one complete accepted list), Monotone (per reader and in real-time order), FailKeeps for every failure branch, SwapLocked, LockOK are proved by TLC on the full model. Scenarios (first load and refresh with every outcome, each followed by a successful refresh) are replayed on a real repository with the loader parked at each hook; three concurrent lookups (old-only, new-only, common) at every stop must equal the complete previous or the complete new list - never empty, partial, mixed or an error - and never the previous list after the new one.",
  "note": REPO_NOTE,
  "technique": "TLC on the step-level repository model (CrlRepo.tla) + gated schedule replay through blocking verif hooks",
 },
 "C12": {
  "text": "CrlRepo.tla with Crash enabled at every loader pc and Restart (temp sweep; Loaded := meta record present) proves CrashSafe, OnlyAccepted and NoResidue. On the real disk backend work_dir is copied while the loader is parked at each hook (after download, staging, parsing, before the swap, between each of the six steps of the LevelDB directory swap, after it) for first loads and refreshes with acceptable and rejected documents; a fresh validator is provisioned on every image (origin serving garbage, crl_cdp_strict on): it may treat the location as loaded only with the complete previous or complete new accepted list, and no crl_*_tmp artefact may survive Provision. The model's prediction of the post-restart content is compared too (differences are drift).",
  "note": REPO_NOTE + " SIGKILL semantics, not power loss. The random-instant SIGKILL of a child process is not built yet (listed in DESIGN.md as future work).",
  "technique": "TLC crash/restart model (CrlRepo.tla) + crash-image replay at every hook of the real swap protocol",
 },
 "C13": {
  "text": "Three layers. (1) EntryLocks.tla: NoDeadlock as an invariant over the wait-for relation and the lockset discipline of the entry lock protocol; CrlRepo.tla: LockOK, SwapLocked. (2) Sequential histories of Revocation.tla incl. 'last refresh failed signature verification' replayed with a 30 s watchdog per call. (3) A child built with the Go race detector executes: the gated loader scenarios of CrlRepo.tla with lookups fired at every hook without harness-induced ordering, fetch_background loads racing handshakes, concurrent OCSP lookups across cache expiry, and a free-running stress (4 readers, refresher with failing refreshes, ticks, CDP handshakes, Cleanup) whose lookups and swaps are logged (swap event inside the hook under the write lock, version counter at call start/end) and validated by TLC against TraceRepo.tla: every answer must be explained by one complete list version inside its call window. Race reports, HANG lines and crashes are violations.",
  "note": "The race detector only sees executed accesses; schedules are exhaustive at hook granularity for loader x lookup, sampled in the stress. Watchdogs are 30-60 s against steps that take milliseconds (longest legitimate retry loop: 5 s). Trusts TLC, the Go race detector, and the hook placement.",
  "technique": "TLC deadlock/lockset invariants (EntryLocks.tla, CrlRepo.tla) + gated schedules and stress under the Go race detector + TLC trace validation of verdict linearizability (TraceRepo.tla)",
 },
 "C20": {
  "text": "CrlRepo.tla's file-system variables (store directory, staging store, store moved aside, download file) with NoResidue, LiveKept, OnlyAccepted proved by TLC; every step of the replayed loader scenarios is followed by a classified work_dir listing (no crl_*_tmp artefact when quiescent after successful and failing runs, no unknown file, nothing next to work_dir, store directory present while loaded). Hostile location strings (traversal, encoded separators, 1800 characters, unicode, temp-pattern look-alikes, pairs equal after normalisation) are taken in as CDPs on both backends: identifiers stay inside work_dir, distinct locations get distinct stores, the same location maps to the same store after restart, foreign files resembling the temp pattern survive the startup sweep. k provision/cleanup cycles: work_dir deregistered, no goroutine growth, re-provision on the same directory works.",
  "note": REPO_NOTE + " Location strings are a fixed list of classes, not an enumeration.",
  "technique": "TLC residue invariants (CrlRepo.tla) + listing trace of gated replays + location-string and lifecycle replay",
 },
})

PENDING = {}

# ---- growth after the first complete round: what each check additionally covers (appended to the texts above) ----
ADDENDA = {
 "C02": " Validator level: 24 hub configurations through VerifyClientCertificate. Concurrency: OcspFlight.tla (queries with a duration, two in flight at a responder URL shared by two issuers; RevokedRejects, StrictNeedsAnswer, OwnAnswerOnly) replayed with the responder as scheduler gate.",
 "C03": " Histories: tours of the complete graphs of unset/prefer_ocsp/prefer_crl with a constant responder and with a responder that changes (Revocation.tla action Respond, variables resp/ocache, configurations ocsp=dyn|dyncache), the same iff at every handshake; with the cache on, the verdict of an implementation that asks the responder again (edge field alt) is accepted too.",
 "C05": " Concurrency: OcspFlight.tla (Begin/Answer, two queries in flight, certificates with equal subject and serial under two issuers sharing one responder URL; OwnAnswerOnly, deviation Merge) replayed on real checkers with the responder decoding and parking every request until the specification's Answer step.",
 "C12": " The transfer itself is a crash point (pc 'fetching': the origin sends half of the body and parks); whatever a crash image holds after Provision besides stores and that a process at rest never keeps counts as a leftover under any name. Thorough tier: SIGKILL of a child process at seeded random instants.",
 "C15": " API level (Revocation.tla): a list that a refresh or background pass took in is in force, and a pass contacts the origin of every CRL the model says is known (the statement itself as predicate).",
 "C16": " Restarts may change the policy options inside a family of configurations (what is on disk is judged by the new policy); under verify_log/none a pass fetches every CRL that was taken in again.",
 "C17": " Encodings include DER free of line-feed bytes (the PEM detection is line oriented).",
 "C18": " CrlStores.tla: two stores of one base path and two temporary stores with a life time of their own (staged, consumed by a replacement after other stores were replaced/reopened, or discarded); Isolation and StagedStable proved, its complete graph (400 states) replayed on both backends with main and temporary stores observed after every step.",
}
for _k, _v in ADDENDA.items():
    if _k in CHECKS and not CHECKS[_k]["text"].endswith(_v):
        CHECKS[_k]["text"] += _v
CHECKS["C12"]["note"] = CHECKS["C12"]["note"].replace(" The random-instant SIGKILL of a child process is not built yet (listed in DESIGN.md as future work).", "")

ADDENDA2 = {
 "C02": " Issuer likeness of the two CAs is drawn per world (unlike / same name / same key identifier) and the other certificate is queried first on the same instance.",
 "C05": " Classes include answers whose signed responder id names the issuer while another certificate verifies the signature.",
 "C06": " crlExtensions are rendered in four orders and with three kinds of unimplemented critical extension.",
 "C09": " OpenDamaged: the database is found damaged when opened again (store level: MANIFEST overwritten; validator level: a 260k-entry CDP CRL, every table file removed in turn on a copy of work_dir, 24 listed certificates presented to a strict validator).",
 "C13": " LockOrder.tla (repository lock / entry lock programs of load, lookup, refresh, Close; NoDeadlock, Ordered) with the race-worker phases 'twin' (pass and handshake load one not-loaded entry) and 'shutdown' (Cleanup overlapping a first-use download).",
 "C14": " Predicates include: no valid entry and no authentic answer, yet the verdict is the status of the certificate's own expired entry.",
 "C15": " Refresher.tla action Sibling: another instance is provisioned (failing or not) and cleaned up in the same process; a tick or the refresh-mutex accessor blocking although no pass is in progress is a violation.",
 "C16": " Half of the worlds serve identical bytes for a document published again; guided reload paths present the same documents before and after the switch of the policy options.",
 "C17": " The validator path also runs under verify_log with a signer that cannot be verified.",
 "C19": " Every single fault and every unknown key is tried under every mode.",
 "C20": " CrlRepo.tla Shutdown / LSwapClosed / Reprovision (ClosedStaysClosed, NoResidueClosed): the instance is cleaned up at every pc of a refresh before the swap, the run ends by itself, a new instance on the same work_dir finds the list that was in force.",
}
for _k, _v in ADDENDA2.items():
    if _k in CHECKS and _v not in CHECKS[_k]["text"]:
        CHECKS[_k]["text"] += _v

ADDENDA3 = {
 "C01": " The hook events of every walk are checked for inclusion in the transition system of CrlRepo.tla (code -> spec).",
 "C02": " Ungated parallel lookups of a good and a revoked certificate on one instance (OwnAnswerOnly under real parallelism).",
 "C03": " Table cells with the first CDP fetch left to the background; histories with lists of the other CA.",
 "C04": " History part: handshakes that change nothing in the model are woven into every walk (all of them around passes); a location that is loaded after the only document fetched there was one that policy rejects is a violation.",
 "C06": " One whole-decoded element between 64 KiB and 80 KiB (entry extension / CRL extension).",
 "C07": " PEM armour: every line x eight line-level edits x LF/CRLF/mixed line ends.",
 "C08": " Overlapping passes: P1 kept inside its transfer, a newer list published, P2 started (the model has one loader per entry).",
 "C09": " Store level: exhaustive one-bit-per-byte sweep over the table file of a small store.",
 "C10": " Overlapping instances on one work_dir with opposite crl_cdp_strict.",
 "C11": " Overlapping passes with the C11 predicate (a superseded list does not come back).",
 "C12": " work_dir names with pattern / format characters.",
 "C13": " Shutdown phase: a known CRL, passes that start during Cleanup.",
 "C14": " nextUpdate past by an hour or by four minutes.",
 "C15": " Intake table with the ticker's first pass held; refresher worlds in which both instances name one URL and the origin answers conditional requests.",
 "C17": " Ed25519-signed lists (a list the implementation refuses is no case).",
}
for _k, _v in ADDENDA3.items():
    if _k in CHECKS and _v not in CHECKS[_k]["text"]:
        CHECKS[_k]["text"] += _v

ADDENDA4 = {
 "C01": " A first load held inside its transfer while a refresh pass fails for another location.",
 "C03": " The cell 'CRL lists the certificate' under contention (parallel handshakes and refresh passes, four modes).",
 "C04": " Refresh under verify_log/none to a list of another signer, restart under verify with the origin gone.",
 "C06": " Overlapping reads (nested and parallel), each judged like a lone read; element starts at window boundary -3..+1.",
 "C07": " Documents arriving at a refresh over a CRL in force: real loader, reader, persisting processor and both stores.",
 "C08": " LSwapFault replayed with an injected fault; a late background load of a superseded list; behaviours of Loaders.tla.",
 "C10": " Loads that fail at the swap (injected and real fault; strict and lenient).",
 "C11": " A late background load of a superseded list; Loaders.tla (active load and background load on one not yet loaded entry: NoRollback, LookupSound) replayed with origin-side gates.",
 "C12": " Every scenario under verify and none; crash images at rest; kill rounds under rotating modes.",
 "C13": " Parallel first loads from two CAs with 0/3/1/5 trusted bystander certificates.",
 "C15": " Unavailability as 503/404/500 with an error page; pass watchdog.",
 "C16": " Restart that finds the origin gone (origin down wherever the model fetches nothing).",
 "C17": " A big list that arrives after the validator met a damaged store of another location.",
 "C19": " Caddyfile directives in shuffled orders.",
 "C20": " Locations that are sets of URLs.",
}
for _k, _v in ADDENDA4.items():
    if _k in CHECKS and _v not in CHECKS[_k]["text"]:
        CHECKS[_k]["text"] += _v

ADDENDA5 = {
 "C01": " Certificate presented during the refresh that lists it; sibling locations (same path, other query / case / segment).",
 "C02": " Chains that lack the issuer: strict denies, lenient does not.",
 "C04": " End-entity signer rows with every key usage (Authz.tla).",
 "C05": " Class lookalikeEmbedded (self-signed copy of the issuer's name and serial).",
 "C07": " Aftermath sequences under verify: good / unverifiable / hostile, then the handshake.",
 "C08": " LVerify may fail with a verifying signature (signer-record write fault); real faults at the hooks of LevelDbStore.Update.",
 "C09": " Store missing after a swap that failed between its renames, followed by further passes.",
 "C10": " A handshake queued behind a failing first load.",
 "C11": " A list rejected after its entries were read, then an acceptable one, within one load.",
 "C13": " Second handshake during a failing first load whose own download succeeds (verdict sequential).",
 "C14": " Origins send HTTP caching headers.",
 "C17": " A store that stops taking writes in the middle of a big list.",
 "C19": " Valid configurations loaded again after Cleanup with work_dir spellings.",
 "C20": " A swap that fails when the moved-in database is opened again.",
}
for _k, _v in ADDENDA5.items():
    if _k in CHECKS and _v not in CHECKS[_k]["text"]:
        CHECKS[_k]["text"] += _v
