#!/usr/bin/env python3
# bin/costtable.py [thorough-log]: the table of DESIGN.md section 9 from the evidence files of the last quick run
# (and, if given, the one-line summaries of a `bin/snaprun thorough` log).
import json, re, sys
thor = {}
if len(sys.argv) > 1:
    for l in open(sys.argv[1]):
        m = re.match(r'(C\d\d) rc=(\d+) (\d+)s .*evaluations=(\d+) distinct=(\d+)', l)
        if m:
            thor[m.group(1)] = "%s (%s) in %s s" % (m.group(4), m.group(5), m.group(3)) + ("" if m.group(2) == "0" else " (exit %s)" % m.group(2))
print("| check | TLC states / transitions (quick) | quick: replayed edges or cases (distinct) | quick wall | thorough: cases (distinct), wall |")
print("|---|---|---|---|---|")
for i in range(1, 21):
    k = "C%02d" % i
    d = json.load(open("/verif/evidence/%s.json" % k))
    cov = d.get("coverage", {})
    print("| %s | %s / %s | %s (%s) | %d s | %s |" % (k, cov.get("states", "-"), cov.get("transitions", "-"), cov.get("evaluations", "-"), cov.get("distinct_nontrivial", "-"), round(d.get("wall_s", 0)), thor.get(k, "not re-run")))
